"""C01 - SynthDef compilation preserves the meaning of the graph function.

E1: all straight-line SSA graph programs up to a size bound are built through
the real SynthDef, the emitted bytes are decoded by the independent SCgf-2
reader and every unit is evaluated to a polynomial normal form with the
*server's* operator table; the multiset of side-effecting units must equal the
one the reference interpreter derives from the AST."""

import traceback

from mc import core, graphprog as gp
from mc.engines import progenum
from mc.oracles import scgf, server_ops
from mc.oracles import c01x_ref as xr

MODE = 'nrt'
MODNAME = 'mc.checks.c01'

ALLOPS = ['neg', 'abs', 'add', 'sub', 'mul', 'div', 'min', 'lpf', 'madd',
          'sum3', 'sum4']
POOLS = {
    'full': dict(sig=['A', 'B', 'K', 'N', 'L', 'P', 'I'],
                 const=[0, 1, -1, 2, 0.5], tern=['A', 'K', 0, 1, -1, 2],
                 sum=['A', 'B', 'K', 0, 2], sum4=['A', 'K', 0, 2],
                 minb=['A', 'K', 2], ops=ALLOPS),
    'small': dict(sig=['A', 'K', 'N'], const=[0, 1, -1, 2],
                  tern=['A', 0, 1, -1], sum=['A', 'K', 0], sum4=['A', 0],
                  minb=['K', 2], ops=ALLOPS),
    'tiny': dict(sig=['A', 'K'], const=[0, -1], tern=['A', 0, -1],
                 sum=['A', 'K', 0], sum4=[], minb=[],
                 ops=['neg', 'add', 'sub', 'mul', 'div', 'madd', 'sum3']),
    'tinyN': dict(sig=['A', 'N'], const=[1, 2], tern=['N', 1],
                  sum=['A', 'N'], sum4=[], minb=[],
                  ops=['neg', 'add', 'sub', 'mul', 'madd', 'sum3', 'lpf']),
}
LOPS = list(gp.LANE_OPS)
POOLS['fullL'] = dict(POOLS['full'], ops=LOPS)
POOLS['smallL'] = dict(POOLS['small'], ops=LOPS)
# lane programs: every leaf is a channel list (one channel per lane), every
# statement multichannel-expands; lanes of different rates in one call
LANES = {
    'mix': [{}, {'A': 'K', 'K': 'A', 'B': 'L', 'L': 'B', 'P': 'I',
                 'I': 'P'}],
    'alt': [{}, {'A': 'B', 'B': 'A', 'K': 'L', 'L': 'K'}],
    'three': [{}, {'A': 'K', 'K': 'I', 'N': 'L'}, {'A': 'I', 'K': 'A'}],
}
SPACES = {
    # name: (pool per statement position, output options)
    's1': (['full'], ['last', 'twice', 'none']),
    's2': (['small', 'small'], ['last', 'each', 'list']),
    's3': (['tiny', 'tiny', 'tiny'], ['last', 'each']),
    's3N': (['tinyN', 'tinyN', 'tinyN'], ['last', 'list']),
    'l1': (['fullL'], ['last']),
    'l2': (['smallL', 'smallL'], ['last', 'each']),
}


def programs(space, shard, of, tagbase, slice_of=1, slice_ix=0, lanes=None):
    """All programs of a space whose prefix index falls in this shard (and,
    for a sliced space, in the selected slice)."""
    pools, outs = SPACES[space]
    n = len(pools)

    def rec(k, prefix):
        if k == n - 1:
            yield prefix
            return
        for st in gp.statements(k, POOLS[pools[k]]):
            yield from rec(k + 1, prefix + [st])

    idx = -1
    for prefix in rec(0, []):
        idx += 1
        if idx % of != shard:
            continue
        if slice_of > 1 and (idx // of) % slice_of != slice_ix:
            continue
        for st in gp.statements(n - 1, POOLS[pools[n - 1]]):
            for o in outs:
                p = {'stmts': prefix + [st], 'outs': o, 'tagbase': tagbase}
                if lanes:
                    p['lanes'] = LANES[lanes]
                yield p


def check_program(prog):
    """-> (disagreements, nontrivial, outcome, skipped)"""
    from sc3.base.main import main
    try:
        ref = gp.interpret(prog)
    except gp.IllFormed:
        return [], False, None, True
    try:
        data, _ = gp.build(prog)
    except Exception as e:
        main._current_synthdef = None
        tb = traceback.extract_tb(e.__traceback__)
        where = next((f.name for f in reversed(tb) if '/sc3/' in f.filename),
                     '?')
        kind = f'build-raises-{type(e).__name__}@{where}'
        return [(kind, 'a compiled definition', repr(e)[:300],
                 'well-formed program rejected')], ref['nontrivial'], kind, \
            False
    try:
        d = scgf.decode(data)['defs']
        if len(d) != 1:
            raise scgf.FormatError(f'{len(d)} definitions')
        d = d[0]
    except scgf.FormatError as e:
        return [('scgf-unparsable', 'SCgf v2', repr(e), '')], \
            ref['nontrivial'], 'unparsable', False
    dis = gp.compare(prog, ref, d)
    outcome = [[u['name'], u['rate'], u['special'], u['inputs']]
               for u in d['units']]
    return dis, ref['nontrivial'], outcome, False


def work(job):
    acc = progenum.Acc()
    for prog in programs(job['space'], job['shard'], job['of'],
                         job['tagbase'], job.get('slice_of', 1),
                         job.get('slice_ix', 0), job.get('lanes')):
        dis, nt, outcome, skipped = check_program(prog)
        if skipped:
            acc.count('skipped_ill_formed')
            continue
        for kind, exp, obs, detail in dis:
            acc.violation(kind, prog, exp, obs, detail,
                          size=len(prog['stmts']) * 10000 +
                          len(core.canon(prog)))
        acc.case(prog, nt, outcome, steps=len(prog['stmts']) + 1)
    return acc.result()


# ---- extended programs (grammar of mc/oracles/c01x_ref.py) -----------------

_SIG = {'p': 'p=0.25', 'i': "i: 'ir' = 0.75", 't': "t: 'tr' = 0.5",
        'u': "u: 'ar' = 0.125"}


def xmake(prog):
    """A real graph function for an extended program."""
    leaves = xr.leaves_of(prog)
    params = [xr.PARAMS[lf] for lf in ('P', 'I', 'T', 'U') if lf in leaves]
    ref_syn = xr.interpret(prog)['syn']

    def one(v):
        # Mix.new answers a one-channel list for short inputs
        while isinstance(v, list) and len(v) == 1:
            v = v[0]
        return v

    def run(env):
        from sc3.synth.ugens import (oscillators, noise, line, filter, inout,
                                     trig, envgen, mix)
        from sc3.synth.ugen import ChannelList, MulAdd, Sum3, Sum4
        vals = []

        def leaf(a):
            if a not in env:
                t = xr.tag_of(prog, xr.unit_key(a))
                if a in ('A', 'B'):
                    env[a] = oscillators.SinOsc.ar(t)
                elif a == 'K':
                    env[a] = oscillators.SinOsc.kr(t)
                elif a == 'N':
                    env[a] = noise.LFNoise0.ar(t)
                elif a == 'L':
                    env[a] = line.Line.kr(t, 1, 1, 0)
                elif a == 'R':
                    env[a] = noise.Rand.new(t, t + 0.5)
                elif a in ('X0', 'X1'):
                    x = inout.In.ar(t, 2)
                    env['X0'], env['X1'] = x[0], x[1]
            return env[a]

        def get(a):
            if xr.is_const(a):
                return a
            if xr.is_val(a):
                return vals[int(a[1:])]
            return leaf(a)

        for k, st in enumerate(prog['stmts']):
            op = st[0]
            xs = [get(a) for a in st[1:]]
            if op == 'neg':
                v = -xs[0]
            elif op == 'add':
                v = xs[0] + xs[1]
            elif op == 'sub':
                v = xs[0] - xs[1]
            elif op == 'mul':
                v = xs[0] * xs[1]
            elif op == 'div':
                v = xs[0] / xs[1]
            elif op == 'madd':
                v = xs[0].madd(xs[1], xs[2])
            elif op == 'umadd':
                v = MulAdd.new(xs[0], xs[1], xs[2])
            elif op in ('sum3', 'sum4'):
                v = ChannelList(xs).sum()
            elif op == 'usum3':
                v = Sum3.new(*xs)
            elif op == 'usum4':
                v = Sum4.new(*xs)
            elif op == 'mix':
                v = one(mix.Mix.new(list(xs)))
            elif op == 'sum':
                v = ChannelList(xs).sum()
            elif op == 'range':
                v = xs[0].range(xs[1], xs[2])
            elif op == 'unipolar':
                v = xs[0].unipolar(xs[1])
            elif op == 'bipolar':
                v = xs[0].bipolar(xs[1])
            elif op == 'linlin':
                ctor = line.LinLin.ar if ref_syn[k] == 2 else line.LinLin.kr
                v = ctor(*xs)
            elif op == 'abs':
                v = abs(xs[0])
            elif op == 'min':
                v = xs[0].min(xs[1])
            elif op == 'lpf':
                v = filter.LPF.ar(xs[0], xr.tag_of(prog, f'F{k}'))
            elif op == 'trg':
                v = trig.Trig1.kr(xs[0], xr.tag_of(prog, f'G{k}'))
            elif op == 'fs':
                v = envgen.FreeSelf.kr(xs[0])
            vals.append(v)
        for sk in prog.get('sinks', []):
            ctor = getattr(getattr(inout, sk[0]), sk[1])
            nfix = xr.SINKS[sk[0]]
            fixed = [get(a) for a in sk[2:2 + nfix]]
            chans = [get(a) for a in sk[2 + nfix:]]
            ctor(*fixed, chans[0] if len(chans) == 1 else chans)

    src = 'def graph({}):\n    run({{{}}})\n'.format(
        ', '.join(_SIG[n] for n in params),
        ', '.join(f'{xr.PARAM_LEAF[n]!r}: {n}' for n in params))
    ns = {'run': run}
    exec(src, ns)
    return ns['graph']


def xbuild(prog, name='x'):
    from sc3.synth.synthdef import SynthDef
    return gp.sd_bytes(SynthDef(name, xmake(prog)))


def _build_failure(e, nontrivial):
    tb = traceback.extract_tb(e.__traceback__)
    where = next((f.name for f in reversed(tb) if '/sc3/' in f.filename),
                 '?')
    kind = f'build-raises-{type(e).__name__}@{where}'
    return [(kind, 'a compiled definition', repr(e)[:300],
             'well-formed program rejected')], nontrivial, kind, False


def check_xprogram(prog):
    """-> (disagreements, nontrivial, outcome, skipped)"""
    from sc3.base.main import main
    try:
        ref = xr.interpret(prog)
    except xr.IllFormed:
        return [], False, None, True
    try:
        data = xbuild(prog)
    except Exception as e:
        main._current_synthdef = None
        return _build_failure(e, ref['nontrivial'])
    try:
        d = scgf.decode(data)['defs']
        if len(d) != 1:
            raise scgf.FormatError(f'{len(d)} definitions')
        d = d[0]
    except scgf.FormatError as e:
        return [('scgf-unparsable', 'SCgf v2', repr(e), '')], \
            ref['nontrivial'], 'unparsable', False
    dis = xr.compare(prog, ref, d)
    outcome = [[u['name'], u['rate'], u['special'], u['inputs']]
               for u in d['units']]
    return dis, ref['nontrivial'], outcome, False


# ---- families of extended programs -----------------------------------------

XPOOLS = {
    # one statement over output proxies (controls of every kind, In.ar
    # channels) and a scalar-rate unit
    'px1': dict(sig=['A', 'K', 'P', 'I', 'T', 'U', 'X0', 'X1', 'R'],
                const=[0, 1, -1, 2], tern=['P', 'X0', 0, -1, 2],
                sum=['A', 'P', 'X0', 'X1', 0, 2], sum4=['P', 'X0', 0, 2],
                minb=['P', 2],
                ops=['neg', 'abs', 'add', 'sub', 'mul', 'div', 'min', 'lpf',
                     'madd', 'sum3', 'sum4']),
    'px2': dict(sig=['A', 'P', 'X0'], const=[0, 2], tern=['P', 2],
                sum=['A', 'P', 'X0'], sum4=[], minb=[],
                ops=['neg', 'add', 'sub', 'mul', 'madd', 'sum3']),
    # thorough only: two statements over a wider proxy pool
    'px2T': dict(sig=['A', 'K', 'P', 'U', 'X0', 'X1'], const=[0, -1, 2],
                 tern=['P', 'X1', -1, 2], sum=['A', 'P', 'X0', 'X1', 0],
                 sum4=[], minb=[],
                 ops=['neg', 'add', 'sub', 'mul', 'div', 'madd', 'sum3']),
    'px3': dict(sig=['A', 'P'], const=[-1], tern=[],
                sum=['A', 'P'], sum4=[], minb=[],
                ops=['neg', 'add', 'sub', 'mul', 'sum3']),
}
CONST_SPELLINGS = [0.0, 1.0, -1.0, -0.0, True, False, 2.0, -2, -0.5]


def _auto_sinks(ref, which):
    """Out.ar(0, v) for values that are certainly audio rate, Out.kr(1, v)
    for the others, one unit per selected value."""
    out = []
    for i in which:
        out.append(['Out', 'ar', 0, f'v{i}'] if ref['nf'][i] == 2
                   else ['Out', 'kr', 1, f'v{i}'])
    return out


def _with_outs(stmts, outs, tagbase):
    """Programs for a statement list and output options; ill-formed
    statement lists answer nothing."""
    base = {'x': 1, 'stmts': stmts, 'sinks': [], 'tagbase': tagbase}
    try:
        ref = xr.interpret(base)
    except xr.IllFormed:
        return
    n = len(stmts)
    for o in outs:
        if o == 'last':
            sinks = _auto_sinks(ref, [n - 1])
        elif o == 'each':
            if n == 1:
                continue
            sinks = _auto_sinks(ref, range(n))
        elif o == 'first':
            if n == 1:
                continue
            sinks = _auto_sinks(ref, [0])
        elif o == 'list':
            if n == 1:
                continue
            ar = all(r == 2 for r in ref['nf'])
            sinks = [['Out', 'ar' if ar else 'kr', 0 if ar else 1] +
                     [f'v{i}' for i in range(n)]]
        elif o == 'none':
            sinks = []
        yield dict(base, sinks=sinks)


def _tuples(pool, n):
    if n == 0:
        yield []
        return
    for t in _tuples(pool, n - 1):
        for a in pool:
            yield t + [a]


def fused_statements(level):
    """Direct calls of the fused-unit constructors and Mix.new."""
    if level == 1:
        s3 = ['A', 'K', 'N', 'P', 'I', 0, 1, 2]
        s4 = ['A', 'K', 'P', 0, 2]
        ma = ['A', 'K', 'I', 0, 1, -1, 2]
        mx = {2: ['A', 'K', 0, 2], 3: ['A', 'K', 0, 2], 4: ['A', 'K', 0, 2],
              5: ['A', 'K', 0, 2], 6: ['A', 0]}
    else:
        s3 = ['A', 'K', 0]
        s4 = ['A', 'K', 0]
        ma = ['A', 'K', 0, -1, 2]
        mx = {3: ['A', 'K', 0], 4: ['A', 0], 5: ['A', 0]}
    out = []
    for op, pool, n in (('usum3', s3, 3), ('usum4', s4, 4),
                        ('umadd', ma, 3)):
        for t in _tuples(pool, n):
            if not all(xr.is_const(a) for a in t):
                out.append([op] + t)
    for n in sorted(mx):
        for t in _tuples(mx[n], n):
            if not all(xr.is_const(a) for a in t):
                out.append(['mix'] + t)
    return out


FUSED_CONSUMERS = [
    ['neg', 'v0'], ['add', 'v0', 'A'], ['add', 'A', 'v0'],
    ['add', 'v0', 'v0'], ['sub', 'A', 'v0'], ['sub', 'v0', 'K'],
    ['mul', 'v0', 2], ['mul', 'v0', 'v0'], ['usum3', 'v0', 'A', 0],
    ['usum3', 'v0', 'v0', 'K'], ['usum4', 'v0', 'A', 'K', 0],
    ['usum4', 'A', 'v0', 'v0', 0], ['umadd', 'v0', 2, 'A'],
    ['umadd', 2, 'v0', 'K'], ['umadd', 'v0', 'v0', 'v0'],
    ['mix', 'v0', 'A'], ['mix', 'v0', 'A', 'K'],
    ['mix', 'A', 'K', 'v0', 'v0'], ['mix', 'v0', 'A', 'K', 'A', 'N'],
    ['trg', 'v0'], ['fs', 'v0'], ['lpf', 'v0']]


def sink_forms(v, w):
    """Every sink unit form over a channel value v and a second channel w."""
    chans = [[v], [v, v], [v, 0], [0, v], [v, w]]
    out = []
    for cls in ('Out', 'ReplaceOut', 'OffsetOut'):
        for rate in ('ar', 'kr'):
            for bus in (0, 'K', 'P'):
                for ch in chans:
                    out.append([cls, rate, bus] + ch)
    for rate in ('ar', 'kr'):
        for bus in (0, 'K', 'P'):
            for xf in (0.5, 'K'):
                for ch in chans:
                    out.append(['XOut', rate, bus, xf] + ch)
        for ch in chans:
            out.append(['LocalOut', rate] + ch)
    return out


SINK_BODIES = [
    ([], 'A', 'B'), ([], 'U', 'X1'),
    ([['add', 'A', 'B']], 'v0', 'A'),
    ([['add', 'A', 'K']], 'v0', 'B'),
    ([['mul', 'K', 2]], 'v0', 'K'),
    ([['add', 'A', 'B'], ['add', 'v0', 'N']], 'v1', 'A'),
    ([['neg', 'A'], ['add', 'B', 'v0']], 'v1', 'v0'),
    ([['mix', 'A', 'B', 'N']], 'v0', 'X0'),
]
EFFECT_FIRST = [['neg', 'N'], ['add', 'A', 'K'], ['add', 'A', 'N'],
                ['mul', 'K', 'L'], ['sum3', 'A', 'K', 'N'],
                ['add', 'L', 0], ['usum3', 'A', 'B', 'N'], ['neg', 'R']]
EFFECT_SECOND = [['trg', 'v0'], ['fs', 'v0'], ['trg', 'N'], ['fs', 'L']]
EFFECT_THIRD = [None, ['neg', 'v1'], ['mul', 'v1', 2], ['add', 'v1', 'A'],
                ['add', 'v1', 'v0'], ['trg', 'v1'], ['fs', 'v1'],
                ['sub', 'v0', 'v1']]


def xprograms(family, tagbase, shard=0, of=1, slice_of=1, slice_ix=0):
    """The programs of an extended family that fall in this shard (and, for
    a sliced family, in the selected slice), canonical order.  The proxy
    families are sharded by the index of the statement prefix, the others by
    the index of the program."""
    if family in ('proxy2', 'proxy3', 'proxy2T'):
        n = int(family[5])
        pool = XPOOLS['px' + family[5:]]
        outs = {'proxy2': ['last', 'each', 'list'],
                'proxy2T': ['last', 'each'],
                'proxy3': ['last', 'each']}[family]

        def rec(k, prefix):
            if k == n - 1:
                yield prefix
                return
            for st in gp.statements(k, pool):
                yield from rec(k + 1, prefix + [st])
        idx = -1
        for prefix in rec(0, []):
            idx += 1
            if idx % of != shard:
                continue
            if slice_of > 1 and (idx // of) % slice_of != slice_ix:
                continue
            for st in gp.statements(n - 1, pool):
                yield from _with_outs(prefix + [st], outs, tagbase)
        return
    idx = -1
    for prog in _xfamily(family, tagbase):
        idx += 1
        if idx % of != shard:
            continue
        if slice_of > 1 and (idx // of) % slice_of != slice_ix:
            continue
        yield prog


def _xfamily(family, tagbase):
    if family == 'proxy1':
        for st in gp.statements(0, XPOOLS['px1']):
            yield from _with_outs([st], ['last', 'none'], tagbase)
    elif family == 'fused1':
        for st in fused_statements(1):
            yield from _with_outs([st], ['last', 'none'], tagbase)
    elif family in ('fused2', 'fused2T'):
        for st in fused_statements(1 if family == 'fused2T' else 2):
            for c in FUSED_CONSUMERS:
                yield from _with_outs([st, c], ['last', 'each', 'first'],
                                      tagbase)
    elif family == 'spell':
        C = CONST_SPELLINGS
        for op in ('add', 'sub', 'mul', 'div'):
            for x in ('A', 'K'):
                for c in C:
                    yield from _with_outs([[op, x, c]], ['last'], tagbase)
                    yield from _with_outs([[op, c, x]], ['last'], tagbase)
        for op in ('madd', 'umadd'):
            for c1 in C + ['K']:
                for c2 in C + ['K']:
                    yield from _with_outs([[op, 'A', c1, c2]], ['last'],
                                          tagbase)
        for c in C:
            for t in (['A', 'K', c], ['A', c, 'K'], [c, 'A', 'K'],
                      [c, c, 'A']):
                yield from _with_outs([['usum3'] + t], ['last'], tagbase)
                yield from _with_outs([['sum3'] + t], ['last'], tagbase)
                yield from _with_outs([['usum4', 'B'] + t], ['last'],
                                      tagbase)
                yield from _with_outs([['mix'] + t + ['B']], ['last'],
                                      tagbase)
    elif family == 'sums':
        for n, pool in ((5, ['A', 'K', 'N', 0]), (6, ['A', 'K', 0]),
                        (7, ['A', 'K']), (8, ['A', 'K'])):
            for t in _tuples(pool, n):
                if not all(xr.is_const(a) for a in t):
                    yield from _with_outs([['sum'] + t], ['last'], tagbase)
        for n, pool in ((5, ['A', 'K']), (6, ['A', 'K'])):
            for t in _tuples(pool, n):
                for c in (['add', 'v0', 'v0'], ['add', 'B', 'v0'],
                          ['sum', 'v0', 'A', 'B', 'v0', 'K']):
                    yield from _with_outs([['sum'] + t, c],
                                          ['last', 'each'], tagbase)
        # Mix.new clumps by four and recurses on more than twelve channels
        for n in range(7, 18):
            for pat in (['A'], ['A', 'K'], ['A', 0, 'K', 2], [0, 'A'],
                        ['K', 'K', 'A'], ['N', 'A', 'A', 'A', 'A', 'B']):
                t = (pat * n)[:n]
                yield from _with_outs([['mix'] + t], ['last'], tagbase)
                yield from _with_outs([['mix'] + t, ['add', 'v0', 'v0']],
                                      ['last'], tagbase)
    elif family == 'scale':
        C = [-1, 0, 1, 2, 0.5]
        recv = [([], x) for x in ('A', 'K', 'N', 'L', 'P', 'I', 'U', 'X1')]
        recv += [([['trg', 'A']], 'v0'), ([['trg', 'K']], 'v0')]
        for pre, x in recv:
            for lo in C:
                for hi in C:
                    yield from _with_outs(pre + [['range', x, lo, hi]],
                                          ['last'], tagbase)
                yield from _with_outs(pre + [['unipolar', x, lo]], ['last'],
                                      tagbase)
                yield from _with_outs(pre + [['bipolar', x, lo]], ['last'],
                                      tagbase)
            for src in ((0, 1), (-1, 1), (0, 2), (1, 0), (1, -1)):
                for dst in ((0, 1), (1, 2), (-1, 1), (2, 0), (0, 0),
                            (0.5, 1)):
                    yield from _with_outs(
                        pre + [['linlin', x] + list(src) + list(dst)],
                        ['last'], tagbase)
    elif family == 'sinks':
        for stmts, v, w in SINK_BODIES:
            forms = sink_forms(v, w)
            for f in forms:
                yield {'x': 1, 'stmts': stmts, 'sinks': [f],
                       'tagbase': tagbase}
            for f in forms:
                # a second unit next to a plain output of the same value
                yield {'x': 1, 'stmts': stmts,
                       'sinks': [['Out', 'kr', 1, v], f],
                       'tagbase': tagbase}
    elif family == 'effects':
        for a in EFFECT_FIRST:
            for b in EFFECT_SECOND:
                for c in EFFECT_THIRD:
                    stmts = [a, b] + ([c] if c else [])
                    yield from _with_outs(stmts, ['none', 'last', 'first'],
                                          tagbase)
    else:
        raise ValueError(family)


def work_x(job):
    acc = progenum.Acc()
    for prog in xprograms(job['family'], job['tagbase'], job['shard'],
                          job['of'], job.get('slice_of', 1),
                          job.get('slice_ix', 0)):
        dis, nt, outcome, skipped = check_xprogram(prog)
        if skipped:
            acc.count('skipped_ill_formed')
            continue
        for kind, exp, obs, detail in dis:
            acc.violation(kind, prog, exp, obs, detail,
                          size=len(prog['stmts']) * 10000 +
                          len(core.canon(prog)))
        acc.case(prog, nt, outcome, steps=len(prog['stmts']) + 1)
    return acc.result()


# ---- census of units that must never be dropped -----------------------------

def census_graph(case):
    import importlib
    from sc3.synth.ugens import oscillators, line, inout
    from sc3.synth import ugen as ugn
    mod, cls, ctor, args, nout = xr.CENSUS[case['census']]
    klass = getattr(importlib.import_module('sc3.synth.ugens.' + mod), cls)
    state = {'skip': False}

    def graph():
        env = {}

        def arg(a):
            if a == 'A':
                return env.setdefault('A', oscillators.SinOsc.ar(101.0))
            if a == 'K':
                return env.setdefault('K', oscillators.SinOsc.kr(103.0))
            if a == 'L':
                return env.setdefault('L', line.Line.kr(104.0, 1, 1, 0))
            return a

        u = getattr(klass, ctor)(*[arg(a) for a in args])
        use = case['use']
        if use != 'unused':
            src = u.source_ugen if isinstance(u, ugn.OutputProxy) else u
            if type(src).__name__ != cls:
                # the constructor does not answer the unit (FreeSelf.kr
                # answers its input): nothing can consume it
                state['skip'] = True
                return
        if use == 'dead-neg':
            -u
        elif use == 'dead-mul':
            u * 0.5
        elif use == 'dead-chain':
            abs(-u) * 2
        elif use == 'dead-pure':
            oscillators.SinOsc.ar(u)
        elif use == 'live':
            inout.Out.kr(1, u)
        inout.Out.ar(0, oscillators.SinOsc.ar(100.0))

    return graph, state


def check_census(case):
    """-> (disagreements, outcome, skipped)"""
    from sc3.base.main import main
    from sc3.synth.synthdef import SynthDef
    graph, state = census_graph(case)
    try:
        data = gp.sd_bytes(SynthDef('census', graph))
    except Exception as e:
        main._current_synthdef = None
        dis, _, kind, _ = _build_failure(e, True)
        return dis, kind, False
    if state['skip']:
        return [], None, True
    try:
        d = scgf.decode(data)['defs'][0]
    except scgf.FormatError as e:
        return [('scgf-unparsable', 'SCgf v2', repr(e), '')], 'unparsable', \
            False
    dis = xr.census_expect(case, d)
    return dis, [[u['name'], u['rate'], len(u['inputs']), u['outputs']]
                 for u in d['units']], False


def work_census(job):
    acc = progenum.Acc()
    for i, case in enumerate(xr.census_cases()):
        if i % job['of'] != job['shard']:
            continue
        dis, outcome, skipped = check_census(case)
        if skipped:
            acc.count('skipped_constructor_answers_no_unit')
            continue
        for kind, exp, obs, detail in dis:
            acc.violation(kind, {'censuscase': case}, exp, obs, detail)
        acc.case({'censuscase': case}, True, outcome)
    return acc.result()


# ---- flat operator sweep --------------------------------------------------

def op_cases():
    cases = []
    for m, srv in sorted(server_ops.PY_UNARY.items()):
        for recv in ('A', 'K'):
            cases.append({'op': m, 'arity': 1, 'recv': recv,
                          'server': srv})
    for m, srv in sorted(server_ops.PY_BINARY.items()):
        for recv in ('A', 'K'):
            for other in ('B', 'K', 3, 0.5):
                cases.append({'op': m, 'arity': 2, 'recv': recv,
                              'other': other, 'server': srv,
                              'reflected': False})
    for m, srv in sorted(server_ops.PY_REFLECTED.items()):
        for recv in ('A', 'K'):
            for other in (3, 0.5):
                cases.append({'op': m, 'arity': 2, 'recv': recv,
                              'other': other, 'server': srv,
                              'reflected': True})
    # scalar-rate operands (an 'ir' control): the unit runs at scalar rate
    for m, srv in sorted(server_ops.PY_UNARY.items()):
        cases.append({'op': m, 'arity': 1, 'recv': 'I', 'server': srv})
    for m, srv in sorted(server_ops.PY_BINARY.items()):
        for recv, other in (('I', 3), ('I', 'K'), ('A', 'I'), ('I', 'I')):
            cases.append({'op': m, 'arity': 2, 'recv': recv,
                          'other': other, 'server': srv,
                          'reflected': False})
    for m, srv in sorted(server_ops.PY_REFLECTED.items()):
        cases.append({'op': m, 'arity': 2, 'recv': 'I', 'other': 3,
                      'server': srv, 'reflected': True})
    # the same operators reached through the functions of sc3.base.builtins
    # (f(signal), f(signal, x) and f(number, signal))
    for m, srv in sorted(server_ops.PY_UNARY.items()):
        if not m.startswith('__'):
            for recv in ('A', 'K', 'I'):
                cases.append({'op': m, 'arity': 1, 'recv': recv,
                              'server': srv, 'route': 'bi'})
    for m, srv in sorted(server_ops.PY_BINARY.items()):
        if not m.startswith('__'):
            for recv, other in (('A', 'K'), ('K', 3), ('I', 0.5)):
                cases.append({'op': m, 'arity': 2, 'recv': recv,
                              'other': other, 'server': srv,
                              'reflected': False, 'route': 'bi'})
            for recv, other in (('A', 3), ('K', 0.5), ('I', 3)):
                cases.append({'op': m, 'arity': 2, 'recv': recv,
                              'other': other, 'server': srv,
                              'reflected': True, 'route': 'bi'})
    return cases


def check_op(case):
    """-> (disagreements, observed units); (None, None) when the spelling
    does not exist in sc3.base.builtins (not decided by the property)."""
    from sc3.base.main import main
    from sc3.synth.synthdef import SynthDef
    from sc3.synth.ugens import oscillators, inout
    from sc3.base import builtins as bi

    route = case.get('route')
    if route == 'bi' and not hasattr(bi, case['op']):
        return None, None
    uses_i = 'I' in (case['recv'], case.get('other'))

    def body(i):
        env = {'A': oscillators.SinOsc.ar(101.0),
               'B': oscillators.SinOsc.ar(102.0),
               'K': oscillators.SinOsc.kr(103.0), 'I': i}
        x = env[case['recv']]
        if case['arity'] == 1:
            if route == 'bi':
                r = getattr(bi, case['op'])(x)
            else:
                r = getattr(x, case['op'])()
        else:
            o = case['other']
            o = env[o] if isinstance(o, str) else o
            if route == 'bi':
                f = getattr(bi, case['op'])
                r = f(o, x) if case['reflected'] else f(x, o)
            else:
                r = getattr(x, case['op'])(o)
        inout.Out.kr(1, r)

    if uses_i:
        def graph(i: 'ir' = 0.75):
            body(i)
    else:
        def graph():
            body(None)

    try:
        data = gp.sd_bytes(SynthDef('op', graph))
    except Exception as e:
        main._current_synthdef = None
        return [(f'operator-build-raises', 'a unit with the server opcode of '
                 + case['server'], repr(e)[:300], '')], None
    d = scgf.decode(data)['defs'][0]
    bad = scgf.validate(d)
    if bad:
        return [('scgf-integrity', [], bad[:3], '')], None
    cls = 'UnaryOpUGen' if case['arity'] == 1 else 'BinaryOpUGen'
    table = server_ops.UN if case['arity'] == 1 else server_ops.BIN
    want_special = table[case['server']]
    ops = [u for u in d['units'] if u['name'] in gp.ARITH]
    tagrate = {'A': 2, 'B': 2, 'K': 1, 'I': 0}

    def src(inp):
        if inp[0] == 'c':
            return d['constants'][inp[1]]
        u = d['units'][inp[1]]
        if u['name'] == 'Control' and u['rate'] == 0:
            return 'I'
        t = u['inputs'][0] if u['inputs'] else None
        return {101.0: 'A', 102.0: 'B', 103.0: 'K'}.get(
            d['constants'][t[1]] if t and t[0] == 'c' else None, '?')

    if case['arity'] == 1:
        want_in = [case['recv']]
    elif case['reflected']:
        want_in = [float(case['other']), case['recv']]
    else:
        o = case['other']
        want_in = [case['recv'], o if isinstance(o, str) else float(o)]
    want_rate = max(tagrate.get(x, 0) for x in want_in
                    if isinstance(x, str))
    want = [[cls, want_special, want_rate, want_in]]
    got = [[u['name'], u['special'], u['rate'],
            [src(i) for i in u['inputs']]] for u in ops]
    dis = []
    if got != want:
        dis.append(('operator-opcode-or-wiring', want, got, case['op']))
    return dis, got


def work_ops(job):
    acc = progenum.Acc()
    cases = op_cases()
    for i, case in enumerate(cases):
        if i % job['of'] != job['shard']:
            continue
        dis, got = check_op(case)
        if dis is None:
            acc.count('skipped_no_such_builtin')
            continue
        for kind, exp, obs, detail in dis:
            acc.violation(kind, {'opcase': case}, exp, obs, detail)
        acc.case({'opcase': case}, True, got)
    return acc.result()


def bi_bitnot(v):
    """sc3.base.builtins.bitnot(signal): the function spelling of bitNot is
    missing from the opcode table."""
    c = v['case'].get('opcase') or {}
    return c.get('op') == 'bitnot' and c.get('route') == 'bi' and \
        c.get('arity') == 1


PREDICATES = {'bi_bitnot': bi_bitnot}


def replay(job):
    case = job['case']
    if 'opcase' in case:
        dis, got = check_op(case['opcase'])
        dis = dis or []
        observed = got
    elif 'censuscase' in case:
        dis, observed, _ = check_census(case['censuscase'])
    elif case.get('x'):
        dis, _, observed, _ = check_xprogram(case)
    else:
        dis, _, observed, _ = check_program(case)
    return {'violates': any(d[0] == job['kind'] for d in dis),
            'disagreements': [[d[0], repr(d[1])[:500], repr(d[2])[:500]]
                              for d in dis],
            'observed_units': observed}


def main(ctx):
    ctx.rule = (
        'E1: every straight-line SSA graph program over the leaf/constant/'
        'operator alphabet of mc/graphprog.py up to the statement bound, with '
        'every output option, is compiled by the real SynthDef; bytes are '
        'decoded by mc/oracles/scgf.py and compared (polynomial normal form, '
        'server opcode table) with the reference interpretation of the AST. '
        'Distinct = literally different program. Non-trivial = the AST has a '
        'neutral/absorbing constant operand, an operand shared inside a '
        'statement or between statements/outputs, a dead statement, or an '
        'add/sub over a value produced by add/mul/neg/sum (optimiser rewrite). '
        'Lane programs: the same statements (neg add sub mul div madd) over '
        'leaves that are channel lists, one channel per lane with lanes of '
        'different rates; meaning = the scalar program run once per lane. '
        'Extended programs (grammar and reference semantics in '
        'mc/oracles/c01x_ref.py): families fused1/fused2 (Sum3.new, Sum4.new,'
        ' MulAdd.new called directly with constants in every position, '
        'Mix.new of 2..6 channels, then one consumer), spell (neutral / '
        'absorbing / negative constants spelled 0.0 1.0 -1.0 -0.0 True False '
        '2.0 -2 -0.5), sums (one .sum() of 5..8 channels, Mix.new of 7..17 '
        'channels), scale (range / '
        'unipolar / bipolar / LinLin), sinks (Out ReplaceOut OffsetOut XOut '
        'LocalOut x ar/kr x constant or signal bus / xfade x channel lists '
        'with silence), effects (Trig1 / FreeSelf on computed values, dead '
        'and live consumers), proxy1..3 (the base operators over TrigControl,'
        ' AudioControl, In.ar channels, Rand and kr/ir controls); non-trivial'
        ' there = an extended operator, leaf, sink or constant spelling, a '
        'neutral constant, a shared operand or a dead value occurs. Census: '
        'every unit of a typed-in list of side-effecting / stateful classes, '
        'created unused, under a dead neg / mul / chain / pure consumer, or '
        'live, must occur exactly once at its own rate (all count as '
        'non-trivial). Operator sweep: every operator method x every receiver'
        ' / operand rate incl. scalar, also through the functions of '
        'sc3.base.builtins.')
    ctx.assumptions += [
        'reference semantics: mc/graphprog.py interpret() + mc/oracles/poly.py'
        ' (ring identities of + - * neg, x/c=x*(1/c)); opcode numbering typed '
        'from the server source in mc/oracles/server_ops.py',
        'well-formedness rule of DESIGN.md C01: Out.ar only for values whose '
        'normal form contains an audio-rate atom; division by a zero signal '
        'and constant-only statements are not generated',
        'constants are float32-exact; atoms carry unique tag constants',
        'census list (mc/oracles/c01x_ref.py CENSUS) typed from the '
        'SuperCollider class documentation: units with a done action, node '
        'control, bus / buffer / disk writers, client messages, random '
        'generators; a random generator counts as stateful (never dropped), '
        'as LFNoise0 does in the base programs',
        'x.range(lo, hi) of a bipolar unit = x*(hi-lo)/2 + (hi-lo)/2 + lo, of '
        'a unipolar one (Trig1) = x*(hi-lo) + lo; LinLin = the affine map of '
        'its documentation']
    tagbase = 100 + 32 * (ctx.seed % 4)
    NS = 128
    progenum.run(ctx, MODNAME, 'work_ops',
                 [{'shard': i, 'of': 16} for i in range(16)],
                 bound='operator sweep')
    progenum.run(ctx, MODNAME, 'work',
                 [{'space': 's1', 'shard': i, 'of': 16, 'tagbase': tagbase}
                  for i in range(16)], bound='1 statement, full pool')
    progenum.run(ctx, MODNAME, 'work',
                 [{'space': 's2', 'shard': i, 'of': NS, 'tagbase': tagbase}
                  for i in range(NS)], bound='2 statements, small pool')
    for ln in sorted(LANES):
        progenum.run(ctx, MODNAME, 'work',
                     [{'space': 'l1', 'shard': i, 'of': 16, 'lanes': ln,
                       'tagbase': tagbase} for i in range(16)],
                     bound=f'1 statement over channel lists (lanes {ln})')
    for ln in (['mix'] if ctx.tier == 'quick' else sorted(LANES)):
        progenum.run(ctx, MODNAME, 'work',
                     [{'space': 'l2', 'shard': i, 'of': NS, 'lanes': ln,
                       'tagbase': tagbase} for i in range(NS)],
                     bound=f'2 statements over channel lists (lanes {ln})')
    progenum.run(ctx, MODNAME, 'work_census',
                 [{'shard': i, 'of': 16} for i in range(16)],
                 bound='census of units that must not be dropped')
    for fam, ns in (('fused1', 16), ('spell', 16), ('sums', 16),
                    ('scale', 16), ('sinks', 16), ('effects', 16),
                    ('proxy1', 16), ('fused2', 32),
                    ('proxy2', NS)):
        progenum.run(ctx, MODNAME, 'work_x',
                     [{'family': fam, 'shard': i, 'of': ns,
                       'tagbase': tagbase} for i in range(ns)],
                     bound=f'extended programs: {fam}')
    if ctx.tier == 'quick':
        k = 32
        progenum.run(ctx, MODNAME, 'work_x',
                     [{'family': 'proxy3', 'shard': i, 'of': NS,
                       'tagbase': tagbase, 'slice_of': k,
                       'slice_ix': core.pick_slice(ctx.seed, k)}
                      for i in range(NS)],
                     bound=f'extended programs: proxy3, 1/{k} slice chosen '
                           'by seed (not exhaustive)')
    else:
        for fam in ('proxy3', 'proxy2T', 'fused2T'):
            progenum.run(ctx, MODNAME, 'work_x',
                         [{'family': fam, 'shard': i, 'of': 512,
                           'tagbase': tagbase} for i in range(512)],
                         bound=f'extended programs: {fam}')
    if ctx.tier == 'quick':
        k = 64
        for sp in ('s3', 's3N'):
            progenum.run(ctx, MODNAME, 'work',
                         [{'space': sp, 'shard': i, 'of': NS,
                           'tagbase': tagbase, 'slice_of': k,
                           'slice_ix': core.pick_slice(ctx.seed, k)}
                          for i in range(NS)],
                         bound=f'3 statements ({sp}), 1/{k} slice chosen by '
                               'seed (not exhaustive)')
        ctx.extra['exhaustive_bounds'] = ['operator sweep', '1 statement',
                                          '2 statements', 'census',
                                          'extended families except proxy3']
        ctx.extra['sampled_slice'] = ('3 statements: 1/64 of the prefixes; '
                                      'proxy3: 1/32 of the prefixes')
    else:
        for sp in ('s3', 's3N'):
            progenum.run(ctx, MODNAME, 'work',
                         [{'space': sp, 'shard': i, 'of': 512,
                           'tagbase': tagbase} for i in range(512)],
                         bound=f'3 statements ({sp})')
        ctx.extra['exhaustive_bounds'] = ['operator sweep', '1 statement',
                                          '2 statements',
                                          '3 statements (tiny pools)',
                                          'census', 'all extended families']
