"""C01 - SynthDef compilation preserves the meaning of the graph function.

E1: all straight-line SSA graph programs up to a size bound are built through
the real SynthDef, the emitted bytes are decoded by the independent SCgf-2
reader and every unit is evaluated to a polynomial normal form with the
*server's* operator table; the multiset of side-effecting units must equal the
one the reference interpreter derives from the AST."""

import traceback

from mc import core, graphprog as gp
from mc.engines import progenum
from mc.oracles import scgf, server_ops

MODE = 'nrt'
MODNAME = 'mc.checks.c01'

ALLOPS = ['neg', 'abs', 'add', 'sub', 'mul', 'div', 'min', 'lpf', 'madd',
          'sum3', 'sum4']
POOLS = {
    'full': dict(sig=['A', 'B', 'K', 'N', 'L', 'P', 'I'],
                 const=[0, 1, -1, 2, 0.5], tern=['A', 'K', 0, 1, -1, 2],
                 sum=['A', 'B', 'K', 0, 2], sum4=['A', 'K', 0, 2],
                 minb=['A', 'K', 2], ops=ALLOPS),
    'small': dict(sig=['A', 'K', 'N'], const=[0, 1, -1, 2],
                  tern=['A', 0, 1, -1], sum=['A', 'K', 0], sum4=['A', 0],
                  minb=['K', 2], ops=ALLOPS),
    'tiny': dict(sig=['A', 'K'], const=[0, -1], tern=['A', 0, -1],
                 sum=['A', 'K', 0], sum4=[], minb=[],
                 ops=['neg', 'add', 'sub', 'mul', 'div', 'madd', 'sum3']),
    'tinyN': dict(sig=['A', 'N'], const=[1, 2], tern=['N', 1],
                  sum=['A', 'N'], sum4=[], minb=[],
                  ops=['neg', 'add', 'sub', 'mul', 'madd', 'sum3', 'lpf']),
}
LOPS = list(gp.LANE_OPS)
POOLS['fullL'] = dict(POOLS['full'], ops=LOPS)
POOLS['smallL'] = dict(POOLS['small'], ops=LOPS)
# lane programs: every leaf is a channel list (one channel per lane), every
# statement multichannel-expands; lanes of different rates in one call
LANES = {
    'mix': [{}, {'A': 'K', 'K': 'A', 'B': 'L', 'L': 'B', 'P': 'I',
                 'I': 'P'}],
    'alt': [{}, {'A': 'B', 'B': 'A', 'K': 'L', 'L': 'K'}],
    'three': [{}, {'A': 'K', 'K': 'I', 'N': 'L'}, {'A': 'I', 'K': 'A'}],
}
SPACES = {
    # name: (pool per statement position, output options)
    's1': (['full'], ['last', 'twice', 'none']),
    's2': (['small', 'small'], ['last', 'each', 'list']),
    's3': (['tiny', 'tiny', 'tiny'], ['last', 'each']),
    's3N': (['tinyN', 'tinyN', 'tinyN'], ['last', 'list']),
    'l1': (['fullL'], ['last']),
    'l2': (['smallL', 'smallL'], ['last', 'each']),
}


def programs(space, shard, of, tagbase, slice_of=1, slice_ix=0, lanes=None):
    """All programs of a space whose prefix index falls in this shard (and,
    for a sliced space, in the selected slice)."""
    pools, outs = SPACES[space]
    n = len(pools)

    def rec(k, prefix):
        if k == n - 1:
            yield prefix
            return
        for st in gp.statements(k, POOLS[pools[k]]):
            yield from rec(k + 1, prefix + [st])

    idx = -1
    for prefix in rec(0, []):
        idx += 1
        if idx % of != shard:
            continue
        if slice_of > 1 and (idx // of) % slice_of != slice_ix:
            continue
        for st in gp.statements(n - 1, POOLS[pools[n - 1]]):
            for o in outs:
                p = {'stmts': prefix + [st], 'outs': o, 'tagbase': tagbase}
                if lanes:
                    p['lanes'] = LANES[lanes]
                yield p


def check_program(prog):
    """-> (disagreements, nontrivial, outcome, skipped)"""
    from sc3.base.main import main
    try:
        ref = gp.interpret(prog)
    except gp.IllFormed:
        return [], False, None, True
    try:
        data, _ = gp.build(prog)
    except Exception as e:
        main._current_synthdef = None
        tb = traceback.extract_tb(e.__traceback__)
        where = next((f.name for f in reversed(tb) if '/sc3/' in f.filename),
                     '?')
        kind = f'build-raises-{type(e).__name__}@{where}'
        return [(kind, 'a compiled definition', repr(e)[:300],
                 'well-formed program rejected')], ref['nontrivial'], kind, \
            False
    try:
        d = scgf.decode(data)['defs']
        if len(d) != 1:
            raise scgf.FormatError(f'{len(d)} definitions')
        d = d[0]
    except scgf.FormatError as e:
        return [('scgf-unparsable', 'SCgf v2', repr(e), '')], \
            ref['nontrivial'], 'unparsable', False
    dis = gp.compare(prog, ref, d)
    outcome = [[u['name'], u['rate'], u['special'], u['inputs']]
               for u in d['units']]
    return dis, ref['nontrivial'], outcome, False


def work(job):
    acc = progenum.Acc()
    for prog in programs(job['space'], job['shard'], job['of'],
                         job['tagbase'], job.get('slice_of', 1),
                         job.get('slice_ix', 0), job.get('lanes')):
        dis, nt, outcome, skipped = check_program(prog)
        if skipped:
            acc.count('skipped_ill_formed')
            continue
        for kind, exp, obs, detail in dis:
            acc.violation(kind, prog, exp, obs, detail,
                          size=len(prog['stmts']) * 10000 +
                          len(core.canon(prog)))
        acc.case(prog, nt, outcome, steps=len(prog['stmts']) + 1)
    return acc.result()


# ---- flat operator sweep --------------------------------------------------

def op_cases():
    cases = []
    for m, srv in sorted(server_ops.PY_UNARY.items()):
        for recv in ('A', 'K'):
            cases.append({'op': m, 'arity': 1, 'recv': recv,
                          'server': srv})
    for m, srv in sorted(server_ops.PY_BINARY.items()):
        for recv in ('A', 'K'):
            for other in ('B', 'K', 3, 0.5):
                cases.append({'op': m, 'arity': 2, 'recv': recv,
                              'other': other, 'server': srv,
                              'reflected': False})
    for m, srv in sorted(server_ops.PY_REFLECTED.items()):
        for recv in ('A', 'K'):
            for other in (3, 0.5):
                cases.append({'op': m, 'arity': 2, 'recv': recv,
                              'other': other, 'server': srv,
                              'reflected': True})
    return cases


def check_op(case):
    from sc3.base.main import main
    from sc3.synth.synthdef import SynthDef
    from sc3.synth.ugens import oscillators, inout

    def graph():
        env = {'A': oscillators.SinOsc.ar(101.0),
               'B': oscillators.SinOsc.ar(102.0),
               'K': oscillators.SinOsc.kr(103.0)}
        x = env[case['recv']]
        if case['arity'] == 1:
            r = getattr(x, case['op'])()
        else:
            o = case['other']
            o = env[o] if isinstance(o, str) else o
            r = getattr(x, case['op'])(o)
        inout.Out.kr(1, r)

    try:
        data = gp.sd_bytes(SynthDef('op', graph))
    except Exception as e:
        main._current_synthdef = None
        return [(f'operator-build-raises', 'a unit with the server opcode of '
                 + case['server'], repr(e)[:300], '')], None
    d = scgf.decode(data)['defs'][0]
    bad = scgf.validate(d)
    if bad:
        return [('scgf-integrity', [], bad[:3], '')], None
    cls = 'UnaryOpUGen' if case['arity'] == 1 else 'BinaryOpUGen'
    table = server_ops.UN if case['arity'] == 1 else server_ops.BIN
    want_special = table[case['server']]
    ops = [u for u in d['units'] if u['name'] in gp.ARITH]
    tagrate = {'A': 2, 'B': 2, 'K': 1}

    def src(inp):
        if inp[0] == 'c':
            return d['constants'][inp[1]]
        u = d['units'][inp[1]]
        t = u['inputs'][0]
        return {101.0: 'A', 102.0: 'B', 103.0: 'K'}.get(
            d['constants'][t[1]] if t[0] == 'c' else None, '?')

    if case['arity'] == 1:
        want_in = [case['recv']]
    elif case['reflected']:
        want_in = [float(case['other']), case['recv']]
    else:
        o = case['other']
        want_in = [case['recv'], o if isinstance(o, str) else float(o)]
    want_rate = max(tagrate.get(x, 0) for x in want_in
                    if isinstance(x, str))
    want = [[cls, want_special, want_rate, want_in]]
    got = [[u['name'], u['special'], u['rate'],
            [src(i) for i in u['inputs']]] for u in ops]
    dis = []
    if got != want:
        dis.append(('operator-opcode-or-wiring', want, got, case['op']))
    return dis, got


def work_ops(job):
    acc = progenum.Acc()
    cases = op_cases()
    for i, case in enumerate(cases):
        if i % job['of'] != job['shard']:
            continue
        dis, got = check_op(case)
        for kind, exp, obs, detail in dis:
            acc.violation(kind, {'opcase': case}, exp, obs, detail)
        acc.case({'opcase': case}, True, got)
    return acc.result()


def replay(job):
    case = job['case']
    if 'opcase' in case:
        dis, got = check_op(case['opcase'])
        observed = got
    else:
        dis, _, observed, _ = check_program(case)
    return {'violates': any(d[0] == job['kind'] for d in dis),
            'disagreements': [[d[0], repr(d[1])[:500], repr(d[2])[:500]]
                              for d in dis],
            'observed_units': observed}


def main(ctx):
    ctx.rule = (
        'E1: every straight-line SSA graph program over the leaf/constant/'
        'operator alphabet of mc/graphprog.py up to the statement bound, with '
        'every output option, is compiled by the real SynthDef; bytes are '
        'decoded by mc/oracles/scgf.py and compared (polynomial normal form, '
        'server opcode table) with the reference interpretation of the AST. '
        'Distinct = literally different program. Non-trivial = the AST has a '
        'neutral/absorbing constant operand, an operand shared inside a '
        'statement or between statements/outputs, a dead statement, or an '
        'add/sub over a value produced by add/mul/neg/sum (optimiser rewrite). '
        'Lane programs: the same statements (neg add sub mul div madd) over '
        'leaves that are channel lists, one channel per lane with lanes of '
        'different rates; meaning = the scalar program run once per lane.')
    ctx.assumptions += [
        'reference semantics: mc/graphprog.py interpret() + mc/oracles/poly.py'
        ' (ring identities of + - * neg, x/c=x*(1/c)); opcode numbering typed '
        'from the server source in mc/oracles/server_ops.py',
        'well-formedness rule of DESIGN.md C01: Out.ar only for values whose '
        'normal form contains an audio-rate atom; division by a zero signal '
        'and constant-only statements are not generated',
        'constants are float32-exact; atoms carry unique tag constants']
    tagbase = 100 + 32 * (ctx.seed % 4)
    NS = 128
    progenum.run(ctx, MODNAME, 'work_ops',
                 [{'shard': i, 'of': 16} for i in range(16)],
                 bound='operator sweep')
    progenum.run(ctx, MODNAME, 'work',
                 [{'space': 's1', 'shard': i, 'of': 16, 'tagbase': tagbase}
                  for i in range(16)], bound='1 statement, full pool')
    progenum.run(ctx, MODNAME, 'work',
                 [{'space': 's2', 'shard': i, 'of': NS, 'tagbase': tagbase}
                  for i in range(NS)], bound='2 statements, small pool')
    for ln in sorted(LANES):
        progenum.run(ctx, MODNAME, 'work',
                     [{'space': 'l1', 'shard': i, 'of': 16, 'lanes': ln,
                       'tagbase': tagbase} for i in range(16)],
                     bound=f'1 statement over channel lists (lanes {ln})')
    for ln in (['mix'] if ctx.tier == 'quick' else sorted(LANES)):
        progenum.run(ctx, MODNAME, 'work',
                     [{'space': 'l2', 'shard': i, 'of': NS, 'lanes': ln,
                       'tagbase': tagbase} for i in range(NS)],
                     bound=f'2 statements over channel lists (lanes {ln})')
    if ctx.tier == 'quick':
        k = 64
        for sp in ('s3', 's3N'):
            progenum.run(ctx, MODNAME, 'work',
                         [{'space': sp, 'shard': i, 'of': NS,
                           'tagbase': tagbase, 'slice_of': k,
                           'slice_ix': core.pick_slice(ctx.seed, k)}
                          for i in range(NS)],
                         bound=f'3 statements ({sp}), 1/{k} slice chosen by '
                               'seed (not exhaustive)')
        ctx.extra['exhaustive_bounds'] = ['operator sweep', '1 statement',
                                          '2 statements']
        ctx.extra['sampled_slice'] = '3 statements: 1/64 of the prefixes'
    else:
        for sp in ('s3', 's3N'):
            progenum.run(ctx, MODNAME, 'work',
                         [{'space': sp, 'shard': i, 'of': 512,
                           'tagbase': tagbase} for i in range(512)],
                         bound=f'3 statements ({sp})')
        ctx.extra['exhaustive_bounds'] = ['operator sweep', '1 statement',
                                          '2 statements',
                                          '3 statements (tiny pools)']
