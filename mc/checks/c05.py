"""C05 - logical time in routines is exact and independent of physical jitter.

RT half: E3 over programs of (nested) routines on the real clocks, every
schedule within the preemption/lateness bound.  NRT half: E1, the same
programs (plus AppClock) under NrtMain."""

from mc import core
from mc.engines import progenum

MODE = 'rt'
MODNAME = 'mc.checks.c05'

TEMPO = {'s': 1.0, 't1': 1.0, 't2': 2.0, 'th': 0.5, 'a': 1.0}
CLOCKSPEC = {'s': ['system'], 't1': ['tempo', 1.0], 't2': ['tempo', 2.0],
             'th': ['tempo', 0.5], 'a': ['app']}


def REPLAY_MODE(v):
    return v['case'].get('mode', 'rt')


def seqs(maxlen, alphabet=(0, 0.25, 0.5, 1.0)):
    out = [[]]
    layer = [[]]
    for _ in range(maxlen):
        layer = [s + [d] for s in layer for d in alphabet]
        out += layer
    return out


def make_prog(top, child=None, second=None, func=None):
    """top = (clock, seq); child = (pos, clock|None, seq); second = (clock,
    seq); func = (clock, delta)."""
    used = {top[0]}
    r0 = []
    for i, d in enumerate(top[1]):
        if child and child[0] == i:
            r0.append(['play', 'c0', child[1], 0])
        r0.append(['yield', d])
    if child and child[0] == len(top[1]):
        r0.append(['play', 'c0', child[1], 0])
    routines = {'r0': r0}
    main = [['play', 'r0', top[0], 0]]
    if child:
        routines['c0'] = [['yield', d] for d in child[2]]
        if child[1]:
            used.add(child[1])
    if second:
        routines['r1'] = [['yield', d] for d in second[1]]
        main.append(['play', 'r1', second[0], 0])
        used.add(second[0])
    funcs = {}
    if func:
        funcs['f0'] = {}
        main.append(['sched', func[0], func[1], 'f0'])
        used.add(func[0])
    clocks = {'s': ['system']}
    for c in sorted(used):
        clocks[c] = CLOCKSPEC[c]
    total = 0.0
    for rid, st in routines.items():
        total += sum(x[1] for x in st if x[0] == 'yield') * 2.0
    return {'clocks': clocks, 'routines': routines, 'funcs': funcs,
            'actors': {'main': main}, 'horizon': total + 4.0}


def programs(tier, mode):
    out = []
    if mode == 'rt':
        tops = ['s', 't2', 'th']
        L = 2 if tier == 'quick' else 3
    else:
        tops = ['s', 't1', 't2', 'th', 'a']
        L = 3
    childseqs = [[0.25], [0.5, 0.25]]
    for c in tops:
        for seq in seqs(L):
            out.append(make_prog((c, seq)))
            if len(seq) > (2 if mode == 'rt' else 3) - 0 and mode == 'rt' \
                    and tier == 'quick':
                continue
            for pos in range(len(seq) + 1):
                for cc in [None] + [x for x in tops if x != c][:2 if mode ==
                                                               'rt' else 4]:
                    for cs in childseqs[:1 if len(seq) > 1 else 2]:
                        out.append(make_prog((c, seq), child=(pos, cc, cs)))
    # a routine driving an inner routine with next(): the inner one must see
    # the caller's logical time at every resumption
    for c in tops:
        for d1 in (0.25, 0.5):
            for d2 in (0, 0.5):
                p = make_prog((c, [d1, d2]))
                p['routines']['r0'] = [['next', 'n0'], ['yield', d1],
                                       ['next', 'n0'], ['yield', d2],
                                       ['next', 'n0']]
                p['routines']['n0'] = [['yieldv', 'x'], ['yieldv', 'y'],
                                       ['yieldv', 'z']]
                out.append(p)
    # the parent's body takes physical time (load) before and after it starts
    # a child on another clock: the clock thread of the parent then resumes
    # the overdue parent several times in one batch before the child's clock
    # gets to run; the child must still start at the parent's logical time
    if mode == 'rt':
        for pc, cc in (('s', 't2'), ('s', 't1'), ('t2', 's'), ('t2', 't1')):
            for blk in (0.5, 1.0):
                for pos in (0, 1):
                    p = make_prog((pc, [0.25, 0.25, 0.25]),
                                  child=(pos, cc, [0.25]))
                    body = p['routines']['r0']
                    i = next(k for k, st in enumerate(body)
                             if st[0] == 'play')
                    body.insert(i, ['block', blk])
                    out.append(p)
    # a conductor routine changes the tempo of the clock a player routine is
    # pending on (the player has been awakened before): the player's beats go
    # on exactly, its seconds follow the new tempo
    for pc, t0 in (('t1', 1.0), ('t2', 2.0)):
        for cc in ('s', pc):
            for at, v in ((1.5, 2.0 * t0), (0.75, 0.5 * t0), (1.25, 4.0 * t0)):
                p = make_prog((pc, [1.0, 1.0, 1.0]))
                p['routines']['k0'] = [['yield', at], ['tempo', pc, v]]
                p['actors']['main'].append(['play', 'k0', cc, 0])
                if cc not in p['clocks']:
                    p['clocks'][cc] = CLOCKSPEC[cc]
                p['conductor'] = [pc, t0, cc, at, v]
                out.append(p)
    # the same with bystander routines of other clocks pending in between
    # (NRT: one global queue re-keys the player when the tempo changes; the
    # bystanders must still run in time order and at their own times)
    if mode == 'nrt':
        by = [('s', [0.5] * 6), ('a', [0.75] * 4), ('s', [1.25, 0.25, 1.0]),
              ('th', [0.25, 0.5, 0.25]), ('a', [2.0, 0.5])]
        import itertools
        for pc, t0 in (('t1', 1.0), ('t2', 2.0)):
            for cc in ('s', pc):
                for at, v in ((1.5, 2.0 * t0), (0.75, 0.5 * t0),
                              (1.25, 4.0 * t0), (0.5, 0.25 * t0),
                              (1.0, 0.125 * t0)):
                    for k in (2, 3, 4):
                        for sel in itertools.combinations(range(len(by)), k):
                            for first in (True, False):
                                p = make_prog((pc, [1.0, 1.0, 1.0]))
                                p['routines']['k0'] = [['yield', at],
                                                       ['tempo', pc, v]]
                                plays = [['play', 'k0', cc, 0]]
                                for j in sel:
                                    bc, ys = by[j]
                                    p['routines'][f'x{j}'] = \
                                        [['yield', y] for y in ys]
                                    plays.append(['play', f'x{j}', bc, 0])
                                    p['clocks'][bc] = CLOCKSPEC[bc]
                                if cc not in p['clocks']:
                                    p['clocks'][cc] = CLOCKSPEC[cc]
                                m = p['actors']['main']
                                p['actors']['main'] = (m + plays) if first \
                                    else (plays + m)
                                p['conductor'] = [pc, t0, cc, at, v]
                                p['horizon'] = 40.0
                                out.append(p)
    for c0 in tops:
        for c1 in tops:
            for s1 in ([0.25, 0.25, 0.5], [0.5, 0.5]):
                out.append(make_prog((c0, [0.5, 0.5]), second=(c1, s1),
                                     func=(c0, 0.5)))
    return out


# ---------------------------------------------------------------------------
# Reference: expected logical times of every resumption
# ---------------------------------------------------------------------------

def expected(prog):
    """{rid: [(seconds, beats), ...]} - the k-th entry is the logical time at
    the k-th resumption (k=0 is the start).  Exact dyadic arithmetic."""
    out = {}
    starts = {}     # rid -> (clock id, start seconds)
    for op in prog['actors']['main']:
        if op[0] == 'play':
            starts[op[1]] = (op[2], 0.0)
    if prog.get('conductor'):
        out = expected_conducted(prog)
        for rid in out:
            starts.pop(rid)     # bystanders are on clocks that do not change
        assert all(c != prog['conductor'][0] for c, _ in starts.values())
    order = list(starts)
    while order:
        rid = order.pop(0)
        cid, t = starts[rid]
        tempo = TEMPO[cid]
        res = [(t, t * tempo)]
        for st in prog['routines'][rid]:
            if st[0] == 'yield':
                t = t + st[1] / tempo
                res.append((t, t * tempo))
            elif st[0] == 'play':
                ccid = st[2] or cid
                starts[st[1]] = (ccid, t)
                order.append(st[1])
            elif st[0] == 'next':
                out.setdefault(st[1], []).append((t, None))
        out[rid] = res
    return out


def expected_conducted(prog):
    """Player r0 on a tempo clock, conductor k0 changing that clock's tempo
    at its own logical time `at` (in units of its own clock)."""
    pc, t0, cc, at, v = prog['conductor']
    # instant (seconds) of the change: the conductor yields `at` on its clock
    ts = at / (t0 if cc == pc else 1.0)
    base_s, base_b, tempo = 0.0, 0.0, t0

    def b2s(b):
        return (b - base_b) / tempo + base_s
    res = []
    changed = False
    b = 0.0
    beats = [0.0]
    for st in prog['routines']['r0']:
        if st[0] == 'yield':
            b += st[1]
            beats.append(b)
    for b in beats:
        if not changed and b2s(b) > ts:
            bb = (ts - base_s) * tempo + base_b
            base_s, base_b, tempo = ts, bb, v
            changed = True
        res.append((b2s(b), b))
    kt = [(0.0, 0.0), (ts, ts * (t0 if cc == pc else 1.0))]
    return {'r0': res, 'k0': kt}


def check_result(prog, res, mode):
    dis = []
    if res['status'] != 'ok':
        return [(res['status'], 'execution completes', res.get('detail'),
                 '')]
    exp = expected(prog)
    got = {}
    for e in res['trace']:
        if e[0] == 'res':
            got.setdefault(e[1], []).append((e[4], e[5], e[7]))
        elif e[0] == 'raises':
            dis.append(('api-call-raises', 'no exception', e[1:], ''))
    for rid, want in exp.items():
        have = got.get(rid, [])
        kind_c = {'c0': 'child', 'n0': 'inner'}.get(rid, 'top')
        if len(have) != len(want):
            dis.append((f'{mode}-resumption-count-{kind_c}', len(want),
                        len(have), f'{rid}: {have}'))
            continue
        # a tempo change made from another clock's thread can overtake a
        # *late* wake-up of the player (two threads, physical order): then
        # only the beats are decided by the statement, not the seconds
        beats_only = bool(prog.get('conductor')) and mode == 'rt' and \
            prog['conductor'][2] != prog['conductor'][0] and \
            res.get('late_total', 0) > 0
        for k, ((ws, wb), (hs, hb, _)) in enumerate(zip(want, have)):
            if hs != ws and not beats_only:
                dis.append((f'{mode}-logical-seconds-{kind_c}'
                            + ('-start' if k == 0 else ''), ws, hs,
                            f'{rid} resumption {k}'))
                break
            if wb is not None and hb != wb:
                dis.append((f'{mode}-logical-beats-{kind_c}'
                            + ('-start' if k == 0 else ''), wb, hb,
                            f'{rid} resumption {k}'))
                break
    if mode == 'rt':
        for name, exc in res['dead']:
            dis.append(('clock-thread-died', None, [name, exc], ''))
    else:
        # logical time never decreases from one executed task to the next
        prev = None
        for t in res.get('wakeups', []):
            if prev is not None and t < prev:
                dis.append(('nrt-logical-time-decreases', f'>= {prev}', t,
                            str(res['wakeups'])))
                break
            prev = t
        if res.get('wakeups'):
            last = max(res['wakeups'])
            if res['elapsed'] != last:
                dis.append(('nrt-elapsed-not-last-instant', last,
                            res['elapsed'], ''))
    return dis


# ---------------------------------------------------------------------------
# Workers
# ---------------------------------------------------------------------------

def work_rt(job):
    from mc import rtprog
    from mc.engines import schedx
    acc = progenum.Acc(max_samples=1)
    for prog in job['progs']:
        def run(prefix, prog=prog):
            return rtprog.run_rt(prog, prefix)

        def on_result(choices, points, res, prog=prog):
            pre, late = schedx.cost_of(points, choices)
            case = {'mode': 'rt', 'prog': prog, 'choices': list(choices)}
            for kind, exp, obs, detail in check_result(prog, res, 'rt'):
                acc.violation(kind, case, exp, obs, detail,
                              size=(pre + late) * 100000 + len(choices) * 100
                              + len(core.canon(prog)) // 10)
            obs = [[e[1], e[3], e[4]] for e in res['trace'] if e[0] == 'res']
            acc.case(case, (pre + late) > 0, obs, steps=res['steps'])
        r = schedx.explore(run, job['max_pre'], job['max_late'], on_result)
        acc.count('executions', r['executions'])
    return acc.result()


def run_nrt(prog):
    from mc import rtprog
    import sc3.base.clock as clk
    wake = []
    orig = clk.ClockTask._wakeup

    def _wakeup(self, time):
        wake.append(time)
        return orig(self, time)
    clk.ClockTask._wakeup = _wakeup
    try:
        res = rtprog.run_nrt(prog)
    finally:
        clk.ClockTask._wakeup = orig
    res['wakeups'] = wake
    return res


def work_nrt(job):
    acc = progenum.Acc(max_samples=2)
    for prog in job['progs']:
        res = run_nrt(prog)
        case = {'mode': 'nrt', 'prog': prog}
        for kind, exp, obs, detail in check_result(prog, res, 'nrt'):
            acc.violation(kind, case, exp, obs, detail)
        obs = [[e[1], e[4]] for e in res['trace'] if e[0] == 'res']
        nt = len(prog['routines']) > 1 or bool(prog['funcs'])
        acc.case(case, nt, obs, steps=len(res['trace']))
    return acc.result()


def replay(job):
    case = job['case']
    prog = case['prog']
    if case.get('mode') == 'nrt':
        res = run_nrt(prog)
        dis = check_result(prog, res, 'nrt')
    else:
        from mc import rtprog
        _, _, res = rtprog.run_rt(prog, case['choices'])
        dis = check_result(prog, res, 'rt')
    return {'violates': any(d[0] == job['kind'] for d in dis),
            'disagreements': [[d[0], repr(d[1])[:300], repr(d[2])[:300]]
                              for d in dis],
            'trace': res['trace']}


def chunks(lst, n):
    return [lst[i::n] for i in range(n) if lst[i::n]]


def main(ctx):
    ctx.rule = (
        'Programs: one routine on SystemClock/TempoClock(1|2|0.5)/AppClock '
        '(NRT) with every yield sequence up to length L over {0,0.25,0.5,1}, '
        'optionally spawning a child routine at every position on the same '
        'or another clock, plus two-routine programs with a colliding '
        'function task. RT: every schedule with <=P preemptions and <=L '
        'late timers; NRT: the deterministic run. Oracle: k-th resumption '
        'sees start + sum of the first k deltas (through the tempo) exactly; '
        'children start at the parent\'s logical time. Non-trivial (RT) = '
        'execution with >=1 deviation; (NRT) = program with nesting or a '
        'colliding task.')
    ctx.assumptions += [
        'TempoClock plays use quant 0 (default quantisation to the next '
        'whole beat is C12\'s subject)',
        'all times dyadic, tempos powers of two: expected values are exact',
        'RT AppClock is excluded (documented to drift)']
    rt = programs(ctx.tier, 'rt')
    nrt = programs(ctx.tier, 'nrt')
    bounds = [(2, 1)] if ctx.tier == 'quick' else [(3, 2)]
    for mp, ml in bounds:
        jobs = [{'progs': c, 'max_pre': mp, 'max_late': ml}
                for c in chunks(rt, 64)]
        progenum.run(ctx, MODNAME, 'work_rt', jobs, mode='rt',
                     bound=f'RT <= {mp} preemptions, <= {ml} late timers')
    jobs = [{'progs': c} for c in chunks(nrt, 32)]
    progenum.run(ctx, MODNAME, 'work_nrt', jobs, mode='nrt', bound='NRT')
    ctx.extra['rt_programs'] = len(rt)
    ctx.extra['nrt_programs'] = len(nrt)
