"""C05 - logical time in routines is exact and independent of physical jitter.

RT half: E3 over programs of (nested) routines on the real clocks, every
schedule within the preemption/lateness bound.  NRT half: E1, the same
programs (plus AppClock) under NrtMain.

Two generations of programs: programs() with the closed-form reference
expected() (also used by C07), and programs_ext() (audit round: other entry
points, raising siblings, re-based clocks, late starts, deeper nesting, own
tempo changes, other values and routine forms ...) with the reference
interpreter reference(); both references agree on every program of
programs()."""

from mc import core
from mc.engines import progenum

MODE = 'rt'
MODNAME = 'mc.checks.c05'

TEMPO = {'s': 1.0, 't1': 1.0, 't2': 2.0, 'th': 0.5, 'a': 1.0, 't3': 3.0}
CLOCKSPEC = {'s': ['system'], 't1': ['tempo', 1.0], 't2': ['tempo', 2.0],
             'th': ['tempo', 0.5], 'a': ['app'], 't3': ['tempo', 3.0]}
TOL = 1e-9      # relative tolerance of the non-dyadic family (p['tol'])


def REPLAY_MODE(v):
    return v['case'].get('mode', 'rt')


def seqs(maxlen, alphabet=(0, 0.25, 0.5, 1.0)):
    out = [[]]
    layer = [[]]
    for _ in range(maxlen):
        layer = [s + [d] for s in layer for d in alphabet]
        out += layer
    return out


def make_prog(top, child=None, second=None, func=None):
    """top = (clock, seq); child = (pos, clock|None, seq); second = (clock,
    seq); func = (clock, delta)."""
    used = {top[0]}
    r0 = []
    for i, d in enumerate(top[1]):
        if child and child[0] == i:
            r0.append(['play', 'c0', child[1], 0])
        r0.append(['yield', d])
    if child and child[0] == len(top[1]):
        r0.append(['play', 'c0', child[1], 0])
    routines = {'r0': r0}
    main = [['play', 'r0', top[0], 0]]
    if child:
        routines['c0'] = [['yield', d] for d in child[2]]
        if child[1]:
            used.add(child[1])
    if second:
        routines['r1'] = [['yield', d] for d in second[1]]
        main.append(['play', 'r1', second[0], 0])
        used.add(second[0])
    funcs = {}
    if func:
        funcs['f0'] = {}
        main.append(['sched', func[0], func[1], 'f0'])
        used.add(func[0])
    clocks = {'s': ['system']}
    for c in sorted(used):
        clocks[c] = CLOCKSPEC[c]
    total = 0.0
    for rid, st in routines.items():
        total += sum(x[1] for x in st if x[0] == 'yield') * 2.0
    return {'clocks': clocks, 'routines': routines, 'funcs': funcs,
            'actors': {'main': main}, 'horizon': total + 4.0}


def programs(tier, mode):
    out = []
    if mode == 'rt':
        tops = ['s', 't2', 'th']
        L = 2 if tier == 'quick' else 3
    else:
        tops = ['s', 't1', 't2', 'th', 'a']
        L = 3
    childseqs = [[0.25], [0.5, 0.25]]
    for c in tops:
        for seq in seqs(L):
            out.append(make_prog((c, seq)))
            if len(seq) > (2 if mode == 'rt' else 3) - 0 and mode == 'rt' \
                    and tier == 'quick':
                continue
            for pos in range(len(seq) + 1):
                for cc in [None] + [x for x in tops if x != c][:2 if mode ==
                                                               'rt' else 4]:
                    for cs in childseqs[:1 if len(seq) > 1 else 2]:
                        out.append(make_prog((c, seq), child=(pos, cc, cs)))
    # a routine driving an inner routine with next(): the inner one must see
    # the caller's logical time at every resumption
    for c in tops:
        for d1 in (0.25, 0.5):
            for d2 in (0, 0.5):
                p = make_prog((c, [d1, d2]))
                p['routines']['r0'] = [['next', 'n0'], ['yield', d1],
                                       ['next', 'n0'], ['yield', d2],
                                       ['next', 'n0']]
                p['routines']['n0'] = [['yieldv', 'x'], ['yieldv', 'y'],
                                       ['yieldv', 'z']]
                out.append(p)
    # the parent's body takes physical time (load) before and after it starts
    # a child on another clock: the clock thread of the parent then resumes
    # the overdue parent several times in one batch before the child's clock
    # gets to run; the child must still start at the parent's logical time
    if mode == 'rt':
        for pc, cc in (('s', 't2'), ('s', 't1'), ('t2', 's'), ('t2', 't1')):
            for blk in (0.5, 1.0):
                for pos in (0, 1):
                    p = make_prog((pc, [0.25, 0.25, 0.25]),
                                  child=(pos, cc, [0.25]))
                    body = p['routines']['r0']
                    i = next(k for k, st in enumerate(body)
                             if st[0] == 'play')
                    body.insert(i, ['block', blk])
                    out.append(p)
    # a conductor routine changes the tempo of the clock a player routine is
    # pending on (the player has been awakened before): the player's beats go
    # on exactly, its seconds follow the new tempo
    for pc, t0 in (('t1', 1.0), ('t2', 2.0)):
        for cc in ('s', pc):
            for at, v in ((1.5, 2.0 * t0), (0.75, 0.5 * t0), (1.25, 4.0 * t0)):
                p = make_prog((pc, [1.0, 1.0, 1.0]))
                p['routines']['k0'] = [['yield', at], ['tempo', pc, v]]
                p['actors']['main'].append(['play', 'k0', cc, 0])
                if cc not in p['clocks']:
                    p['clocks'][cc] = CLOCKSPEC[cc]
                p['conductor'] = [pc, t0, cc, at, v]
                out.append(p)
    # the same with bystander routines of other clocks pending in between
    # (NRT: one global queue re-keys the player when the tempo changes; the
    # bystanders must still run in time order and at their own times)
    if mode == 'nrt':
        by = [('s', [0.5] * 6), ('a', [0.75] * 4), ('s', [1.25, 0.25, 1.0]),
              ('th', [0.25, 0.5, 0.25]), ('a', [2.0, 0.5])]
        import itertools
        for pc, t0 in (('t1', 1.0), ('t2', 2.0)):
            for cc in ('s', pc):
                for at, v in ((1.5, 2.0 * t0), (0.75, 0.5 * t0),
                              (1.25, 4.0 * t0), (0.5, 0.25 * t0),
                              (1.0, 0.125 * t0)):
                    for k in (2, 3, 4):
                        for sel in itertools.combinations(range(len(by)), k):
                            for first in (True, False):
                                p = make_prog((pc, [1.0, 1.0, 1.0]))
                                p['routines']['k0'] = [['yield', at],
                                                       ['tempo', pc, v]]
                                plays = [['play', 'k0', cc, 0]]
                                for j in sel:
                                    bc, ys = by[j]
                                    p['routines'][f'x{j}'] = \
                                        [['yield', y] for y in ys]
                                    plays.append(['play', f'x{j}', bc, 0])
                                    p['clocks'][bc] = CLOCKSPEC[bc]
                                if cc not in p['clocks']:
                                    p['clocks'][cc] = CLOCKSPEC[cc]
                                m = p['actors']['main']
                                p['actors']['main'] = (m + plays) if first \
                                    else (plays + m)
                                p['conductor'] = [pc, t0, cc, at, v]
                                p['horizon'] = 40.0
                                out.append(p)
    for c0 in tops:
        for c1 in tops:
            for s1 in ([0.25, 0.25, 0.5], [0.5, 0.5]):
                out.append(make_prog((c0, [0.5, 0.5]), second=(c1, s1),
                                     func=(c0, 0.5)))
    return out


# ---------------------------------------------------------------------------
# Reference: expected logical times of every resumption
# ---------------------------------------------------------------------------

def expected(prog):
    """{rid: [(seconds, beats), ...]} - the k-th entry is the logical time at
    the k-th resumption (k=0 is the start).  Exact dyadic arithmetic."""
    out = {}
    starts = {}     # rid -> (clock id, start seconds)
    for op in prog['actors']['main']:
        if op[0] == 'play':
            starts[op[1]] = (op[2], 0.0)
    if prog.get('conductor'):
        out = expected_conducted(prog)
        for rid in out:
            starts.pop(rid)     # bystanders are on clocks that do not change
        assert all(c != prog['conductor'][0] for c, _ in starts.values())
    order = list(starts)
    while order:
        rid = order.pop(0)
        cid, t = starts[rid]
        tempo = TEMPO[cid]
        res = [(t, t * tempo)]
        for st in prog['routines'][rid]:
            if st[0] == 'yield':
                t = t + st[1] / tempo
                res.append((t, t * tempo))
            elif st[0] == 'play':
                ccid = st[2] or cid
                starts[st[1]] = (ccid, t)
                order.append(st[1])
            elif st[0] == 'next':
                out.setdefault(st[1], []).append((t, None))
        out[rid] = res
    return out


def expected_conducted(prog):
    """Player r0 on a tempo clock, conductor k0 changing that clock's tempo
    at its own logical time `at` (in units of its own clock)."""
    pc, t0, cc, at, v = prog['conductor']
    # instant (seconds) of the change: the conductor yields `at` on its clock
    ts = at / (t0 if cc == pc else 1.0)
    base_s, base_b, tempo = 0.0, 0.0, t0

    def b2s(b):
        return (b - base_b) / tempo + base_s
    res = []
    changed = False
    b = 0.0
    beats = [0.0]
    for st in prog['routines']['r0']:
        if st[0] == 'yield':
            b += st[1]
            beats.append(b)
    for b in beats:
        if not changed and b2s(b) > ts:
            bb = (ts - base_s) * tempo + base_b
            base_s, base_b, tempo = ts, bb, v
            changed = True
        res.append((b2s(b), b))
    kt = [(0.0, 0.0), (ts, ts * (t0 if cc == pc else 1.0))]
    return {'r0': res, 'k0': kt}


# ---------------------------------------------------------------------------
# Reference interpreter (audit round): a discrete-event reading of a program
# written from the property statement only.  It knows clocks as affine maps
# beats <-> seconds, routines as statement lists and the rules
#   * a task woken at beat b that yields d is due at beat b + d of its clock;
#   * a routine started (play / clock.play / sched / sched_abs) from a
#     routine begins at the starter's logical time (sched: + delta in the
#     target clock's units; sched_abs: at the given beat);
#   * an inner routine stepped with next() sees the caller's logical time;
#   * a tempo change keeps the beat of the instant and of every pending task.
# Same-instant events never interact in the generated programs, so their
# order is a don't-care.
# ---------------------------------------------------------------------------

def _kind_of(rid):
    return {'c': 'child', 'n': 'inner'}.get(rid[0], 'top')


def reference(prog, mode='nrt', p_sleep=None):
    """-> dict(res={rid: [(secs, beats|None)]}, logs=[(who, secs)],
    xtempo=set of clocks whose tempo a routine of another clock changed,
    last=latest instant).  `p_sleep`: physical instant main is at after its
    k-th sleep (RT; default nominal)."""
    clocks = {}
    for cid, spec in prog['clocks'].items():
        clocks[cid] = [spec[1] if spec[0] == 'tempo' else 1.0, 0.0, 0.0]

    def b2s(cid, b):
        c = clocks[cid]
        return (b - c[2]) / c[0] + c[1]

    def s2b(cid, s):
        c = clocks[cid]
        return (s - c[1]) * c[0] + c[2]

    routines = prog['routines']
    funcs = prog.get('funcs', {})
    res = {rid: [] for rid in routines}
    logs = []
    tbeats = []
    xtempo = set()
    pend = []
    seq = [0]
    pc = {rid: 0 for rid in routines}
    dead = set()
    calls = {}
    clock_of = {}

    def add(name, cid, beat):
        pend.append([name, cid, beat, seq[0]])
        seq[0] += 1
        clock_of[name] = cid

    def set_tempo(cid, v, t):
        b = s2b(cid, t)
        clocks[cid] = [v, b2s(cid, b), b]

    def start(op, t, own):
        """play/cplay/sched/sched_abs issued at logical time t."""
        if op[0] in ('play', 'cplay', 'rrun', 'drun'):
            cid = op[2] or own
            add(op[1], cid, s2b(cid, t))
        elif op[0] == 'sched':
            add(op[3], op[1], s2b(op[1], t) + op[2])
        elif op[0] == 'sched_abs':
            add(op[3], op[1], op[2])

    def step(rid, t, beats, own, thread):
        """Run routine rid from its pc to its next yield at logical time t.
        -> delta | None"""
        res[rid].append((t, beats))
        body = routines[rid]
        while pc[rid] < len(body):
            st = body[pc[rid]]
            pc[rid] += 1
            op = st[0]
            if op == 'yield':
                return st[1]
            if op == 'yieldv':
                return None
            if op == 'raise':
                dead.add(rid)
                return None
            if op in ('play', 'cplay', 'sched', 'sched_abs', 'rrun', 'drun'):
                start(st, t, own)
            elif op == 'tbeats':
                tbeats.append((rid, s2b(own, t)))
            elif op == 'yreset':
                n = calls.get(('yreset', rid), 0) + 1
                calls[('yreset', rid)] = n
                if n < st[2]:
                    pc[rid] = 0
                    return st[1]
            elif op in ('tempo', 'etempo'):
                # (etempo acts at the physical instant: used in NRT only,
                # where that is the logical time of the running task)
                if st[1] != thread:
                    xtempo.add(st[1])
                set_tempo(st[1], st[2], t)
            elif op == 'reset':
                pc[st[1]] = 0
                dead.discard(st[1])
            elif op == 'next':
                if st[1] not in dead:
                    step(st[1], t, None, 's', thread)
            elif op == 'log':
                logs.append((rid, t))
            elif op == 'block':
                pass
            else:
                raise ValueError(f'reference: unknown statement {st}')
        dead.add(rid)
        return None

    mt = 0.0
    nsleep = 0
    for op in prog['actors']['main']:
        if op[0] == 'sleep':
            if mode == 'rt':
                mt = mt + op[1]
                if p_sleep is not None and nsleep < len(p_sleep):
                    mt = p_sleep[nsleep]
            nsleep += 1
        elif op[0] == 'tempo':
            set_tempo(op[1], op[2], mt)
        elif op[0] == 'beats':
            clocks[op[1]] = [clocks[op[1]][0], mt, op[2]]
        else:
            start(op, mt, 's')
    last = None
    guard = 0
    while pend:
        guard += 1
        if guard > 10000:
            raise ValueError('reference: program does not end')
        pend.sort(key=lambda e: (b2s(e[1], e[2]), e[3]))
        name, cid, beat, _ = pend.pop(0)
        t = b2s(cid, beat)
        last = t if last is None else max(last, t)
        if name in routines:
            if name in dead:
                continue
            d = step(name, t, s2b(cid, t), cid, cid)
        else:
            k = calls.get(name, 0)
            calls[name] = k + 1
            spec = funcs[name]
            if k in spec.get('raises', []):
                d = None
            else:
                rets = spec.get('returns', [None])
                d = rets[k] if k < len(rets) else None
        if isinstance(d, (int, float)) and not isinstance(d, bool):
            add(name, cid, beat + d)
    return {'res': res, 'logs': logs, 'xtempo': xtempo, 'last': last,
            'clock_of': clock_of, 'tbeats': tbeats}


def _close(a, b, tol):
    if tol:
        return abs(a - b) <= tol * (1.0 + abs(a) + abs(b))
    return a == b


# ---------------------------------------------------------------------------
# Extended program families (audit round).  Every program carries p['x'] =
# family name; ops 'cplay' (clock.play(routine, quant)) and 'sched_abs' with
# a routine are interpreted by the Run subclass below.
# ---------------------------------------------------------------------------

def xprog(routines, main, funcs=None, x='', **kw):
    used = set()
    for op in main:
        if op[0] in ('play', 'cplay', 'rrun', 'drun') and op[2]:
            used.add(op[2])
        elif op[0] in ('sched', 'sched_abs', 'tempo', 'beats'):
            used.add(op[1])
    for body in routines.values():
        for st in body:
            if st[0] in ('play', 'cplay', 'rrun', 'drun') and st[2]:
                used.add(st[2])
            elif st[0] in ('sched', 'sched_abs', 'tempo', 'etempo'):
                used.add(st[1])
    clocks = {'s': ['system']}
    for c in sorted(used):
        clocks[c] = CLOCKSPEC[c]
    p = {'clocks': clocks, 'routines': routines, 'funcs': funcs or {},
         'actors': {'main': main}, 'x': x}
    p.update(kw)
    last = reference(p, 'rt')['last'] or 0.0
    p['horizon'] = last + 4.0
    return p


def ys(seq):
    return [['yield', d] for d in seq]


def programs_ext(tier, mode):
    """-> list of (bound class, program); bound class 'a' = the tier's main
    bound, 'b' = one step smaller (long / crowded programs)."""
    out = []
    rt = mode == 'rt'
    tops = ['s', 't2', 'th'] if rt else ['s', 't1', 't2', 'th', 'a']
    tempos = [c for c in tops if c[0] == 't']

    def others(c, n=None):
        return [x for x in tops if x != c][:n or (2 if rt else 4)]

    # -- F1 other entry points: clock.sched(d, routine), clock.play(routine,
    # quant 0), clock.sched_abs(t, routine), from main and from a routine
    for c in tops:
        for d in (0, 0.5, 1):
            out.append(('a', xprog({'r0': ys([0.25, 0.5])},
                                   [['sched', c, d, 'r0']], x='entry-main')))
        out.append(('a', xprog({'r0': ys([0.25, 0.5])},
                               [['cplay', 'r0', c, 0]], x='entry-main')))
        if c != 'a':
            for T in (0, 0.5, 2):
                out.append(('a', xprog({'r0': ys([0.25, 0.5])},
                                       [['sched_abs', c, T, 'r0']],
                                       x='entry-main')))
        for cc in [c] + others(c):
            for d in (0, 0.25, 1):
                out.append(('a', xprog(
                    {'r0': [['yield', 0.25], ['sched', cc, d, 'c0'],
                            ['yield', 0.25]], 'c0': ys([0.5])},
                    [['play', 'r0', c, 0]], x='entry-inside')))
            out.append(('a', xprog(
                {'r0': [['yield', 0.25], ['cplay', 'c0', cc, 0],
                        ['yield', 0.25]], 'c0': ys([0.5])},
                [['play', 'r0', c, 0]], x='entry-inside')))
            if cc != 'a':
                out.append(('a', xprog(
                    {'r0': [['yield', 0.25], ['sched_abs', cc, 1.0, 'c0'],
                            ['yield', 0.25]], 'c0': ys([0.5])},
                    [['play', 'r0', c, 0]], x='entry-inside')))
    for c in tops:
        for op in ('rrun', 'drun'):
            out.append(('a', xprog({'r0': ys([0.25, 0.5])},
                                   [[op, 'r0', c]], x='entry-main')))
            for cc in (None, others(c)[0]):
                out.append(('a', xprog(
                    {'r0': [['yield', 0.25], [op, 'c0', cc],
                            ['yield', 0.25]], 'c0': ys([0.5])},
                    [['play', 'r0', c, 0]], x='entry-inside')))
    # routine functions of other forms: generator without argument, plain
    # function (runs once; starts children), YieldAndReset(delta) loops
    for c in tops:
        cc = others(c)[0]
        out.append(('a', xprog(
            {'r0': [['yield', 0.25], ['play', 'c0', cc, 0], ['yield', 0.5]],
             'c0': ys([0.25, 0.25])}, [['play', 'r0', c, 0]],
            x='forms', forms={'r0': 'noinval', 'c0': 'noinval'})))
        out.append(('a', xprog(
            {'r0': [['yield', 0.25], ['play', 'c0', cc, 0], ['yield', 0.5]],
             'c0': [['play', 'c1', c, 0], ['sched', cc, 0.5, 'c2']],
             'c1': ys([0.25]), 'c2': ys([0.25])}, [['play', 'r0', c, 0]],
            x='forms', forms={'c0': 'func'})))
        out.append(('a', xprog(
            {'r0': [['play', 'c0', cc, 0], ['sched', c, 0.5, 'c1']],
             'c0': ys([0.25]), 'c1': ys([0.25])}, [['sched', c, 0.5, 'r0']],
            x='forms', forms={'r0': 'func'})))
        for d in (0.5, 0):
            out.append(('a', xprog(
                {'r0': [['tbeats'], ['yield', 0.25], ['yreset', d, 3]],
                 'r1': [['yield', 0.5], ['play', 'c0', cc, 0],
                        ['play', 'c1', None, 0], ['yreset', 0.25, 2]],
                 'c0': ys([0.25]), 'c1': []},
                [['play', 'r0', c, 0], ['play', 'r1', c, 0]], x='forms')))
    # the running thread's own beats (main.current_tt._beats, what the time
    # patterns read) agree with the clock it plays on
    for c in tops:
        for cc in [None] + others(c):
            out.append(('a', xprog(
                {'r0': [['tbeats'], ['yield', 0.25], ['tbeats'],
                        ['play', 'c0', cc, 0], ['yield', 0.5], ['tbeats']],
                 'c0': [['tbeats'], ['yield', 0.25], ['tbeats']]},
                [['play', 'r0', c, 0]], x='threadbeats')))
    # -- F2 other tasks that raise or re-schedule themselves, in the same
    # batch / on another clock
    F = {'fr': {'raises': [0]}, 'fk': {'returns': [0.25, 0.25, None]},
         'fq': {'returns': [0.25, None], 'raises': [1]}}
    for c in tops:
        for oc in [c] + others(c, 1):
            for fid in sorted(F):
                for first in (True, False):
                    pl = [['play', 'r0', c, 0]]
                    sc = [['sched', oc, 0.25, fid]]
                    out.append(('a', xprog(
                        {'r0': ys([0.25, 0.25, 0.25])},
                        (sc + pl) if first else (pl + sc),
                        funcs={fid: F[fid]}, x='errors')))
            for first in (True, False):
                pl = [['play', 'r0', c, 0]]
                pe = [['play', 'e0', oc, 0]]
                out.append(('a', xprog(
                    {'r0': ys([0.25, 0.25, 0.25]),
                     'e0': [['yield', 0.25], ['raise']]},
                    (pe + pl) if first else (pl + pe), x='errors')))
        # the routine's own child raises at its start
        out.append(('a', xprog(
            {'r0': [['yield', 0.25], ['play', 'c0', None, 0],
                    ['yield', 0.25], ['yield', 0.25]],
             'c0': [['raise']]}, [['play', 'r0', c, 0]], x='errors')))
    # -- F3 tempo clocks whose beats / tempo were set before the routine
    # starts (non-zero base beats, tempo other than the initial one)
    for c in tempos:
        t0 = TEMPO[c]
        for B in (None, 3.0, -1.5):
            for v in (None, 4.0 * t0, 0.25 * t0):
                if B is None and v is None:
                    continue
                for order in (0, 1):
                    conf = []
                    if B is not None:
                        conf.append(['beats', c, B])
                    if v is not None:
                        conf.append(['tempo', c, v])
                    if order:
                        if len(conf) < 2:
                            continue
                        conf.reverse()
                    out.append(('a', xprog(
                        {'r0': [['yield', 0.5], ['play', 'c0', 's', 0],
                                ['yield', 0.25], ['yield', 1]],
                         'c0': ys([0.25])},
                        conf + [['play', 'r0', c, 0]], x='preconf')))
                    out.append(('a', xprog(
                        {'r0': [['yield', 0.25], ['play', 'c0', c, 0],
                                ['sched', c, 0.5, 'c1'], ['yield', 0.5]],
                         'c0': ys([0.5]), 'c1': ys([0.25])},
                        conf + [['play', 'r0', 's', 0]], x='preconf')))
    # -- F4 (RT) top-level routines started at a later physical instant:
    # main sleeps first; a SystemClock timer is due at the very instant main
    # wakes up, so main's own wake-up is subject to lateness
    if rt:
        for c in tops:
            for conf in ([], [['beats', c, 3.0]] if c[0] == 't' else None):
                if conf is None:
                    continue
                out.append(('b', xprog(
                    {'x0': ys([0.5]),
                     'r0': [['yield', 0.25], ['play', 'c0', others(c)[0], 0],
                            ['yield', 0.5]], 'c0': ys([0.25]),
                     'r1': ys([0.5])},
                    conf + [['play', 'x0', 's', 0], ['sleep', 0.5],
                            ['play', 'r0', c, 0], ['sched', c, 0.25, 'r1']],
                    x='latestart')))
    # -- F5 deeper nesting
    for c in tops:
        for c1 in [c] + others(c):
            for c2 in (None, c, 's'):
                out.append(('a', xprog(
                    {'r0': [['yield', 0.25], ['play', 'c0', c1, 0],
                            ['yield', 0.25]],
                     'c0': [['yield', 0.25], ['play', 'c9', c2, 0],
                            ['yield', 0.25]],
                     'c9': ys([0.5])}, [['play', 'r0', c, 0]], x='nest')))
            for c2 in [c] + others(c):
                out.append(('a', xprog(
                    {'r0': [['play', 'c0', c1, 0], ['yield', 0.25],
                            ['play', 'c1', c2, 0], ['yield', 0.5]],
                     'c0': ys([0.5, 0.25]), 'c1': ys([0.25])},
                    [['play', 'r0', c, 0]], x='nest')))
            out.append(('a', xprog(
                {'r0': [['next', 'n0'], ['yield', 0.5], ['next', 'n0'],
                        ['yield', 0.25], ['next', 'n0']],
                 'n0': [['yieldv', 'x'], ['play', 'c0', c1, 0],
                        ['yieldv', 'y'], ['yieldv', 'z']],
                 'c0': ys([0.25])}, [['play', 'r0', c, 0]], x='nest')))
        out.append(('a', xprog(
            {'r0': [['next', 'n0'], ['yield', 0.25], ['next', 'n0'],
                    ['yield', 0.5], ['next', 'n0']],
             'n0': [['next', 'n1'], ['yieldv', 'x'], ['next', 'n1'],
                    ['yieldv', 'y'], ['next', 'n1'], ['yieldv', 'z']],
             'n1': [['yieldv', 'p'], ['yieldv', 'q'], ['yieldv', 'r']]},
            [['play', 'r0', c, 0]], x='nest')))
    # a finished child is reset and played again later: the second run
    # starts at the parent's logical time of that moment
    for c in tops:
        for c1 in [c] + others(c, 1):
            out.append(('a', xprog(
                {'r0': [['play', 'c0', c1, 0], ['yield', 2],
                        ['reset', 'c0'], ['play', 'c0', c1, 0],
                        ['yield', 0.5]],
                 'c0': ys([0.125])}, [['play', 'r0', c, 0]], x='replay')))
    # -- F6 a routine changes the tempo of the clock it plays on (once or
    # twice); another routine of that clock and one of SystemClock are
    # pending meanwhile.  And conductors acting at the very beat the player
    # is due.
    for c in tempos:
        t0 = TEMPO[c]
        for v in (2.0 * t0, 0.5 * t0, 4.0 * t0):
            for v2 in (None, t0):
                body = [['yield', 0.5], ['tempo', c, v], ['yield', 0.5],
                        ['yield', 0.25]]
                if v2:
                    body += [['tempo', c, v2], ['yield', 0.5]]
                out.append(('b', xprog(
                    {'r0': body, 'r1': ys([1.0, 1.0]),
                     'r2': ys([0.5, 0.5, 0.5])},
                    [['play', 'r0', c, 0], ['play', 'r1', c, 0],
                     ['play', 'r2', 's', 0]], x='selftempo')))
        for cc in ('s', c):
            at = 1.0 if cc == c else 1.0 / t0
            for v in (2.0 * t0, 0.5 * t0):
                out.append(('a', xprog(
                    {'r0': ys([1.0, 1.0, 1.0]),
                     'k0': [['yield', at], ['tempo', c, v]]},
                    [['play', 'r0', c, 0], ['play', 'k0', cc, 0]],
                    x='tie-conductor')))
            if not rt:
                # etempo (tempo set at the physical instant = in NRT the
                # logical instant of the running task), tie and no tie
                for at2 in (at, 1.5 * at):
                    for v in (2.0 * t0, 0.5 * t0):
                        out.append(('a', xprog(
                            {'r0': ys([1.0, 1.0, 1.0]),
                             'k0': [['yield', at2], ['etempo', c, v]],
                             'r2': ys([0.75, 0.75, 0.75])},
                            [['play', 'r0', c, 0], ['play', 'k0', cc, 0],
                             ['play', 'r2', 's', 0]], x='etempo')))
        if not rt:
            for v in (2.0 * t0, 0.5 * t0):
                out.append(('a', xprog(
                    {'r0': [['yield', 0.5], ['etempo', c, v],
                            ['yield', 0.5], ['yield', 0.25]],
                     'r1': ys([1.0, 1.0])},
                    [['play', 'r0', c, 0], ['play', 'r1', c, 0]],
                    x='etempo')))
    # -- F7 values: int deltas; non-dyadic deltas and tempo 3 (compared with
    # a relative tolerance of TOL)
    for c in tops:
        for seq in ([1], [1, 0.5], [2, 1], [1, 0, 1]):
            out.append(('a', xprog({'r0': ys(seq)}, [['play', 'r0', c, 0]],
                                   x='int-delta')))
            out.append(('a', xprog(
                {'r0': [['yield', seq[0]], ['play', 'c0', others(c)[0], 0]]
                 + ys(seq[1:]), 'c0': ys([1, 0.5])},
                [['play', 'r0', c, 0]], x='int-delta')))
    # (NRT only: under virtual time a timer that is due at a non-dyadic
    # instant is never seen as due by the 1024 s based physical clock)
    for c in ([] if rt else ['s', 't3', 't2', 'a']):
        for cc in ('t3', 's'):
            out.append(('a', xprog(
                {'r0': [['yield', 0.1], ['yield', 0.3],
                        ['play', 'c0', cc, 0], ['yield', 0.1],
                        ['yield', 0.7]], 'c0': ys([0.3, 0.1])},
                [['play', 'r0', c, 0]], x='nondyadic', tol=TOL)))
    for c in tops:
        out.append(('a', xprog(
            {'r0': [['yield', 0.375], ['play', 'c0', others(c)[0], 0],
                    ['yield', 0.0625], ['yield', 1.5]],
             'c0': ys([0.0625, 0.375])},
            [['play', 'r0', c, 0]], x='fine-dyadic')))
    # -- F8 long sequences
    for c in tops:
        out.append(('b', xprog(
            {'r0': ys([0.25] * 4) + [['play', 'c0', others(c)[0], 0]]
             + ys([0.25] * 4), 'c0': ys([0.25] * 3)},
            [['play', 'r0', c, 0]], x='long')))
        out.append(('b', xprog({'r0': ys([0.5, 0.25] * 3)},
                               [['play', 'r0', c, 0]], x='long')))
    # -- F9 logical time stands still inside one resumption while physical
    # time passes
    for c in tops:
        out.append(('a', xprog(
            {'r0': [['log'], ['yield', 0.25], ['block', 0.5], ['log'],
                    ['play', 'c0', others(c)[0], 0], ['block', 0.5],
                    ['log'], ['yield', 0.25], ['log']],
             'c0': [['log'], ['yield', 0.25], ['log']]},
            [['play', 'r0', c, 0]], x='blocklog')))
    # -- F9b (RT) another thread reads logical time (which sets the main
    # time thread to physical time) between the routines' wake-ups
    if rt:
        for c in tops:
            p = xprog(
                {'r0': [['yield', 0.25], ['play', 'c0', others(c)[0], 0],
                        ['yield', 0.25], ['yield', 0.25]],
                 'c0': ys([0.25, 0.25])}, [['play', 'r0', c, 0]],
                x='poller')
            p['actors']['X'] = [['sleep', 0.125], ['log'], ['sleep', 0.25],
                                ['log'], ['sleep', 0.25], ['log']]
            out.append(('b', p))
    # -- F10 many tasks of one clock due at the same instants
    for c in tops:
        out.append(('b', xprog(
            {'r0': ys([0.25, 0.25]), 'r1': ys([0.5]),
             'r2': ys([0.25, 0.5]), 'r3': ys([0, 0.25])},
            [['play', 'r0', c, 0], ['play', 'r1', c, 0],
             ['sched', c, 0.25, 'fk'], ['play', 'r2', c, 0],
             ['play', 'r3', c, 0]],
            funcs={'fk': {'returns': [0.25, None]}}, x='crowd')))
    return out


def check_result_x(prog, res, mode):
    """Oracle of the extended families: compares with reference()."""
    dis = []
    if res['status'] != 'ok':
        return [(res['status'], 'execution completes', res.get('detail'),
                 '')]
    got = {}
    glogs = {}
    gtb = {}
    for e in res['trace']:
        if e[0] == 'res':
            got.setdefault(e[1], []).append((e[4], e[5]))
        elif e[0] == 'log':
            glogs.setdefault(e[1], []).append(e[3])
        elif e[0] == 'tbeats':
            gtb.setdefault(e[1], []).append(e[3])
        elif e[0] == 'raises':
            dis.append(('api-call-raises', 'no exception', e[1:], ''))
    late = res.get('late_total', 0) > 0 if mode == 'rt' else False
    main = prog['actors']['main']
    p_sleep = None
    if mode == 'rt' and late and any(op[0] == 'sleep' for op in main):
        # main woke up late: the physical instant it is at is not decided by
        # the program; it is read off the routine played right after the
        # sleep (whose start is therefore not compared), everything else
        # must be consistent with it
        p_sleep = []
        nominal = 0.0
        for i, op in enumerate(main):
            if op[0] == 'sleep':
                nominal += op[1]
                h = got.get(main[i + 1][1])
                p_sleep.append(h[0][0] if h else nominal)
    ref = reference(prog, mode, p_sleep)
    tol = prog.get('tol')
    forms = prog.get('forms', {})
    for rid, want in ref['res'].items():
        have = got.get(rid, [])
        kc = _kind_of(rid)
        if len(have) != len(want):
            dis.append((f'{mode}-resumption-count-{kc}', len(want),
                        len(have), f'{rid}: {have}'))
            continue
        # a tempo change made from another clock's thread can overtake a
        # *late* wake-up of a routine of that clock: then only its beats are
        # decided by the statement
        beats_only = late and ref['clock_of'].get(rid) in ref['xtempo']
        for k, ((ws, wb), (hs, hb)) in enumerate(zip(want, have)):
            if not beats_only and not _close(hs, ws, tol):
                dis.append((f'{mode}-logical-seconds-{kc}'
                            + ('-start' if k == 0 else ''), ws, hs,
                            f'{rid} resumption {k}'))
                break
            if hb is None and forms.get(rid) == 'noinval':
                # the routine function takes no (routine, clock) argument:
                # no clock to ask for beats until the first yield returns
                continue
            if wb is not None and (hb is None or not _close(hb, wb, tol)):
                dis.append((f'{mode}-logical-beats-{kc}'
                            + ('-start' if k == 0 else ''), wb, hb,
                            f'{rid} resumption {k}'))
                break
    wl = {}
    for who, t in ref['logs']:
        wl.setdefault(who, []).append(t)
    for who, want in wl.items():
        have = glogs.get(who, [])
        if len(have) != len(want) or not all(
                _close(h, w, tol) for h, w in zip(have, want)):
            dis.append((f'{mode}-logical-time-moves-inside-resumption',
                        want, have, who))
    wt = {}
    for who, b in ref['tbeats']:
        wt.setdefault(who, []).append(b)
    for who, want in wt.items():
        have = gtb.get(who, [])
        if len(have) != len(want) or not all(
                _close(h, w, tol) for h, w in zip(have, want)):
            dis.append((f'{mode}-thread-beats', want, have, who))
    if mode == 'rt':
        for name, exc in res['dead']:
            dis.append(('clock-thread-died', None, [name, exc], ''))
    else:
        prev = None
        for t in res.get('wakeups', []):
            if prev is not None and t < prev:
                dis.append(('nrt-logical-time-decreases', f'>= {prev}', t,
                            str(res['wakeups'])))
                break
            prev = t
        if ref['last'] is not None and \
                not _close(res['elapsed'], ref['last'], tol):
            dis.append(('nrt-elapsed-not-last-instant', ref['last'],
                        res['elapsed'], ''))
        if res.get('wakeups'):
            last = max(res['wakeups'])
            if res['elapsed'] != last:
                dis.append(('nrt-elapsed-not-last-instant', last,
                            res['elapsed'], 'observed wake-ups'))
    return dis


class _Ext:
    """While active, mc.rtprog interprets programs with a Run subclass that
    knows more operations: ['cplay', rid, cid, quant] = clock.play(routine,
    quant), ['sched_abs', cid, t, rid] with a routine, ['rrun', rid, cid] =
    Routine.run(f, clock, 0), ['drun', rid, cid] = routine.run(clock, 0)(f)
    (other entry points for starting a routine), ['etempo', cid, v],
    ['tbeats'] (log main.current_tt._beats), ['yreset', d, n] (leave with
    YieldAndReset(d)) and routine forms prog['forms'][rid] = 'noinval' |
    'func'."""

    def __enter__(self):
        from mc import rtprog
        self.rtprog = rtprog
        self.old = rtprog.Run
        base = self.old

        class Run(base):
            def _body(self, rid, stmts):
                b = base._body(self, rid, stmts)
                form = self.prog.get('forms', {}).get(rid)
                run = self
                if form == 'noinval':
                    # generator function without the (routine, clock)
                    # argument
                    def body0():
                        return (yield from b(None))
                    body0.__qualname__ = rid
                    return body0
                if form == 'func':
                    # plain function: the routine runs once
                    def bodyf(inval):
                        clock = inval[1]
                        run.ev('res', rid, 0, run.now(), clock.seconds,
                               clock.beats, run.late(),
                               run.clockname(clock))
                        for st in stmts:
                            run.do(st, rid, clock)
                    bodyf.__qualname__ = rid
                    return bodyf
                return b

            def do(self, st, who, clock=None):
                from sc3.base import stream as stm
                from sc3.base.main import main
                op = st[0]
                if op == 'yreset':
                    # leave the routine with YieldAndReset(delta) the first
                    # N - 1 times, end normally the N-th time
                    n = self.calls.get(('yreset', who), 0) + 1
                    self.calls[('yreset', who)] = n
                    if n < st[2]:
                        raise stm.YieldAndReset(st[1])
                    return
                if op == 'tbeats':
                    tt = main.current_tt
                    self.ev('tbeats', who, tt._seconds, tt._beats)
                    return
                if op in ('cplay', 'etempo', 'rrun', 'drun') or (
                        op == 'sched_abs' and st[3] in self.routines):
                    try:
                        if op == 'etempo':
                            self.clocks[st[1]].etempo(st[2])
                        elif op == 'cplay':
                            self.clocks[st[2]].play(self.routines[st[1]],
                                                    st[3])
                        elif op in ('rrun', 'drun'):
                            f = self._body(st[1],
                                           self.prog['routines'][st[1]])
                            c = self.clocks[st[2]] if st[2] else None
                            if op == 'rrun':
                                r = stm.Routine.run(f, c, 0)
                            else:
                                r = stm.routine.run(c, 0)(f)
                            self.routines[st[1]] = r
                            self.names[id(r)] = st[1]
                        else:
                            self.clocks[st[1]].sched_abs(
                                st[2], self.routines[st[3]])
                    except Exception as e:
                        self.ev('raises', who, st, type(e).__name__,
                                str(e)[:200])
                        if who in self.routines:
                            raise
                    return
                return base.do(self, st, who, clock)
        rtprog.Run = Run
        return self

    def __exit__(self, *a):
        self.rtprog.Run = self.old
        return False


def run_rt(prog, prefix):
    from mc import rtprog
    with _Ext():
        return rtprog.run_rt(prog, prefix)


def check_result(prog, res, mode):
    if 'x' in prog:
        return check_result_x(prog, res, mode)
    dis = []
    if res['status'] != 'ok':
        return [(res['status'], 'execution completes', res.get('detail'),
                 '')]
    exp = expected(prog)
    got = {}
    for e in res['trace']:
        if e[0] == 'res':
            got.setdefault(e[1], []).append((e[4], e[5], e[7]))
        elif e[0] == 'raises':
            dis.append(('api-call-raises', 'no exception', e[1:], ''))
    for rid, want in exp.items():
        have = got.get(rid, [])
        kind_c = {'c0': 'child', 'n0': 'inner'}.get(rid, 'top')
        if len(have) != len(want):
            dis.append((f'{mode}-resumption-count-{kind_c}', len(want),
                        len(have), f'{rid}: {have}'))
            continue
        # a tempo change made from another clock's thread can overtake a
        # *late* wake-up of the player (two threads, physical order): then
        # only the beats are decided by the statement, not the seconds
        beats_only = bool(prog.get('conductor')) and mode == 'rt' and \
            prog['conductor'][2] != prog['conductor'][0] and \
            res.get('late_total', 0) > 0
        for k, ((ws, wb), (hs, hb, _)) in enumerate(zip(want, have)):
            if hs != ws and not beats_only:
                dis.append((f'{mode}-logical-seconds-{kind_c}'
                            + ('-start' if k == 0 else ''), ws, hs,
                            f'{rid} resumption {k}'))
                break
            if wb is not None and hb != wb:
                dis.append((f'{mode}-logical-beats-{kind_c}'
                            + ('-start' if k == 0 else ''), wb, hb,
                            f'{rid} resumption {k}'))
                break
    if mode == 'rt':
        for name, exc in res['dead']:
            dis.append(('clock-thread-died', None, [name, exc], ''))
    else:
        # logical time never decreases from one executed task to the next
        prev = None
        for t in res.get('wakeups', []):
            if prev is not None and t < prev:
                dis.append(('nrt-logical-time-decreases', f'>= {prev}', t,
                            str(res['wakeups'])))
                break
            prev = t
        if res.get('wakeups'):
            last = max(res['wakeups'])
            if res['elapsed'] != last:
                dis.append(('nrt-elapsed-not-last-instant', last,
                            res['elapsed'], ''))
    return dis


# ---------------------------------------------------------------------------
# Workers
# ---------------------------------------------------------------------------

def work_rt(job):
    from mc import rtprog
    from mc.engines import schedx
    acc = progenum.Acc(max_samples=1)
    for prog in job['progs']:
        def run(prefix, prog=prog):
            return run_rt(prog, prefix)

        def on_result(choices, points, res, prog=prog):
            pre, late = schedx.cost_of(points, choices)
            case = {'mode': 'rt', 'prog': prog, 'choices': list(choices)}
            for kind, exp, obs, detail in check_result(prog, res, 'rt'):
                acc.violation(kind, case, exp, obs, detail,
                              size=(pre + late) * 100000 + len(choices) * 100
                              + len(core.canon(prog)) // 10)
            obs = [[e[1], e[3], e[4]] for e in res['trace'] if e[0] == 'res']
            acc.case(case, (pre + late) > 0, obs, steps=res['steps'])
        r = schedx.explore(run, job['max_pre'], job['max_late'], on_result)
        acc.count('executions', r['executions'])
    return acc.result()


def run_nrt(prog):
    from mc import rtprog
    import sc3.base.clock as clk
    wake = []
    orig = clk.ClockTask._wakeup

    def _wakeup(self, time):
        wake.append(time)
        return orig(self, time)
    clk.ClockTask._wakeup = _wakeup
    try:
        with _Ext():
            res = rtprog.run_nrt(prog)
    finally:
        clk.ClockTask._wakeup = orig
    res['wakeups'] = wake
    return res


def work_nrt(job):
    acc = progenum.Acc(max_samples=2)
    for prog in job['progs']:
        res = run_nrt(prog)
        case = {'mode': 'nrt', 'prog': prog}
        for kind, exp, obs, detail in check_result(prog, res, 'nrt'):
            acc.violation(kind, case, exp, obs, detail)
        obs = [[e[1], e[4]] for e in res['trace'] if e[0] == 'res']
        nt = len(prog['routines']) > 1 or bool(prog['funcs'])
        acc.case(case, nt, obs, steps=len(res['trace']))
    return acc.result()


def replay(job):
    case = job['case']
    prog = case['prog']
    if case.get('mode') == 'nrt':
        res = run_nrt(prog)
        dis = check_result(prog, res, 'nrt')
    else:
        _, _, res = run_rt(prog, case['choices'])
        dis = check_result(prog, res, 'rt')
    return {'violates': any(d[0] == job['kind'] for d in dis),
            'disagreements': [[d[0], repr(d[1])[:300], repr(d[2])[:300]]
                              for d in dis],
            'trace': res['trace']}


def chunks(lst, n):
    return [lst[i::n] for i in range(n) if lst[i::n]]


def main(ctx):
    ctx.rule = (
        'Programs: one routine on SystemClock/TempoClock(1|2|0.5)/AppClock '
        '(NRT) with every yield sequence up to length L over {0,0.25,0.5,1}, '
        'optionally spawning a child routine at every position on the same '
        'or another clock, plus two-routine programs with a colliding '
        'function task, conductor programs (tempo changed under a pending '
        'player) and the extended families of programs_ext(): other entry '
        'points (clock.sched(d, routine), clock.play, sched_abs; from main '
        'and from inside a routine), sibling tasks that raise or re-schedule '
        'themselves (same batch / other clock), tempo clocks re-based or '
        're-tempoed before the start, late physical start of top-level '
        'routines (RT), grandchildren / two children / children of stepped '
        'inner routines / nested next(), routines changing the tempo of '
        'their own clock, conductors acting at the player\'s due beat, int '
        'and fine dyadic deltas, non-dyadic deltas and tempo 3 (NRT, '
        'relative tolerance 1e-9), long sequences, physical time passing '
        'inside one resumption, crowded clocks. RT: every schedule with <=P '
        'preemptions and <=L late timers; NRT: the deterministic run. '
        'Oracle: k-th resumption sees start + sum of the first k deltas '
        '(through the tempo) exactly; children start at the parent\'s '
        'logical time (the reference interpreter reference() for the '
        'extended families). Non-trivial (RT) = execution with >=1 '
        'deviation; (NRT) = program with nesting or a colliding task.')
    ctx.assumptions += [
        'TempoClock plays use quant 0 (default quantisation to the next '
        'whole beat is C12\'s subject)',
        'RT: all times dyadic, tempos powers of two: expected values are '
        'exact (virtual physical time is 1024 s based; non-dyadic instants '
        'are explored in NRT only, with relative tolerance 1e-9)',
        'RT AppClock is excluded (documented to drift)',
        'negative deltas and sched_abs into the logical past are outside '
        'the space (the statement\'s clauses contradict each other there)',
        'don\'t-care: seconds (not beats) of routines whose clock\'s tempo '
        'is changed from another clock\'s thread in an RT execution with a '
        'late timer; the physical instant of a late main-thread wake-up is '
        'read off the first routine played after it']
    rt = programs(ctx.tier, 'rt')
    nrt = programs(ctx.tier, 'nrt')
    xrt = programs_ext(ctx.tier, 'rt')
    xnrt = [p for _, p in programs_ext(ctx.tier, 'nrt')]
    if ctx.tier == 'quick':
        A, B = (2, 1), (1, 1)
        sl = core.pick_slice(ctx.seed, 2)
        xa = [p for i, (c, p) in enumerate(xrt) if c == 'a' and i % 2 == sl]
        xb = [p for i, (c, p) in enumerate(xrt)
              if not (c == 'a' and i % 2 == sl)]
    else:
        A, B = (3, 2), (2, 2)
        xa = [p for c, p in xrt if c == 'a']
        xb = [p for c, p in xrt if c != 'a']
    groups = [(A, rt, 64, ''), (A, xa, 32, ' (extended families)'),
              (B, xb, 32, ' (extended families)')]
    jobs = []
    for (mp, ml), progs, n, label in groups:
        jobs += [{'progs': c, 'max_pre': mp, 'max_late': ml,
                  'bound': f'RT <= {mp} preemptions, <= {ml} late timers'
                  + label} for c in chunks(progs, n)]
    for b in sorted({j['bound'] for j in jobs}):
        progenum.run(ctx, MODNAME, 'work_rt',
                     [j for j in jobs if j['bound'] == b], mode='rt',
                     bound=b)
    jobs = [{'progs': c} for c in chunks(nrt + xnrt, 32)]
    progenum.run(ctx, MODNAME, 'work_nrt', jobs, mode='nrt', bound='NRT')
    ctx.extra['rt_programs'] = len(rt)
    ctx.extra['nrt_programs'] = len(nrt)
    ctx.extra['rt_programs_extended'] = len(xrt)
    ctx.extra['nrt_programs_extended'] = len(xnrt)
    ctx.extra['rt_extended_at_main_bound'] = len(xa)
