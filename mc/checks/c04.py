"""C04 - function parameters become correctly laid-out, correctly wired controls.

E1: graph-function *signatures* are generated as plain data, rendered to Python
source text (annotations and defaults are real syntax), exec-ed and compiled by
the real SynthDef in NRT mode.  The emitted bytes are decoded by the
independent SCgf-2 reader and compared with the reference layout of
mc/oracles/layout_ref.py: control array, name table, control units (class,
rate, special index, lag inputs), the control outputs every tagged Out of the
body received, variant blocks; then the definition is called and the `/s_new`
found in the NRT score is compared with the positional/keyword mapping."""

import itertools
import traceback

from mc import core, graphprog as gp
from mc.engines import progenum
from mc.oracles import scgf, layout_ref as lr

MODE = 'nrt'
MODNAME = 'mc.checks.c04'
DEFNAME = 'd'

ANN = [None, 'ir', 'tr', 'ar', 'kr']
RE = [None, 'ir', 'tr', 'ar', 'kr', 0.25, [0.25, 0.5]]
OUTER_NAMES = 'abcdefgh'
WRAP_NAMES = ['wxy', 'uvt', 'rsq']
# reduced (annotation, default kind) alphabets: every group, scalar and array
P6 = [(None, 'm'), (None, 's'), ('ir', 's'), ('tr', 't2'), ('ar', 's'),
      ('kr', 't2')]
P8 = P6 + [('ir', 't2'), ('ar', 't3')]
PREP = [(None, 'm'), ('ar', 's'), ('ir', 't2'), (None, 's')]
FALSY = {'z': 0, 'zf': 0.0, 'F': False}
# audit widening ---------------------------------------------------------
# rates entries beyond RE: explicit zeros (int / float), an int lag, lag
# lists of length 1 and 3, lag lists with a zero first / last / everywhere,
# int lag lists; entries at position j > 0 are scaled by 2**j so that two
# lagged parameters never share a lag time by construction
RW = [None, 'ir', 0.25, 0, 0.0, 1, 0.75, [0.75], [0, 0.5], [0.5, 0], [0, 0],
      [0.25, 0.5, 0.75], [1, 2]]
ANN3 = [None, 'kr', 'ar']
P4 = [(None, 's'), ('ir', 't2'), ('kr', 't2'), ('ar', 's')]
P7 = P6 + [('kr', 't3')]
ENTRIES = ('ctor', 'ctor-pos', 'decorator')


# --------------------------------------------------------------------------
# Case construction (plain data)
# --------------------------------------------------------------------------

def mk_fn(fi, names, combos, rates=None, prepend=0, wraps=None,
          prepend_vals=None):
    """combos: [(ann, default kind)] per parameter; default kinds: 'm' no
    default (turned into '=None' when Python syntax forbids it), 'n' =None,
    's' scalar, 't<k>' tuple of k, 'z'/'zf'/'F' the explicit falsy defaults
    0 / 0.0 / False, 'tz' the tuple (0, x), 'i' a non-zero int, 'T' True,
    'ng' a negative number, 'ti<k>' a tuple of k ints, 'tm3' the tuple
    (x, -y, 0).  Other values are tagged by function/position.
    prepend_vals: explicit prepended values (default: the ints 900+...)."""
    params = []
    all_m = True
    for i, (ann, dk) in enumerate(combos):
        base = 1024 * fi + 16 * (i + 1)
        if dk == 'm' and not all_m:
            dk = 'n'
        if dk != 'm':
            all_m = False
        if dk in ('m', 'n'):
            d = dk
        elif dk == 's':
            d = base + 0.5
        elif dk in FALSY:
            d = FALSY[dk]
        elif dk == 'tz':
            d = [0, base + 0.5]
        elif dk == 'i':
            d = base + 3
        elif dk == 'T':
            d = True
        elif dk == 'ng':
            d = -(base + 0.5)
        elif dk.startswith('ti'):
            d = [base + 1 + j for j in range(int(dk[2:]))]
        elif dk == 'tm3':
            d = [float(base + 1), -float(base + 2), 0]
        else:
            d = [float(base + 1 + j) for j in range(int(dk[1:]))]
        params.append([names[i], ann, d])
    fn = {'params': params, 'rates': rates, 'prepend': prepend,
          'tag': 100 * (fi + 1), 'wraps': wraps or []}
    if prepend_vals is not None:
        assert len(prepend_vals) == prepend
        fn['prepend_vals'] = list(prepend_vals)
    return fn


def default_call(fn):
    """all control parameters of the graph function positionally, the first
    parameter of the first wrapped function by keyword."""
    k = fn.get('prepend', 0)
    pos = [11 + 0.5 * j for j in range(len(fn['params']) - k)]
    kw = []
    fns = lr.functions_of(fn)
    if len(fns) > 1:
        f1 = fns[1]
        ps = f1['params'][f1.get('prepend', 0):]
        if ps:
            kw.append([ps[0][0], 77])
    return {'pos': pos, 'kw': kw}


def mk_case(fn, variants=None, specs=None, call='default', entry=None,
            meta_extra=False):
    """entry: how the definition is made - None/'ctor' SynthDef(name, f,
    keyword options), 'ctor-pos' the options given positionally, 'decorator'
    @synthdef / @synthdef(options) on a function named like the definition.
    meta_extra: the metadata dictionary has another key besides / instead of
    'specs'."""
    case = {'name': DEFNAME, 'fn': fn, 'variants': variants, 'specs': specs,
            'call': default_call(fn) if call == 'default' else call}
    if entry not in (None, 'ctor'):
        assert entry in ENTRIES
        case['entry'] = entry
    if meta_extra:
        case['meta_extra'] = True
    return case


def rates_all(n):
    """every rates argument of length 0..n over RE (None = not given)."""
    yield None
    for L in range(1, n + 1):
        for r in itertools.product(RE, repeat=L):
            yield list(r)


def rates_single(n):
    """not given, or exactly one non-None entry at one position."""
    yield None
    for j in range(n):
        for e in RE[1:]:
            yield [None] * j + [e]


def sharded(prefixes, shard, of):
    for i, p in enumerate(prefixes):
        if i % of == shard:
            yield p


# ---- families: generator(shard, of) -> cases -------------------------------

def fam_sig(n, dks, rates_fn):
    per = [(a, k) for a in ANN for k in dks]

    def gen(shard, of):
        for combo in sharded(itertools.product(per, repeat=n), shard, of):
            for rates in rates_fn(n):
                yield mk_case(mk_fn(0, OUTER_NAMES, list(combo), rates))
    return gen


def fam_prepend(nmax):
    per = [(a, k) for a in ANN for k in ('m', 's', 't2')]

    def prefixes():
        for n in range(1, nmax + 1):
            for k in (1, 2):
                if k > n:
                    continue
                for pre in itertools.product(PREP, repeat=k):
                    for combo in itertools.product(per, repeat=n - k):
                        yield n, k, list(pre) + list(combo)

    def gen(shard, of):
        for n, k, combo in sharded(prefixes(), shard, of):
            for rates in rates_single(n):
                yield mk_case(mk_fn(0, OUTER_NAMES, combo, rates, prepend=k))
    return gen


def inner_rates(n):
    yield None
    yield [0.25]
    yield ['ir']
    if n >= 2:
        yield [None, 'tr']


def fam_wrap(P):
    def prefixes():
        for no in range(0, 3):
            for oc in itertools.product(P, repeat=no):
                for ni in (1, 2):
                    for ic in itertools.product(P, repeat=ni):
                        yield list(oc), list(ic)

    def gen(shard, of):
        for oc, ic in sharded(prefixes(), shard, of):
            for pos in (0, 1):
                for ipre in (0, 1):
                    for ir in inner_rates(len(ic)):
                        combo = ([('ar', 's')] if ipre else []) + ic
                        inner = mk_fn(1, WRAP_NAMES[0] if not ipre else
                                      'q' + WRAP_NAMES[0], combo, ir,
                                      prepend=ipre)
                        fn = mk_fn(0, OUTER_NAMES, oc, None,
                                   wraps=[{'pos': pos, 'fn': inner}])
                        yield mk_case(fn)
    return gen


def fam_wrap2(P):
    def prefixes():
        for no in (0, 1):
            for oc in itertools.product(P, repeat=no):
                for c1 in P:
                    for c2 in P:
                        yield list(oc), c1, c2

    def gen(shard, of):
        for oc, c1, c2 in sharded(prefixes(), shard, of):
            for p1, p2 in ((0, 0), (0, 1), (1, 1), (1, 0)):
                f1 = mk_fn(1, WRAP_NAMES[0], [c1])
                f2 = mk_fn(2, WRAP_NAMES[1], [c2])
                yield mk_case(mk_fn(0, OUTER_NAMES, oc, wraps=[
                    {'pos': p1, 'fn': f1}, {'pos': p2, 'fn': f2}]))
            for p1 in (0, 1):
                for p2 in (0, 1):
                    f2 = mk_fn(2, WRAP_NAMES[1], [c2])
                    f1 = mk_fn(1, WRAP_NAMES[0], [c1],
                               wraps=[{'pos': p2, 'fn': f2}])
                    yield mk_case(mk_fn(0, OUTER_NAMES, oc, wraps=[
                        {'pos': p1, 'fn': f1}]))
    return gen


def variant_options(case):
    """Variant arguments derived from the controls of the case."""
    exp = lr.expected(case)
    ctls = sorted((s, nm) for nm, s in exp['names'].items())
    size = {nm: len(exp['wiring'][b]['slots'])
            for b in exp['wiring'] for nm in [exp['wiring'][b]['name']]}
    names = [nm for _, nm in ctls]
    if not names:
        return
    opts = []
    for k, nm in enumerate(names):
        opts.append([['v', [[nm, 4096.0 + k]]]])
        if size[nm] > 1:
            opts.append([['v', [[nm, [4100.0 + j for j in range(size[nm])]]]]])
    opts.append([['v', [[nm, 4096.0 + k] for k, nm in enumerate(names)]]])
    opts.append([['v', [[names[0], 4096.0]]], ['w', [[names[-1], 4097.0]]]])
    # unusable variants (statement decides nothing about them except that
    # what is emitted stays a definition whose present blocks are right)
    good = ['g', [[names[-1], 4098.0]]]
    unknown = ['u', [['zz', 4099.0]]]
    long_ = ['L' * 31, [[names[0], 4100.0]]]
    over = ['o', [[names[0], [4101.0 + j for j in range(size[names[0]] + 1)]]]]
    mixed = ['x', [[names[0], 4102.0], ['zz', 4103.0]]]
    opts += [[unknown], [long_], [over], [mixed], [unknown, good],
             [good, unknown], [long_, good], [good, over]]
    # audit widening: falsy override values (int 0 on the first, 0.0 on the
    # last control), an int value, a variant without overrides (= the
    # defaults), the longest name that every reader accepts (31 characters
    # with the definition name), a list shorter than an array of >= 3 slots
    opts.append([['z', [[names[0], 0]]]])
    opts.append([['z', [[names[-1], 0.0]]], ['i', [[names[0], 4105]]]])
    opts.append([['e', []]])
    opts.append([['e', []], good])
    opts.append([['M' * (31 - len(case['name']) - 1),
                  [[names[0], 4104.0]]]])
    for nm in names:
        if size[nm] >= 3:
            opts.append([['s', [[nm, [4110.0 + j
                                      for j in range(size[nm] - 1)]]] +
                          ([[names[-1], 4120.0]] if names[-1] != nm
                           else [])]])
    for o in opts:
        yield o


def fam_variants():
    """mode: 'plain'; 'pre' one prepended parameter in front; 'specs' the
    missing defaults come from metadata spec defaults (the variant blocks
    repeat them)."""
    def prefixes():
        for n in (1, 2):
            for combo in itertools.product(P7, repeat=n):
                for rates in (None, [0.25]):
                    for wrap in (0, 1):
                        for mode in ('plain', 'pre', 'specs'):
                            yield list(combo), rates, wrap, mode

    def gen(shard, of):
        for combo, rates, wrap, mode in sharded(prefixes(), shard, of):
            wraps = [{'pos': 1, 'fn': mk_fn(1, WRAP_NAMES[0],
                                            [('ir', 't2')])}] if wrap else []
            pre = 1 if mode == 'pre' else 0
            fn = mk_fn(0, OUTER_NAMES, [(None, 'm')] * pre + combo, rates,
                       prepend=pre, wraps=wraps)
            specs = None
            if mode == 'specs':
                specs = {p[0]: 2048.25 + 16 * j
                         for j, p in enumerate(fn['params']) if p[2] == 'm'}
                specs['zz'] = 3000.25
            for v in variant_options(mk_case(fn, specs=specs)):
                yield mk_case(fn, variants=v, specs=specs)
    return gen


def fam_meta():
    """spec defaults apply to missing / =None defaults only: every explicit
    default - the falsy ones 0, 0.0, False and a tuple with a zero included -
    must survive a (non-zero) spec default for its name, in every group."""
    per = [(a, k) for a in ANN
           for k in ('m', 'n', 's', 'z', 'zf', 'F', 'tz')]
    inners = [None,
              ([(None, 'm'), ('ir', 'n')], []),
              ([(None, 'm'), ('ir', 'n')], ['x']),
              ([(None, 'z'), ('ir', 'zf')], ['w', 'x']),
              ([('tr', 'F'), ('ar', 'tz')], ['w', 'x'])]

    def prefixes():
        for n in (1, 2):
            for combo in itertools.product(per, repeat=n):
                yield list(combo)

    def gen(shard, of):
        for combo in sharded(prefixes(), shard, of):
            n = len(combo)
            for pre in (0, 1):
                names = list(OUTER_NAMES[pre:n + pre])
                subsets = [[]] + [[x] for x in names] + \
                    ([names] if n == 2 else []) + [['zz']] + \
                    ([['a'] + names] if pre else [])
                full = [(None, 'm')] * pre + combo
                for inner in (inners[:1] if pre else inners if n == 1
                              else [inners[0], inners[3]]):
                    wraps = [{'pos': 0, 'fn': mk_fn(
                        1, WRAP_NAMES[0], inner[0])}] if inner else []
                    for sub in subsets:
                        keys = list(sub) + (inner[1] if inner else [])
                        specs = {k: 2048.0 + 16 * j + 0.25
                                 for j, k in enumerate(keys)}
                        fn = mk_fn(0, OUTER_NAMES, full, prepend=pre,
                                   wraps=wraps)
                        yield mk_case(fn, specs=specs)
    return gen


def fam_call():
    def prefixes():
        for n in range(0, 4):
            for pre in (0, 1):
                if pre > n:
                    continue
                for wrap in (0, 1):
                    yield n, pre, wrap

    def gen(shard, of):
        for n, pre, wrap in sharded(prefixes(), shard, of):
            wraps = [{'pos': 0, 'fn': mk_fn(1, WRAP_NAMES[0],
                                            [(None, 's'), ('ir', 's')])}] \
                if wrap else []
            fn = mk_fn(0, OUTER_NAMES, [(None, 's')] * n, prepend=pre,
                       wraps=wraps)
            ctl = [p[0] for p in fn['params']][pre:]
            inner = ['w', 'x'] if wrap else []
            for npos in range(len(ctl) + 1):
                rest = ctl[npos:] + inner
                kws = [[]] + [[x] for x in rest] + \
                    [list(c) for c in itertools.combinations(rest, 2)] + \
                    [list(reversed(c))
                     for c in itertools.combinations(rest, 2)]
                for kw in kws:
                    call = {'pos': [11 + 0.5 * j for j in range(npos)],
                            'kw': [[k, 70 + j] for j, k in enumerate(kw)]}
                    if call != default_call(fn):    # that one is in the
                        yield mk_case(fn, call=call)  # sig/prepend families
                    # audit widening: falsy numbers and bus-mapping strings
                    # are argument values like any other
                    if npos or kw:
                        fpos = [0, 'c1', 0.0]
                        fkw = [0, 'a2']
                        yield mk_case(fn, call={
                            'pos': [fpos[j % 3] for j in range(npos)],
                            'kw': [[k, fkw[j % 2]]
                                   for j, k in enumerate(kw)]})
    return gen


def big_cases(n):
    names = [f'p{i}' for i in range(n)]
    S = (None, 's')
    yield mk_case(mk_fn(0, names, [S] * n, [0.25] * n))
    for j in range(n):
        yield mk_case(mk_fn(0, names, [S] * n, [None] * j + [0.5]))
    dks = ['s', 't2', 'n', 't3']
    for r in range(5):
        combo = [(ANN[(i + r) % 5], dks[i % 4]) for i in range(n)]
        yield mk_case(mk_fn(0, names, combo))
        yield mk_case(mk_fn(0, names, combo,
                            [0.25 if i % 3 == 0 else None
                             for i in range(n)]))
        yield mk_case(mk_fn(0, names, combo,
                            [[0.25, 0.5] if dks[i % 4][0] == 't' else 0.5
                             for i in range(n)]))
    yield mk_case(mk_fn(0, names, [('kr', 't3')] * n, [[0.25, 0.5]] * n))
    for j in range(n):
        yield mk_case(mk_fn(0, names, [(None, 't2')] * n,
                            [None] * j + [[0.25, 0.5]]))
    # audit widening: variants, prepended parameters, spec defaults and a
    # different lag time for every parameter on a large definition
    combo = [(ANN[i % 5], dks[i % 4]) for i in range(n)]
    alt = [0.25 if i % 2 else None for i in range(n)]
    yield mk_case(mk_fn(0, names, combo, alt), variants=[
        ['v', [[names[-1], 4096.0], [names[0], 4097.0]]],
        ['w', [[names[n // 2], 0]]]])
    yield mk_case(mk_fn(0, names, [(None, 'm')] * 2 + combo[2:], alt,
                        prepend=2),
                  variants=[['v', [[names[-1], 4096.0]]]],
                  specs={nm: 2048.25 + j for j, nm in enumerate(names)})
    yield mk_case(mk_fn(0, names, [S] * n,
                        [0.125 * (i + 1) for i in range(n)]))
    yield mk_case(mk_fn(0, names, [(None, 't2')] * n,
                        [[0.125 * (2 * i + 1), 0.125 * (2 * i + 2)]
                         for i in range(n)]), entry='decorator')


def fam_big(ns):
    def gen(shard, of):
        for c in sharded((c for n in ns for c in big_cases(n)), shard, of):
            yield c
    return gen


# ---- audit widening: families ---------------------------------------------

def _scale(e, j):
    if j == 0 or e is None or isinstance(e, str):
        return e
    if isinstance(e, list):
        return [x * 2 ** j for x in e]
    return e * 2 ** j


RW3 = [None, 0, 1, [0.75], [0, 0.5], [0.25, 0.5, 0.75]]


def rates_wide(n, alphabet=None):
    """not given; every list of length 1..n over RW (or the given alphabet);
    lists with one or two entries more than there are parameters."""
    alphabet = RW if alphabet is None else alphabet
    yield None
    for L in range(1, n + 1):
        for r in itertools.product(alphabet, repeat=L):
            yield [_scale(e, j) for j, e in enumerate(r)]
    for h in itertools.product([None, 0.75, 'ir'], repeat=n):
        head = [_scale(e, j) for j, e in enumerate(h)]
        for x in (None, 'ir', 0.5, [0.25, 0.5]):
            yield head + [x]
        for xs in (['ir', 'ir'], [0.5, None]):
            yield head + xs


def fam_sigw(ns, alphabet=None):
    per = [(a, k) for a in ANN3 for k in ('s', 't2', 't3')]

    def prefixes():
        for n in ns:
            for combo in itertools.product(per, repeat=n):
                yield n, list(combo)

    def gen(shard, of):
        for n, combo in sharded(prefixes(), shard, of):
            for rates in rates_wide(n, alphabet):
                yield mk_case(mk_fn(0, OUTER_NAMES, combo, rates))
    return gen


def fam_defaults():
    """default values that are not floats: non-zero ints, True, negative
    numbers, tuples of ints, a tuple with a negative and a zero; alone and
    with a spec default for every name (an explicit default always wins)."""
    per = [(a, k) for a in ANN
           for k in ('m', 'i', 'T', 'ng', 'ti2', 'tm3')]

    def prefixes():
        for n in (1, 2):
            for combo in itertools.product(per, repeat=n):
                yield n, list(combo)

    def gen(shard, of):
        for n, combo in sharded(prefixes(), shard, of):
            for rates in (None, [0.25], ['ir'], [None, 'ar'][:n],
                          [[0.25, 0.5]]):
                for sp in (0, 1):
                    specs = {OUTER_NAMES[j]: 2048.25 + 16 * j
                             for j in range(n)} if sp else None
                    yield mk_case(mk_fn(0, OUTER_NAMES, combo, rates),
                                  specs=specs)
    return gen


def wide_inners():
    """inner functions of fam_wrapw: (parameter kinds, rates, prepend count,
    explicit prepended values | None, prepended value is a signal)"""
    out = [([], None, 0, None, False),                    # no parameters
           ([(None, 'm')], None, 1, None, False),         # all prepended
           ([('ar', 's')], None, 1, [0], False),
           ([(None, 'm')], None, 1, None, True)]          # signal, no control
    for c in P4:
        out.append(([(None, 'm'), c], None, 1, None, True))
    for pv in ([0], [None], [False]):
        for c in P4[:2]:
            out.append(([(None, 'm'), c], None, 1, pv, False))
    for c in P4:
        for r in (['ar'], ['kr'], ['tr'], [0.5], [[0.25, 0.5]]):
            out.append(([c], r, 0, None, False))
    out.append(([(None, 's'), ('kr', 't2')], [0.5, [0.25, 1.0]], 0, None,
                False))
    return out


def fam_wrapw():
    """wrap: sub-functions without parameters / without control parameters,
    prepended signals and falsy prepended values, rates of the sub-function,
    rates of the enclosing function, a second sub-function after the first."""
    def prefixes():
        for no in (1, 2):
            for oc in itertools.product(P4, repeat=no):
                for orates in (None, [0.25], ['tr'] if no == 1
                               else [None, 'tr']):
                    yield list(oc), orates

    def gen(shard, of):
        inners = wide_inners()
        for oc, orates in sharded(prefixes(), shard, of):
            for combo, ir, ipre, pv, sig in inners:
                for pos in (0, 1):
                    for sib in (0, 1):
                        names = ('q' if ipre else '') + WRAP_NAMES[0]
                        inner = mk_fn(1, names, combo, ir, prepend=ipre,
                                      prepend_vals=pv)
                        w = {'pos': pos, 'fn': inner}
                        if sig:
                            w['pre_sig'] = True
                        wraps = [w]
                        if sib:
                            wraps.append({'pos': 1, 'fn': mk_fn(
                                2, WRAP_NAMES[1], [('ir', 's')])})
                        yield mk_case(mk_fn(0, OUTER_NAMES, oc, orates,
                                            wraps=wraps))
    return gen


def fam_wrap3(P, slice_of=1, slice_ix=0):
    """three sub-functions with one parameter each: a chain of nested wraps,
    three siblings, a nested pair next to a sibling."""
    def prefixes():
        i = 0
        for no in (0, 1):
            for oc in itertools.product(P, repeat=no):
                for cs in itertools.product(P, repeat=3):
                    if i % slice_of == slice_ix:
                        yield list(oc), cs
                    i += 1

    def f(i, c, wraps=None):
        return mk_fn(i, WRAP_NAMES[i - 1], [c], wraps=wraps)

    def gen(shard, of):
        for oc, (c1, c2, c3) in sharded(prefixes(), shard, of):
            for p1, p2, p3 in itertools.product((0, 1), repeat=3):
                yield mk_case(mk_fn(0, OUTER_NAMES, oc, wraps=[
                    {'pos': p1, 'fn': f(1, c1, [
                        {'pos': p2, 'fn': f(2, c2, [
                            {'pos': p3, 'fn': f(3, c3)}])}])}]))
            for ps in ((0, 0, 0), (0, 0, 1), (0, 1, 1), (1, 1, 1)):
                yield mk_case(mk_fn(0, OUTER_NAMES, oc, wraps=[
                    {'pos': p, 'fn': f(i + 1, c)}
                    for i, (p, c) in enumerate(zip(ps, (c1, c2, c3)))]))
            for p1, p2, p3 in ((0, 0, 0), (0, 1, 1), (1, 0, 1), (1, 1, 1)):
                yield mk_case(mk_fn(0, OUTER_NAMES, oc, wraps=[
                    {'pos': p1, 'fn': f(1, c1, [{'pos': p2,
                                                 'fn': f(2, c2)}])},
                    {'pos': p3, 'fn': f(3, c3)}]))
    return gen


def fam_entry():
    """the other ways to make a definition: options given positionally to
    the constructor, the synthdef decorator with and without options."""
    def prefixes():
        for n in (0, 1, 2):
            for combo in itertools.product(P6, repeat=n):
                ropts = [None] + ([[0.25], ['ir']] if n >= 1 else []) + \
                    ([[None, 'ir']] if n >= 2 else [])
                for rates in ropts:
                    for pre in (0, 1):
                        yield list(combo), rates, pre

    def gen(shard, of):
        for combo, rates, pre in sharded(prefixes(), shard, of):
            fn = mk_fn(0, OUTER_NAMES, [(None, 'm')] * pre + combo, rates,
                       prepend=pre)
            ctl = [p[0] for p in fn['params'][pre:]]
            for var in ((0, 1) if ctl else (0,)):
                variants = [['v', [[ctl[0], 4096.0]]]] if var else None
                for sp in (0, 1):
                    specs = {nm: 2048.25 + 16 * j
                             for j, nm in enumerate(ctl + ['zz'])} \
                        if sp else None
                    for entry in ('ctor-pos', 'decorator'):
                        yield mk_case(fn, variants=variants, specs=specs,
                                      entry=entry)
    return gen


def fam_metaw():
    """metadata with another key besides 'specs', without a 'specs' key, with
    an empty 'specs'; spec defaults of lagged / re-rated parameters."""
    per = [(a, k) for a in ANN for k in ('m', 'n', 'z')]

    def prefixes():
        for n in (1, 2):
            for combo in itertools.product(per, repeat=n):
                yield n, list(combo)

    def gen(shard, of):
        for n, combo in sharded(prefixes(), shard, of):
            for rates in (None, [0.5], ['ir']):
                fn = mk_fn(0, OUTER_NAMES, combo, rates)
                full = {OUTER_NAMES[j]: 2048.25 + 16 * j for j in range(n)}
                yield mk_case(fn, specs=full, meta_extra=True)
                yield mk_case(fn, specs=None, meta_extra=True)
                yield mk_case(fn, specs={})
                if rates is not None:
                    yield mk_case(fn, specs=full)
    return gen


FAMILIES = {
    'sig<=2 full alphabets, every rates list':
        lambda: [fam_sig(n, ('m', 's', 't1', 't2', 't3'), rates_all)
                 for n in (0, 1, 2)],
    'sig<=2 full alphabets + falsy defaults, every rates list':
        lambda: [fam_sig(n, ('m', 's', 'z', 'F', 't1', 't2', 't3'),
                         rates_all) for n in (0, 1, 2)],
    'sig3 reduced defaults, <=1 rates entry':
        lambda: [fam_sig(3, ('m', 's', 't2'), rates_single)],
    'sig3 every rates list':
        lambda: [fam_sig(3, ('m', 's', 't2'), rates_all)],
    'sig4 scalar/pair defaults, <=1 rates entry':
        lambda: [fam_sig(4, ('s', 't2'), rates_single)],
    'prepend 1-2 of <=3 parameters': lambda: [fam_prepend(3)],
    'prepend 1-2 of <=4 parameters': lambda: [fam_prepend(4)],
    'wrap one sub-function (6 kinds/param)': lambda: [fam_wrap(P6)],
    'wrap one sub-function (8 kinds/param)': lambda: [fam_wrap(P8)],
    'wrap two sub-functions, sibling/nested': lambda: [fam_wrap2(P6)],
    'wrap two sub-functions, sibling/nested (8 kinds)':
        lambda: [fam_wrap2(P8)],
    'variants': lambda: [fam_variants()],
    'metadata spec defaults': lambda: [fam_meta()],
    'call mapping': lambda: [fam_call()],
    'parametric 16/17 parameters': lambda: [fam_big((16, 17))],
    'parametric 15..40 parameters':
        lambda: [fam_big((15, 16, 17, 18, 31, 32, 33, 40))],
    # audit widening
    'parametric 5/8/12 parameters': lambda: [fam_big((5, 8, 12))],
    'sig<=2 wide rates entries (zeros, ints, lag lists of 1/3, excess)':
        lambda: [fam_sigw((0, 1, 2))],
    'sig3 wide rates entries (6 entries)': lambda: [fam_sigw((3,), RW3)],
    'sig<=2 non-float defaults (int, True, negative, int tuples)':
        lambda: [fam_defaults()],
    'wrap: empty/all-prepended sub-functions, prepended signals, rates':
        lambda: [fam_wrapw()],
    'wrap three sub-functions (6 kinds)': lambda: [fam_wrap3(P6)],
    'entry points: positional options, decorator': lambda: [fam_entry()],
    'metadata without/with empty specs, extra keys': lambda: [fam_metaw()],
}
for _k in range(8):
    FAMILIES[f'wrap three sub-functions (6 kinds), slice {_k}/8'] = \
        (lambda k: lambda: [fam_wrap3(P6, 8, k)])(_k)
QUICK = [('sig<=2 full alphabets, every rates list', 64),
         ('sig3 reduced defaults, <=1 rates entry', 64),
         ('prepend 1-2 of <=3 parameters', 32),
         ('wrap one sub-function (6 kinds/param)', 64),
         ('wrap two sub-functions, sibling/nested', 16),
         ('variants', 16), ('metadata spec defaults', 64),
         ('call mapping', 8), ('parametric 16/17 parameters', 16),
         ('sig<=2 wide rates entries (zeros, ints, lag lists of 1/3, excess)',
          64),
         ('sig<=2 non-float defaults (int, True, negative, int tuples)', 32),
         ('wrap: empty/all-prepended sub-functions, prepended signals, rates',
          32),
         ('entry points: positional options, decorator', 16),
         ('metadata without/with empty specs, extra keys', 16),
         ('parametric 5/8/12 parameters', 8)]
# + one seed-selected eighth of 'wrap three sub-functions' (see main)
THOROUGH = [('sig<=2 full alphabets + falsy defaults, every rates list', 64),
            ('sig3 every rates list', 512),      # contains the quick sig3
            ('sig4 scalar/pair defaults, <=1 rates entry', 512),
            ('prepend 1-2 of <=4 parameters', 128),
            ('wrap one sub-function (8 kinds/param)', 128),
            ('wrap two sub-functions, sibling/nested (8 kinds)', 32),
            ('variants', 16), ('metadata spec defaults', 64),
            ('call mapping', 8), ('parametric 15..40 parameters', 32),
            ('sig<=2 wide rates entries (zeros, ints, lag lists of 1/3, '
             'excess)', 64),
            ('sig3 wide rates entries (6 entries)', 256),
            ('sig<=2 non-float defaults (int, True, negative, int tuples)',
             32),
            ('wrap: empty/all-prepended sub-functions, prepended signals, '
             'rates', 32),
            ('wrap three sub-functions (6 kinds)', 64),
            ('entry points: positional options, decorator', 16),
            ('metadata without/with empty specs, extra keys', 16),
            ('parametric 5/8/12 parameters', 8)]


# --------------------------------------------------------------------------
# Rendering a case to source text and running it through the library
# --------------------------------------------------------------------------

def _lit(x):
    return repr(x)


def prep_vals(f, i):
    """the values prepended to function number i of a case"""
    pv = f.get('prepend_vals')
    if pv is not None:
        return list(pv)
    return [900 + 10 * i + q for q in range(f.get('prepend', 0))]


def _seen_norm(v):
    # ints and floats as they are; None / bools / anything else by repr so
    # that 0, 0.0 and False are three different observations
    if isinstance(v, bool) or not isinstance(v, (int, float)):
        return repr(v)
    return [type(v).__name__, v]


def gen_source(case):
    """Python source of all graph functions of the case (g0 = the function
    given to SynthDef; it is called like the definition when the synthdef
    decorator is the entry point) plus the construction statement."""
    fns = lr.functions_of(case['fn'])
    index = {id(f): i for i, f in enumerate(fns)}
    presig = {id(w['fn']) for f in fns for w in f.get('wraps') or []
              if w.get('pre_sig')}
    entry = case.get('entry') or 'ctor'
    f0 = case['fn']
    opt = {}
    if f0.get('rates') is not None:
        opt['rates'] = _lit(f0['rates'])
    if f0.get('prepend', 0):
        opt['prepend'] = _lit(prep_vals(f0, 0))
    if case.get('variants') is not None:
        vs = ', '.join(
            f'{vn!r}: {{' + ', '.join(f'{cn!r}: {_lit(v)}' for cn, v in pairs)
            + '}' for vn, pairs in case['variants'])
        opt['variants'] = '{' + vs + '}'
    if case.get('specs') is not None or case.get('meta_extra'):
        items = []
        if case.get('specs') is not None:
            sp = ', '.join(f'{k!r}: ControlSpec(0, 8192, default={_lit(v)})'
                           for k, v in sorted(case['specs'].items()))
            items.append("'specs': {" + sp + '}')
        if case.get('meta_extra'):
            items.append("'other': 1")
        opt['metadata'] = '{' + ', '.join(items) + '}'
    order = ('rates', 'prepend', 'variants', 'metadata')
    kwtext = ', '.join(f'{k}={opt[k]}' for k in order if k in opt)
    lines = []

    def emit(f):
        i = index[id(f)]
        for w in f.get('wraps') or []:
            emit(w['fn'])
        sig = []
        for name, ann, d in f['params']:
            s = name
            if ann is not None:
                s += f': {ann!r}'
            if d == 'n':
                s += ' = None'
            elif d != 'm':
                s += ' = ' + (_lit(tuple(d)) if isinstance(d, list)
                              else _lit(d))
            sig.append(s)
        if i == 0 and entry == 'decorator':
            lines.append('@synthdef' + (f'({kwtext})' if kwtext else ''))
            lines.append(f'def {case["name"]}({", ".join(sig)}):')
        else:
            lines.append(f'def g{i}({", ".join(sig)}):')
        k = f.get('prepend', 0)
        body = []
        for j, (name, _, _) in enumerate(f['params']):
            if j < k:
                if id(f) in presig:     # a prepended signal goes to a bus
                    body.append(f'_sink({f["tag"] + j}, {name})')
                else:
                    body.append(f'_seen.append(({i}, {j}, {name}))')

        def wrapcall(w):
            g = w['fn']
            args = [f'g{index[id(g)]}']
            if g.get('rates') is not None:
                args.append(f'rates={_lit(g["rates"])}')
            if w.get('pre_sig'):
                args.append(
                    f'prepend=[{f["params"][f.get("prepend", 0)][0]}]')
            elif g.get('prepend', 0):
                args.append('prepend=' + _lit(prep_vals(g, index[id(g)])))
            return f'SynthDef.wrap({", ".join(args)})'
        for w in f.get('wraps') or []:
            if w['pos'] == 0:
                body.append(wrapcall(w))
        for j, (name, _, _) in enumerate(f['params']):
            if j >= k:
                body.append(f'_sink({f["tag"] + j}, {name})')
        for w in f.get('wraps') or []:
            if w['pos'] == 1:
                body.append(wrapcall(w))
        if not body:
            body.append('pass')
        lines.extend('    ' + b for b in body)
        lines.append('')
    emit(case['fn'])
    if entry == 'decorator':
        lines.append(f'sd = {case["name"]}')
    elif entry == 'ctor-pos':
        args = [repr(case['name']), 'g0'] + [opt.get(k, 'None')
                                             for k in order]
        while args[-1] == 'None':
            args.pop()
        lines.append(f'sd = SynthDef({", ".join(args)})')
    else:
        args = [repr(case['name']), 'g0'] + ([kwtext] if kwtext else [])
        lines.append(f'sd = SynthDef({", ".join(args)})')
    return '\n'.join(lines) + '\n'


PRELUDE = '''import sc3
sc3.init('nrt')
from sc3.base.main import main
from sc3.synth.synthdef import SynthDef, synthdef
from sc3.synth.spec import ControlSpec
from sc3.synth.ugens.inout import Out
_seen = []
def _sink(bus, x):
    xs = x if isinstance(x, list) else [x]
    (Out.ar if all(e.rate == 'audio' for e in xs) else Out.kr)(bus, x)

'''


def standalone(case):
    call = case.get('call') or {'pos': [], 'kw': []}
    args = [repr(v) for v in call['pos']] + \
        [f'{k}={v!r}' for k, v in call['kw']]
    return (PRELUDE + gen_source(case) +
            'data = bytes(sd.as_bytes())   # decode with any SCgf-2 reader\n'
            'print(sd._all_control_names, sd._controls, sd._children)\n'
            f'main.reset(); sd({", ".join(args)})\n'
            'print(main.process().list)\n')


def _where(e):
    tb = traceback.extract_tb(e.__traceback__)
    return next((f.name for f in reversed(tb) if '/sc3/' in f.filename), '?')


def run_case(case):
    """Execute the case on the real library. -> observation dict."""
    from sc3.base.main import main
    from sc3.synth.synthdef import SynthDef, synthdef
    from sc3.synth.spec import ControlSpec
    from sc3.synth.ugens.inout import Out
    from sc3.base.systemactions import ServerBoot
    seen = []

    shapes = []

    def sink(bus, x):
        shapes.append([bus, isinstance(x, list),
                       len(x) if isinstance(x, list) else 1])
        xs = x if isinstance(x, list) else [x]
        if all(getattr(e, 'rate', None) == 'audio' for e in xs):
            Out.ar(bus, x)
        else:
            Out.kr(bus, x)

    scope = {'SynthDef': SynthDef, 'ControlSpec': ControlSpec, '_seen': seen,
             '_sink': sink, 'synthdef': synthdef}
    obs = {}
    src = gen_source(case)
    # the decorator registers a boot action per definition: the registry is
    # put back so that cases do not pile up in the worker
    boot = {k: dict(v) for k, v in ServerBoot._servers.items()}
    try:
        exec(compile(src, '<c04 case>', 'exec'), scope)
        sd = scope['sd']
        data = gp.sd_bytes(sd)
    except Exception as e:
        main._current_synthdef = None
        obs['raised'] = f'{type(e).__name__}@{_where(e)}'
        obs['error'] = repr(e)[:300] + (
            ' <- ' + repr(e.__cause__)[:200] if e.__cause__ else '')
        return obs
    finally:
        ServerBoot._servers = boot
    obs['bytes'] = data
    obs['seen'] = [[i, j, _seen_norm(v)] for i, j, v in seen]
    obs['shapes'] = sorted(shapes)
    call = case.get('call')
    if call is not None:
        main.reset()
        try:
            sd(*call['pos'], **{k: v for k, v in call['kw']})
            score = main.process()
            msgs = [list(m) for b in score.list for m in b[1:]
                    if isinstance(m, list) and m and m[0] == '/s_new']
            for m in msgs:       # node ids depend on the worker's history
                if len(m) > 2:
                    m[2] = 'ID'
            obs['s_new'] = msgs
        except Exception as e:
            obs['call_raised'] = f'{type(e).__name__}@{_where(e)}: ' \
                + repr(e)[:200]
        finally:
            main.reset()
    return obs


def has_unusable_variant(case):
    try:
        return not lr.expected(case)['variants_exact']
    except lr.Undecided:
        return False


def check_case(case):
    """-> (disagreements, nontrivial, outcome, skipped reason|None)"""
    und = lr.undecided(case)
    if und:
        return [], False, None, und
    nt = lr.nontrivial(case)
    obs = run_case(case)
    sa = None
    dis = []
    unusable = has_unusable_variant(case)
    if 'raised' in obs:
        if unusable:
            # refusing an unusable variant is an acceptable answer
            return [], nt, ['refused', obs['raised']], None
        if lr.excess_rates(case):
            # so is refusing rates entries that belong to no parameter
            return [], nt, ['refused-excess-rates', obs['raised']], None
        if lr.overlong_lag_list(case):
            # ... or a lag list with more times than the parameter has slots
            return [], nt, ['refused-overlong-lag-list', obs['raised']], None
        kind = 'build-raises-' + obs['raised']
        return [(kind, 'a compiled definition', obs['error'],
                 'well-formed signature rejected')], nt, kind, None
    try:
        defs = scgf.decode(obs['bytes'])['defs']
        if len(defs) != 1:
            raise scgf.FormatError(f'{len(defs)} definitions')
        d = defs[0]
        bad = scgf.validate(d)
        if bad:
            raise scgf.FormatError('; '.join(bad[:3]))
    except scgf.FormatError as e:
        kind = 'definition-unparsable' + \
            ('-unusable-variant' if unusable else '')
        return [(kind, 'SCgf v2 definition', repr(e),
                 'variant count and blocks' if unusable else '')], nt, \
            kind, None
    if d['name'] != case['name']:
        dis.append(('definition-name-differs', case['name'], d['name'], ''))
    dis += lr.check(case, d)
    # shape of what the body received (scalar parameter: one signal; tuple
    # default: a list of that many signals)
    exp0 = lr.expected(case)
    shbad = []
    got_sh = {b: (il, n) for b, il, n in obs['shapes']}
    for bus, w in sorted(exp0['wiring'].items()):
        il, n = got_sh.get(bus, (None, None))
        ok = n == len(w['slots']) and (
            w['shape'] == 'any' or il == (w['shape'] == 'list'))
        if not ok:
            shbad.append([w['name'], w['shape'], len(w['slots']), il, n])
    if shbad or len(obs['shapes']) != len(exp0['wiring']):
        dis.append(('body-argument-shape-differs',
                    [[w['name'], w['shape'], len(w['slots'])]
                     for _, w in sorted(exp0['wiring'].items())],
                    obs['shapes'], '[bus, is list, length] per parameter'))
    # prepended values reach the function unchanged
    want_seen = []
    fns_ = lr.functions_of(case['fn'])
    presig = {id(w['fn']) for f in fns_ for w in f.get('wraps') or []
              if w.get('pre_sig')}
    for i, f in enumerate(fns_):
        if id(f) in presig:
            continue          # checked as wiring of the bus it is sent to
        for q, v in enumerate(prep_vals(f, i)):
            want_seen.append([i, q, _seen_norm(v)])
    if sorted(obs['seen'], key=repr) != sorted(want_seen, key=repr):
        dis.append(('prepended-values-differ', want_seen, obs['seen'],
                    '[function, position, value received]'))
    # calling the definition
    if case.get('call') is not None:
        suffix = '-wrap' if case['fn'].get('wraps') else \
            '-prepend' if case['fn'].get('prepend') else ''
        want = lr.call_expected(case)
        if 'call_raised' in obs:
            dis.append(('call-raises' + suffix, want, obs['call_raised'],
                        ''))
        else:
            msgs = obs['s_new']
            got = [lr.call_observed(m) for m in msgs]
            okhead = len(msgs) == 1 and msgs[0][1] == case['name']
            if not okhead or got != [want]:
                dis.append(('call-args-differ' + suffix, want,
                            msgs, '(control name, value) pairs of the one '
                            '/s_new in the NRT score'))
    outcome = [d['params'], sorted(d['param_names']),
               [[u['name'], u['rate'], u['special'], u['inputs']]
                for u in d['units']], d['variants'], obs.get('s_new')]
    return dis, nt, outcome, None


def case_size(case):
    fns = lr.functions_of(case['fn'])
    return sum(len(f['params']) for f in fns) * 10000 + \
        len(core.canon(case))


def work(job):
    acc = progenum.Acc()
    for gen in FAMILIES[job['family']]():
        for case in gen(job['shard'], job['of']):
            dis, nt, outcome, skipped = check_case(case)
            if skipped:
                acc.count('skipped_undecided')
                continue
            for kind, exp, obs, detail in dis:
                acc.violation(kind, case, exp, obs, detail,
                              size=case_size(case),
                              standalone=standalone(case))
            acc.case(case, nt, outcome,
                     steps=sum(len(f['params'])
                               for f in lr.functions_of(case['fn'])) + 1)
            if has_unusable_variant(case):
                acc.count('cases_with_unusable_variant')
    return acc.result()


def replay(job):
    dis, nt, outcome, skipped = check_case(job['case'])
    return {'violates': any(d[0] == job['kind'] for d in dis),
            'skipped': skipped,
            'disagreements': [[d[0], repr(d[1])[:600], repr(d[2])[:600]]
                              for d in dis],
            'source': gen_source(job['case'])}


# ---- known-finding predicates (none open: both defects have fix patches) ---

def _pred_unusable_variant(v, **_):
    return has_unusable_variant(v['case'])


def _pred_wrap_or_prepend(v, **_):
    fn = v['case']['fn']
    return bool(fn.get('wraps') or fn.get('prepend'))


PREDICATES = {'unusable_variant': _pred_unusable_variant,
              'wrap_or_prepend': _pred_wrap_or_prepend}


def main(ctx):
    ctx.rule = (
        'E1: every signature of the stated family (parameter annotation x '
        'default kind x rates argument x prepend x wrap x variants x spec '
        'defaults, see bounds) is rendered to source text, exec-ed, compiled '
        'by the real SynthDef, decoded by mc/oracles/scgf.py and compared '
        'with mc/oracles/layout_ref.py; then called once in NRT mode. '
        'Distinct = literally different case. Non-trivial = the reference '
        'layout has >=2 rate groups, or an array parameter, or a lagged '
        'parameter.')
    ctx.assumptions += [
        'reference layout mc/oracles/layout_ref.py (group order ir,tr,ar,kr;'
        ' rates entry overrides annotation; numeric rates entry on a '
        'non-control-rate parameter is ignored as pinned by tests/'
        'test_synthdef.py; missing default = spec default or 0.0)',
        'SCgf-2 reader mc/oracles/scgf.py',
        'accepted as don\'t-care: alignment of rates with prepended '
        'parameters, order of per-function slot blocks under wrap, lag of '
        'slots beyond a shorter lag list, a lag list on a one-slot parameter '
        '(skipped), order of name table / variants / call pairs, number of '
        'control units per group, refusal or omission of unusable variants, '
        'refusal of a rates list longer than the parameter list (if built, '
        'the surplus entries must not disturb the parameters), refusal of a '
        'lag list longer than the parameter has slots (if built, slot j '
        'carries the j-th time)',
        'all defaults, lags and call values are float32-exact; compared '
        'with ==',
        'the body chooses Out.ar/Out.kr from the .rate of what it received; '
        'the Out rate is then compared with the reference group']
    fams = list(QUICK if ctx.tier == 'quick' else THOROUGH)
    if ctx.tier == 'quick':
        # the seed only selects which eighth of the next bound (three
        # wrapped sub-functions) is explored on top of the completed bounds
        k = core.pick_slice(ctx.seed, 8)
        fams.append((f'wrap three sub-functions (6 kinds), slice {k}/8', 16))
        ctx.extra['seed_selected_slice'] = f'wrap three sub-functions {k}/8'
    for name, of in fams:
        progenum.run(ctx, MODNAME, 'work',
                     [{'family': name, 'shard': i, 'of': of}
                      for i in range(of)], bound=name)
    ctx.extra['exhaustive_bounds'] = [n for n, _ in fams
                                      if not n.startswith('parametric')]
    ctx.extra['parametric_probes'] = [n for n, _ in fams
                                      if n.startswith('parametric')]
    ctx.extra['alphabets'] = {
        'annotation': ['none', 'ir', 'tr', 'ar', 'kr'],
        'default': ['missing', '=None', 'scalar', 'tuple of 1/2/3',
                    'explicit falsy: 0, 0.0, False, (0, x)',
                    'non-zero int, True, negative, tuple of ints, '
                    '(x, -y, 0)'],
        'rates entry': ['absent', None, 'ir', 'tr', 'ar', 'kr', 0.25,
                        [0.25, 0.5], 'wide: 0, 0.0, 1, 0.75, [0.75], '
                        '[0, 0.5], [0.5, 0], [0, 0], [0.25, 0.5, 0.75], '
                        '[1, 2], scaled by 2**position; 1-2 surplus entries'],
        'prepended value': ['int', '0', 'None', 'False',
                            'control signal of the enclosing function'],
        'entry point': ['SynthDef(name, f, keyword options)',
                        'SynthDef(name, f, positional options)',
                        '@synthdef', '@synthdef(options)'],
        'variant value': ['float', 'list (full, shorter)', '0', '0.0', 'int',
                          'no overrides', '31-character name', 'unusable'],
        'call value': ['number', '0', '0.0', 'bus-mapping string']}
