"""C04 - function parameters become correctly laid-out, correctly wired controls.

E1: graph-function *signatures* are generated as plain data, rendered to Python
source text (annotations and defaults are real syntax), exec-ed and compiled by
the real SynthDef in NRT mode.  The emitted bytes are decoded by the
independent SCgf-2 reader and compared with the reference layout of
mc/oracles/layout_ref.py: control array, name table, control units (class,
rate, special index, lag inputs), the control outputs every tagged Out of the
body received, variant blocks; then the definition is called and the `/s_new`
found in the NRT score is compared with the positional/keyword mapping."""

import itertools
import traceback

from mc import core, graphprog as gp
from mc.engines import progenum
from mc.oracles import scgf, layout_ref as lr

MODE = 'nrt'
MODNAME = 'mc.checks.c04'
DEFNAME = 'd'

ANN = [None, 'ir', 'tr', 'ar', 'kr']
RE = [None, 'ir', 'tr', 'ar', 'kr', 0.25, [0.25, 0.5]]
OUTER_NAMES = 'abcdefgh'
WRAP_NAMES = ['wxy', 'uvt', 'rsq']
# reduced (annotation, default kind) alphabets: every group, scalar and array
P6 = [(None, 'm'), (None, 's'), ('ir', 's'), ('tr', 't2'), ('ar', 's'),
      ('kr', 't2')]
P8 = P6 + [('ir', 't2'), ('ar', 't3')]
PREP = [(None, 'm'), ('ar', 's'), ('ir', 't2'), (None, 's')]
FALSY = {'z': 0, 'zf': 0.0, 'F': False}


# --------------------------------------------------------------------------
# Case construction (plain data)
# --------------------------------------------------------------------------

def mk_fn(fi, names, combos, rates=None, prepend=0, wraps=None):
    """combos: [(ann, default kind)] per parameter; default kinds: 'm' no
    default (turned into '=None' when Python syntax forbids it), 'n' =None,
    's' scalar, 't<k>' tuple of k, 'z'/'zf'/'F' the explicit falsy defaults
    0 / 0.0 / False, 'tz' the tuple (0, x).  Other values are tagged by
    function/position."""
    params = []
    all_m = True
    for i, (ann, dk) in enumerate(combos):
        base = 1024 * fi + 16 * (i + 1)
        if dk == 'm' and not all_m:
            dk = 'n'
        if dk != 'm':
            all_m = False
        if dk in ('m', 'n'):
            d = dk
        elif dk == 's':
            d = base + 0.5
        elif dk in FALSY:
            d = FALSY[dk]
        elif dk == 'tz':
            d = [0, base + 0.5]
        else:
            d = [float(base + 1 + j) for j in range(int(dk[1:]))]
        params.append([names[i], ann, d])
    return {'params': params, 'rates': rates, 'prepend': prepend,
            'tag': 100 * (fi + 1), 'wraps': wraps or []}


def default_call(fn):
    """all control parameters of the graph function positionally, the first
    parameter of the first wrapped function by keyword."""
    k = fn.get('prepend', 0)
    pos = [11 + 0.5 * j for j in range(len(fn['params']) - k)]
    kw = []
    fns = lr.functions_of(fn)
    if len(fns) > 1:
        f1 = fns[1]
        ps = f1['params'][f1.get('prepend', 0):]
        if ps:
            kw.append([ps[0][0], 77])
    return {'pos': pos, 'kw': kw}


def mk_case(fn, variants=None, specs=None, call='default'):
    return {'name': DEFNAME, 'fn': fn, 'variants': variants, 'specs': specs,
            'call': default_call(fn) if call == 'default' else call}


def rates_all(n):
    """every rates argument of length 0..n over RE (None = not given)."""
    yield None
    for L in range(1, n + 1):
        for r in itertools.product(RE, repeat=L):
            yield list(r)


def rates_single(n):
    """not given, or exactly one non-None entry at one position."""
    yield None
    for j in range(n):
        for e in RE[1:]:
            yield [None] * j + [e]


def sharded(prefixes, shard, of):
    for i, p in enumerate(prefixes):
        if i % of == shard:
            yield p


# ---- families: generator(shard, of) -> cases -------------------------------

def fam_sig(n, dks, rates_fn):
    per = [(a, k) for a in ANN for k in dks]

    def gen(shard, of):
        for combo in sharded(itertools.product(per, repeat=n), shard, of):
            for rates in rates_fn(n):
                yield mk_case(mk_fn(0, OUTER_NAMES, list(combo), rates))
    return gen


def fam_prepend(nmax):
    per = [(a, k) for a in ANN for k in ('m', 's', 't2')]

    def prefixes():
        for n in range(1, nmax + 1):
            for k in (1, 2):
                if k > n:
                    continue
                for pre in itertools.product(PREP, repeat=k):
                    for combo in itertools.product(per, repeat=n - k):
                        yield n, k, list(pre) + list(combo)

    def gen(shard, of):
        for n, k, combo in sharded(prefixes(), shard, of):
            for rates in rates_single(n):
                yield mk_case(mk_fn(0, OUTER_NAMES, combo, rates, prepend=k))
    return gen


def inner_rates(n):
    yield None
    yield [0.25]
    yield ['ir']
    if n >= 2:
        yield [None, 'tr']


def fam_wrap(P):
    def prefixes():
        for no in range(0, 3):
            for oc in itertools.product(P, repeat=no):
                for ni in (1, 2):
                    for ic in itertools.product(P, repeat=ni):
                        yield list(oc), list(ic)

    def gen(shard, of):
        for oc, ic in sharded(prefixes(), shard, of):
            for pos in (0, 1):
                for ipre in (0, 1):
                    for ir in inner_rates(len(ic)):
                        combo = ([('ar', 's')] if ipre else []) + ic
                        inner = mk_fn(1, WRAP_NAMES[0] if not ipre else
                                      'q' + WRAP_NAMES[0], combo, ir,
                                      prepend=ipre)
                        fn = mk_fn(0, OUTER_NAMES, oc, None,
                                   wraps=[{'pos': pos, 'fn': inner}])
                        yield mk_case(fn)
    return gen


def fam_wrap2(P):
    def prefixes():
        for no in (0, 1):
            for oc in itertools.product(P, repeat=no):
                for c1 in P:
                    for c2 in P:
                        yield list(oc), c1, c2

    def gen(shard, of):
        for oc, c1, c2 in sharded(prefixes(), shard, of):
            for p1, p2 in ((0, 0), (0, 1), (1, 1), (1, 0)):
                f1 = mk_fn(1, WRAP_NAMES[0], [c1])
                f2 = mk_fn(2, WRAP_NAMES[1], [c2])
                yield mk_case(mk_fn(0, OUTER_NAMES, oc, wraps=[
                    {'pos': p1, 'fn': f1}, {'pos': p2, 'fn': f2}]))
            for p1 in (0, 1):
                for p2 in (0, 1):
                    f2 = mk_fn(2, WRAP_NAMES[1], [c2])
                    f1 = mk_fn(1, WRAP_NAMES[0], [c1],
                               wraps=[{'pos': p2, 'fn': f2}])
                    yield mk_case(mk_fn(0, OUTER_NAMES, oc, wraps=[
                        {'pos': p1, 'fn': f1}]))
    return gen


def variant_options(case):
    """Variant arguments derived from the controls of the case."""
    exp = lr.expected(case)
    ctls = sorted((s, nm) for nm, s in exp['names'].items())
    size = {nm: len(exp['wiring'][b]['slots'])
            for b in exp['wiring'] for nm in [exp['wiring'][b]['name']]}
    names = [nm for _, nm in ctls]
    if not names:
        return
    opts = []
    for k, nm in enumerate(names):
        opts.append([['v', [[nm, 4096.0 + k]]]])
        if size[nm] > 1:
            opts.append([['v', [[nm, [4100.0 + j for j in range(size[nm])]]]]])
    opts.append([['v', [[nm, 4096.0 + k] for k, nm in enumerate(names)]]])
    opts.append([['v', [[names[0], 4096.0]]], ['w', [[names[-1], 4097.0]]]])
    # unusable variants (statement decides nothing about them except that
    # what is emitted stays a definition whose present blocks are right)
    good = ['g', [[names[-1], 4098.0]]]
    unknown = ['u', [['zz', 4099.0]]]
    long_ = ['L' * 31, [[names[0], 4100.0]]]
    over = ['o', [[names[0], [4101.0 + j for j in range(size[names[0]] + 1)]]]]
    mixed = ['x', [[names[0], 4102.0], ['zz', 4103.0]]]
    opts += [[unknown], [long_], [over], [mixed], [unknown, good],
             [good, unknown], [long_, good], [good, over]]
    for o in opts:
        yield o


def fam_variants():
    def prefixes():
        for n in (1, 2):
            for combo in itertools.product(P6, repeat=n):
                for rates in (None, [0.25]):
                    for wrap in (0, 1):
                        yield list(combo), rates, wrap

    def gen(shard, of):
        for combo, rates, wrap in sharded(prefixes(), shard, of):
            wraps = [{'pos': 1, 'fn': mk_fn(1, WRAP_NAMES[0],
                                            [('ir', 't2')])}] if wrap else []
            fn = mk_fn(0, OUTER_NAMES, combo, rates, wraps=wraps)
            for v in variant_options(mk_case(fn)):
                yield mk_case(fn, variants=v)
    return gen


def fam_meta():
    """spec defaults apply to missing / =None defaults only: every explicit
    default - the falsy ones 0, 0.0, False and a tuple with a zero included -
    must survive a (non-zero) spec default for its name, in every group."""
    per = [(a, k) for a in ANN
           for k in ('m', 'n', 's', 'z', 'zf', 'F', 'tz')]
    inners = [None,
              ([(None, 'm'), ('ir', 'n')], []),
              ([(None, 'm'), ('ir', 'n')], ['x']),
              ([(None, 'z'), ('ir', 'zf')], ['w', 'x']),
              ([('tr', 'F'), ('ar', 'tz')], ['w', 'x'])]

    def prefixes():
        for n in (1, 2):
            for combo in itertools.product(per, repeat=n):
                yield list(combo)

    def gen(shard, of):
        for combo in sharded(prefixes(), shard, of):
            n = len(combo)
            for pre in (0, 1):
                names = list(OUTER_NAMES[pre:n + pre])
                subsets = [[]] + [[x] for x in names] + \
                    ([names] if n == 2 else []) + [['zz']] + \
                    ([['a'] + names] if pre else [])
                full = [(None, 'm')] * pre + combo
                for inner in (inners[:1] if pre else inners if n == 1
                              else [inners[0], inners[3]]):
                    wraps = [{'pos': 0, 'fn': mk_fn(
                        1, WRAP_NAMES[0], inner[0])}] if inner else []
                    for sub in subsets:
                        keys = list(sub) + (inner[1] if inner else [])
                        specs = {k: 2048.0 + 16 * j + 0.25
                                 for j, k in enumerate(keys)}
                        fn = mk_fn(0, OUTER_NAMES, full, prepend=pre,
                                   wraps=wraps)
                        yield mk_case(fn, specs=specs)
    return gen


def fam_call():
    def prefixes():
        for n in range(0, 4):
            for pre in (0, 1):
                if pre > n:
                    continue
                for wrap in (0, 1):
                    yield n, pre, wrap

    def gen(shard, of):
        for n, pre, wrap in sharded(prefixes(), shard, of):
            wraps = [{'pos': 0, 'fn': mk_fn(1, WRAP_NAMES[0],
                                            [(None, 's'), ('ir', 's')])}] \
                if wrap else []
            fn = mk_fn(0, OUTER_NAMES, [(None, 's')] * n, prepend=pre,
                       wraps=wraps)
            ctl = [p[0] for p in fn['params']][pre:]
            inner = ['w', 'x'] if wrap else []
            for npos in range(len(ctl) + 1):
                rest = ctl[npos:] + inner
                kws = [[]] + [[x] for x in rest] + \
                    [list(c) for c in itertools.combinations(rest, 2)] + \
                    [list(reversed(c))
                     for c in itertools.combinations(rest, 2)]
                for kw in kws:
                    call = {'pos': [11 + 0.5 * j for j in range(npos)],
                            'kw': [[k, 70 + j] for j, k in enumerate(kw)]}
                    if call != default_call(fn):    # that one is in the
                        yield mk_case(fn, call=call)  # sig/prepend families
    return gen


def big_cases(n):
    names = [f'p{i}' for i in range(n)]
    S = (None, 's')
    yield mk_case(mk_fn(0, names, [S] * n, [0.25] * n))
    for j in range(n):
        yield mk_case(mk_fn(0, names, [S] * n, [None] * j + [0.5]))
    dks = ['s', 't2', 'n', 't3']
    for r in range(5):
        combo = [(ANN[(i + r) % 5], dks[i % 4]) for i in range(n)]
        yield mk_case(mk_fn(0, names, combo))
        yield mk_case(mk_fn(0, names, combo,
                            [0.25 if i % 3 == 0 else None
                             for i in range(n)]))
        yield mk_case(mk_fn(0, names, combo,
                            [[0.25, 0.5] if dks[i % 4][0] == 't' else 0.5
                             for i in range(n)]))
    yield mk_case(mk_fn(0, names, [('kr', 't3')] * n, [[0.25, 0.5]] * n))
    for j in range(n):
        yield mk_case(mk_fn(0, names, [(None, 't2')] * n,
                            [None] * j + [[0.25, 0.5]]))


def fam_big(ns):
    def gen(shard, of):
        for c in sharded((c for n in ns for c in big_cases(n)), shard, of):
            yield c
    return gen


FAMILIES = {
    'sig<=2 full alphabets, every rates list':
        lambda: [fam_sig(n, ('m', 's', 't1', 't2', 't3'), rates_all)
                 for n in (0, 1, 2)],
    'sig<=2 full alphabets + falsy defaults, every rates list':
        lambda: [fam_sig(n, ('m', 's', 'z', 'F', 't1', 't2', 't3'),
                         rates_all) for n in (0, 1, 2)],
    'sig3 reduced defaults, <=1 rates entry':
        lambda: [fam_sig(3, ('m', 's', 't2'), rates_single)],
    'sig3 every rates list':
        lambda: [fam_sig(3, ('m', 's', 't2'), rates_all)],
    'sig4 scalar/pair defaults, <=1 rates entry':
        lambda: [fam_sig(4, ('s', 't2'), rates_single)],
    'prepend 1-2 of <=3 parameters': lambda: [fam_prepend(3)],
    'prepend 1-2 of <=4 parameters': lambda: [fam_prepend(4)],
    'wrap one sub-function (6 kinds/param)': lambda: [fam_wrap(P6)],
    'wrap one sub-function (8 kinds/param)': lambda: [fam_wrap(P8)],
    'wrap two sub-functions, sibling/nested': lambda: [fam_wrap2(P6)],
    'wrap two sub-functions, sibling/nested (8 kinds)':
        lambda: [fam_wrap2(P8)],
    'variants': lambda: [fam_variants()],
    'metadata spec defaults': lambda: [fam_meta()],
    'call mapping': lambda: [fam_call()],
    'parametric 16/17 parameters': lambda: [fam_big((16, 17))],
    'parametric 15..40 parameters':
        lambda: [fam_big((15, 16, 17, 18, 31, 32, 33, 40))],
}
QUICK = [('sig<=2 full alphabets, every rates list', 64),
         ('sig3 reduced defaults, <=1 rates entry', 64),
         ('prepend 1-2 of <=3 parameters', 32),
         ('wrap one sub-function (6 kinds/param)', 64),
         ('wrap two sub-functions, sibling/nested', 16),
         ('variants', 16), ('metadata spec defaults', 64),
         ('call mapping', 8), ('parametric 16/17 parameters', 16)]
THOROUGH = [('sig<=2 full alphabets + falsy defaults, every rates list', 64),
            ('sig3 every rates list', 512),      # contains the quick sig3
            ('sig4 scalar/pair defaults, <=1 rates entry', 512),
            ('prepend 1-2 of <=4 parameters', 128),
            ('wrap one sub-function (8 kinds/param)', 128),
            ('wrap two sub-functions, sibling/nested (8 kinds)', 32),
            ('variants', 16), ('metadata spec defaults', 64),
            ('call mapping', 8), ('parametric 15..40 parameters', 32)]


# --------------------------------------------------------------------------
# Rendering a case to source text and running it through the library
# --------------------------------------------------------------------------

def _lit(x):
    return repr(x)


def gen_source(case):
    """Python source of all graph functions of the case (g0 = the function
    given to SynthDef) plus the construction statement."""
    fns = lr.functions_of(case['fn'])
    index = {id(f): i for i, f in enumerate(fns)}
    lines = []

    def emit(f):
        i = index[id(f)]
        for w in f.get('wraps') or []:
            emit(w['fn'])
        sig = []
        for name, ann, d in f['params']:
            s = name
            if ann is not None:
                s += f': {ann!r}'
            if d == 'n':
                s += ' = None'
            elif d != 'm':
                s += ' = ' + (_lit(tuple(d)) if isinstance(d, list)
                              else _lit(d))
            sig.append(s)
        lines.append(f'def g{i}({", ".join(sig)}):')
        k = f.get('prepend', 0)
        body = []
        for j, (name, _, _) in enumerate(f['params']):
            if j < k:
                body.append(f'_seen.append(({i}, {j}, {name}))')

        def wrapcall(w):
            g = w['fn']
            args = [f'g{index[id(g)]}']
            if g.get('rates') is not None:
                args.append(f'rates={_lit(g["rates"])}')
            if g.get('prepend', 0):
                args.append('prepend=' + _lit(
                    [900 + 10 * index[id(g)] + q
                     for q in range(g['prepend'])]))
            return f'SynthDef.wrap({", ".join(args)})'
        for w in f.get('wraps') or []:
            if w['pos'] == 0:
                body.append(wrapcall(w))
        for j, (name, _, _) in enumerate(f['params']):
            if j >= k:
                body.append(f'_sink({f["tag"] + j}, {name})')
        for w in f.get('wraps') or []:
            if w['pos'] == 1:
                body.append(wrapcall(w))
        if not body:
            body.append('pass')
        lines.extend('    ' + b for b in body)
        lines.append('')
    emit(case['fn'])
    f0 = case['fn']
    args = [repr(case['name']), 'g0']
    if f0.get('rates') is not None:
        args.append(f'rates={_lit(f0["rates"])}')
    if f0.get('prepend', 0):
        args.append('prepend=' + _lit([900 + q
                                       for q in range(f0['prepend'])]))
    if case.get('variants') is not None:
        vs = ', '.join(
            f'{vn!r}: {{' + ', '.join(f'{cn!r}: {_lit(v)}' for cn, v in pairs)
            + '}' for vn, pairs in case['variants'])
        args.append('variants={' + vs + '}')
    if case.get('specs') is not None:
        sp = ', '.join(f'{k!r}: ControlSpec(0, 8192, default={_lit(v)})'
                       for k, v in sorted(case['specs'].items()))
        args.append("metadata={'specs': {" + sp + '}}')
    lines.append(f'sd = SynthDef({", ".join(args)})')
    return '\n'.join(lines) + '\n'


PRELUDE = '''import sc3
sc3.init('nrt')
from sc3.base.main import main
from sc3.synth.synthdef import SynthDef
from sc3.synth.spec import ControlSpec
from sc3.synth.ugens.inout import Out
_seen = []
def _sink(bus, x):
    xs = x if isinstance(x, list) else [x]
    (Out.ar if all(e.rate == 'audio' for e in xs) else Out.kr)(bus, x)

'''


def standalone(case):
    call = case.get('call') or {'pos': [], 'kw': []}
    args = [repr(v) for v in call['pos']] + \
        [f'{k}={v!r}' for k, v in call['kw']]
    return (PRELUDE + gen_source(case) +
            'data = bytes(sd.as_bytes())   # decode with any SCgf-2 reader\n'
            'print(sd._all_control_names, sd._controls, sd._children)\n'
            f'main.reset(); sd({", ".join(args)})\n'
            'print(main.process().list)\n')


def _where(e):
    tb = traceback.extract_tb(e.__traceback__)
    return next((f.name for f in reversed(tb) if '/sc3/' in f.filename), '?')


def run_case(case):
    """Execute the case on the real library. -> observation dict."""
    from sc3.base.main import main
    from sc3.synth.synthdef import SynthDef
    from sc3.synth.spec import ControlSpec
    from sc3.synth.ugens.inout import Out
    seen = []

    shapes = []

    def sink(bus, x):
        shapes.append([bus, isinstance(x, list),
                       len(x) if isinstance(x, list) else 1])
        xs = x if isinstance(x, list) else [x]
        if all(getattr(e, 'rate', None) == 'audio' for e in xs):
            Out.ar(bus, x)
        else:
            Out.kr(bus, x)

    scope = {'SynthDef': SynthDef, 'ControlSpec': ControlSpec, '_seen': seen,
             '_sink': sink}
    obs = {}
    src = gen_source(case)
    try:
        exec(compile(src, '<c04 case>', 'exec'), scope)
        sd = scope['sd']
        data = gp.sd_bytes(sd)
    except Exception as e:
        main._current_synthdef = None
        obs['raised'] = f'{type(e).__name__}@{_where(e)}'
        obs['error'] = repr(e)[:300] + (
            ' <- ' + repr(e.__cause__)[:200] if e.__cause__ else '')
        return obs
    obs['bytes'] = data
    obs['seen'] = [[i, j, v if isinstance(v, (int, float)) else repr(v)]
                   for i, j, v in seen]
    obs['shapes'] = sorted(shapes)
    call = case.get('call')
    if call is not None:
        main.reset()
        try:
            sd(*call['pos'], **{k: v for k, v in call['kw']})
            score = main.process()
            msgs = [list(m) for b in score.list for m in b[1:]
                    if isinstance(m, list) and m and m[0] == '/s_new']
            for m in msgs:       # node ids depend on the worker's history
                if len(m) > 2:
                    m[2] = 'ID'
            obs['s_new'] = msgs
        except Exception as e:
            obs['call_raised'] = f'{type(e).__name__}@{_where(e)}: ' \
                + repr(e)[:200]
        finally:
            main.reset()
    return obs


def has_unusable_variant(case):
    try:
        return not lr.expected(case)['variants_exact']
    except lr.Undecided:
        return False


def check_case(case):
    """-> (disagreements, nontrivial, outcome, skipped reason|None)"""
    und = lr.undecided(case)
    if und:
        return [], False, None, und
    nt = lr.nontrivial(case)
    obs = run_case(case)
    sa = None
    dis = []
    unusable = has_unusable_variant(case)
    if 'raised' in obs:
        if unusable:
            # refusing an unusable variant is an acceptable answer
            return [], nt, ['refused', obs['raised']], None
        kind = 'build-raises-' + obs['raised']
        return [(kind, 'a compiled definition', obs['error'],
                 'well-formed signature rejected')], nt, kind, None
    try:
        defs = scgf.decode(obs['bytes'])['defs']
        if len(defs) != 1:
            raise scgf.FormatError(f'{len(defs)} definitions')
        d = defs[0]
        bad = scgf.validate(d)
        if bad:
            raise scgf.FormatError('; '.join(bad[:3]))
    except scgf.FormatError as e:
        kind = 'definition-unparsable' + \
            ('-unusable-variant' if unusable else '')
        return [(kind, 'SCgf v2 definition', repr(e),
                 'variant count and blocks' if unusable else '')], nt, \
            kind, None
    if d['name'] != case['name']:
        dis.append(('definition-name-differs', case['name'], d['name'], ''))
    dis += lr.check(case, d)
    # shape of what the body received (scalar parameter: one signal; tuple
    # default: a list of that many signals)
    exp0 = lr.expected(case)
    shbad = []
    got_sh = {b: (il, n) for b, il, n in obs['shapes']}
    for bus, w in sorted(exp0['wiring'].items()):
        il, n = got_sh.get(bus, (None, None))
        ok = n == len(w['slots']) and (
            w['shape'] == 'any' or il == (w['shape'] == 'list'))
        if not ok:
            shbad.append([w['name'], w['shape'], len(w['slots']), il, n])
    if shbad or len(obs['shapes']) != len(exp0['wiring']):
        dis.append(('body-argument-shape-differs',
                    [[w['name'], w['shape'], len(w['slots'])]
                     for _, w in sorted(exp0['wiring'].items())],
                    obs['shapes'], '[bus, is list, length] per parameter'))
    # prepended values reach the function unchanged
    want_seen = []
    for i, f in enumerate(lr.functions_of(case['fn'])):
        for q in range(f.get('prepend', 0)):
            want_seen.append([i, q, 900 + 10 * i + q])
    if sorted(obs['seen']) != sorted(want_seen):
        dis.append(('prepended-values-differ', want_seen, obs['seen'],
                    '[function, position, value received]'))
    # calling the definition
    if case.get('call') is not None:
        suffix = '-wrap' if case['fn'].get('wraps') else \
            '-prepend' if case['fn'].get('prepend') else ''
        want = lr.call_expected(case)
        if 'call_raised' in obs:
            dis.append(('call-raises' + suffix, want, obs['call_raised'],
                        ''))
        else:
            msgs = obs['s_new']
            got = [lr.call_observed(m) for m in msgs]
            okhead = len(msgs) == 1 and msgs[0][1] == case['name']
            if not okhead or got != [want]:
                dis.append(('call-args-differ' + suffix, want,
                            msgs, '(control name, value) pairs of the one '
                            '/s_new in the NRT score'))
    outcome = [d['params'], sorted(d['param_names']),
               [[u['name'], u['rate'], u['special'], u['inputs']]
                for u in d['units']], d['variants'], obs.get('s_new')]
    return dis, nt, outcome, None


def case_size(case):
    fns = lr.functions_of(case['fn'])
    return sum(len(f['params']) for f in fns) * 10000 + \
        len(core.canon(case))


def work(job):
    acc = progenum.Acc()
    for gen in FAMILIES[job['family']]():
        for case in gen(job['shard'], job['of']):
            dis, nt, outcome, skipped = check_case(case)
            if skipped:
                acc.count('skipped_undecided')
                continue
            for kind, exp, obs, detail in dis:
                acc.violation(kind, case, exp, obs, detail,
                              size=case_size(case),
                              standalone=standalone(case))
            acc.case(case, nt, outcome,
                     steps=sum(len(f['params'])
                               for f in lr.functions_of(case['fn'])) + 1)
            if has_unusable_variant(case):
                acc.count('cases_with_unusable_variant')
    return acc.result()


def replay(job):
    dis, nt, outcome, skipped = check_case(job['case'])
    return {'violates': any(d[0] == job['kind'] for d in dis),
            'skipped': skipped,
            'disagreements': [[d[0], repr(d[1])[:600], repr(d[2])[:600]]
                              for d in dis],
            'source': gen_source(job['case'])}


# ---- known-finding predicates (none open: both defects have fix patches) ---

def _pred_unusable_variant(v, **_):
    return has_unusable_variant(v['case'])


def _pred_wrap_or_prepend(v, **_):
    fn = v['case']['fn']
    return bool(fn.get('wraps') or fn.get('prepend'))


PREDICATES = {'unusable_variant': _pred_unusable_variant,
              'wrap_or_prepend': _pred_wrap_or_prepend}


def main(ctx):
    ctx.rule = (
        'E1: every signature of the stated family (parameter annotation x '
        'default kind x rates argument x prepend x wrap x variants x spec '
        'defaults, see bounds) is rendered to source text, exec-ed, compiled '
        'by the real SynthDef, decoded by mc/oracles/scgf.py and compared '
        'with mc/oracles/layout_ref.py; then called once in NRT mode. '
        'Distinct = literally different case. Non-trivial = the reference '
        'layout has >=2 rate groups, or an array parameter, or a lagged '
        'parameter.')
    ctx.assumptions += [
        'reference layout mc/oracles/layout_ref.py (group order ir,tr,ar,kr;'
        ' rates entry overrides annotation; numeric rates entry on a '
        'non-control-rate parameter is ignored as pinned by tests/'
        'test_synthdef.py; missing default = spec default or 0.0)',
        'SCgf-2 reader mc/oracles/scgf.py',
        'accepted as don\'t-care: alignment of rates with prepended '
        'parameters, order of per-function slot blocks under wrap, lag of '
        'slots beyond a shorter lag list, a lag list on a one-slot parameter '
        '(skipped), order of name table / variants / call pairs, number of '
        'control units per group, refusal or omission of unusable variants',
        'all defaults, lags and call values are float32-exact; compared '
        'with ==',
        'the body chooses Out.ar/Out.kr from the .rate of what it received; '
        'the Out rate is then compared with the reference group']
    fams = QUICK if ctx.tier == 'quick' else THOROUGH
    for name, of in fams:
        progenum.run(ctx, MODNAME, 'work',
                     [{'family': name, 'shard': i, 'of': of}
                      for i in range(of)], bound=name)
    ctx.extra['exhaustive_bounds'] = [n for n, _ in fams
                                      if not n.startswith('parametric')]
    ctx.extra['parametric_probes'] = [n for n, _ in fams
                                      if n.startswith('parametric')]
    ctx.extra['alphabets'] = {
        'annotation': ['none', 'ir', 'tr', 'ar', 'kr'],
        'default': ['missing', '=None', 'scalar', 'tuple of 1/2/3',
                    'explicit falsy: 0, 0.0, False, (0, x)'],
        'rates entry': ['absent', None, 'ir', 'tr', 'ar', 'kr', 0.25,
                        [0.25, 0.5]]}
