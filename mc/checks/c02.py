"""C02 - Emitted definitions are well-formed, topologically ordered SCgf v2.

E1 (progenum): (A) the straight-line programs of C01 (mc/graphprog.py) and
(B) *extended* graph programs (mc/oracles/xgraph.py: multi-output units,
nested multichannel expansion, width-first units, parameters), (C) definition
names of critical lengths and (D) scaled families are compiled by the real
SynthDef.  The emitted bytes must parse strictly (mc/oracles/scgf.py, all
bytes consumed, one definition), pass reference integrity (scgf.validate) and
the mutual-consistency rules of xgraph.form_problems; side-effecting units,
their wiring and the width-first order are compared with the reference run of
the AST; the library's own reader (SynthDesc.new_from, SynthDesc._read_stream,
SynthDesc.def_name_from_bytes) must accept the bytes and recover name,
controls, gate flag and bus units.
E4 (single-fault enumeration): every valid base program with one operand
replaced by nan / 'str' / None / [] / a control-rate signal where audio rate is
required must be rejected with an exception and yield no bytes."""

import io
import math
import re
import sys
import traceback

from mc import core, graphprog as gp
from mc.engines import progenum
from mc.oracles import scgf, xgraph as xg, zoo
from mc.checks import c01

MODE = 'nrt'
MODNAME = 'mc.checks.c02'


# --------------------------------------------------------------------------
# real-library backend of xgraph.execute
# --------------------------------------------------------------------------

class RealBackend:
    def __init__(self, prog, plan, env):
        from sc3.synth.ugens import (oscillators, noise, filter, inout, pan,
                                     bufio, fft)
        from sc3.synth import ugen
        self.m = dict(osc=oscillators, noise=noise, flt=filter, io=inout,
                      pan=pan, buf=bufio, fft=fft, ugen=ugen)
        self.plan = list(plan) if plan is not None else None
        self.env = env
        self.stamp = 0
        self.offsetout_kr = (prog.get('fault') or {}).get('value') == \
            'offsetout-kr'

    def params(self, variant):
        return self.env

    def fault_value(self, value, t):
        if value == 'nan':
            return float('nan')
        if value == 'str':
            return 'str'
        if value == 'none':
            return None
        if value == 'empty':
            return []
        if value == 'krsig':
            return self.m['osc'].SinOsc.kr(t)
        if value == 'tuple':
            # tuples are never expanded: the unit keeps the pair as ONE
            # input; the library must either refuse that or write it well
            c = self.m['osc'].SinOsc
            return (c.ar(t), c.ar(t))
        if value == 'ctuple':
            # a pair of numbers that are constants of the graph anyway: two
            # stateful (never removed) units hold them
            n = self.m['noise'].LFNoise0
            n.kr(t)
            n.kr(t - 1.0)
            return (t, t - 1.0)
        if value == 'huge':
            # a number without a single-precision representation: the
            # definition cannot be written
            return 1e39
        raise ValueError(value)

    def flatten(self, v):
        if isinstance(v, list):
            out = []
            for x in v:
                out += self.flatten(x)
            return out
        return [v]

    def sin(self, rate, freq):
        c = self.m['osc'].SinOsc
        return c.ar(freq) if rate == 'ar' else c.kr(freq)

    def noise(self, freq):
        return self.m['noise'].LFNoise0.ar(freq)

    def inn(self, rate, bus):
        c = self.m['io'].In
        return c.ar(bus, 2) if rate == 'ar' else c.kr(bus, 2)

    def bin(self, kind, bus, lag):
        io = self.m['io']
        if kind == 'InFeedback':
            return io.InFeedback.ar(bus, 2)
        if kind == 'LagIn':
            return io.LagIn.kr(bus, 2, lag)
        if kind == 'InTrig':
            return io.InTrig.kr(bus, 2)
        if kind == 'LocalIn.ar':
            return io.LocalIn.ar(2, bus)
        if kind == 'LocalIn.kr':
            return io.LocalIn.kr(2, bus)
        if kind == 'SoundIn':
            return io.SoundIn.ar(bus)
        raise ValueError(kind)

    def pan(self, x, level):
        return self.m['pan'].Pan2.ar(x, 0.5, level)

    def mul(self, a, b):
        return a * b

    def add(self, a, b):
        return a + b

    def madd(self, x, m, a):
        return x.madd(m, a)

    def sum3(self, a, b, c):
        return self.m['ugen'].ChannelList([a, b, c]).sum()

    def num(self, x):
        return x

    def lpf(self, x, freq):
        return self.m['flt'].LPF.ar(x, freq)

    def sel(self, x, j):
        return x[j]

    def seed(self, rate, seed):
        c = self.m['noise'].RandSeed
        return c.ir(1, seed) if rate == 'ir' else c.kr(1, seed)

    def rid(self, i):
        return self.m['noise'].RandID.ir(i)

    def lbuf(self, frames):
        return self.m['buf'].LocalBuf.new(frames, 1)

    def setbuf(self, buf, value):
        return buf.set([value])

    def clearbuf(self, buf):
        return buf.clear()

    def bufrd(self, buf, phase):
        return self.m['buf'].BufRd.kr(1, buf, phase, 1, 2)

    def fft(self, buf, x, winsize):
        return self.m['fft'].FFT.kr(buf, x, 0.5, 0, 1, winsize)

    def pv(self, chain, thresh):
        return self.m['fft'].PV_MagAbove.new(chain, thresh)

    def ifft(self, chain, winsize):
        return self.m['fft'].IFFT.ar(chain, 0, winsize)

    def out(self, bus, chans, force=None, cls='Out', xfade=None):
        if force == 'ar':
            rate = 'ar'
        elif self.plan:
            rate = self.plan.pop(0)
        else:
            # faulted programs have no reference plan: control-rate outputs
            # accept every signal rate
            rate = 'kr' if cls != 'OffsetOut' or self.offsetout_kr else 'ar'
        c = getattr(self.m['io'], cls)
        f = c.ar if rate == 'ar' else c.kr
        if cls == 'XOut':
            f(bus, xfade, chans)
        elif cls == 'LocalOut':
            f(chans)
        else:
            f(bus, chans)


def make_xfunction(prog, plan):
    """The real graph function of an extended program."""
    variant = prog.get('params', 'none')

    def run(env):
        xg.execute(prog, RealBackend(prog, plan, env))

    if variant == 'none':
        def graph():
            run({})
    elif variant == 'gate':
        def graph(gate=1.0):
            run({'gate': gate})
    elif variant == 'mixed':
        def graph(freq=(0.5, 2.0, 4.0), gate=1.0, t: 'tr' = 0.5,
                  a: 'ar' = 0.25, i: 'ir' = 8.0):
            run({'gate': gate, 'freq': freq, 't': t, 'a': a, 'i': i})
    elif variant.startswith('arr'):
        defaults = xg.param_spec(variant)[0][1]

        def graph(freq=defaults):
            run({'freq': freq})
    elif variant.startswith('named') or variant.startswith('grp_'):
        # def graph(p0=0.25, p1: 'ir' = 0.5, ...) / tuple defaults
        spec = xg.param_spec(variant)
        sig = ', '.join(
            f'{nm}={dv!r}' if kind == 'kr' else f'{nm}: {kind!r} = {dv!r}'
            for nm, dv, kind in spec)
        env = ', '.join(f'{nm!r}: {nm}' for nm, _, _ in spec)
        ns = {'run': run}
        exec(f'def graph({sig}):\n    run({{{env}}})\n', ns)
        graph = ns['graph']
    elif variant == 'lag':
        def graph(freq=(0.5, 2.0, 4.0), gate=1.0, amp=0.25):
            run({'freq': freq, 'gate': gate, 'amp': amp})
    elif variant == 'lag20' or variant.startswith('lagarr'):
        defaults = xg.param_spec(variant)[0][1]
        if len(defaults) == 1:
            defaults = defaults[0]

        def graph(freq=defaults):
            run({'freq': freq if isinstance(freq, list) else [freq]})
    elif variant == 'rates':
        def graph(a=1.0, b: 'kr' = 2.0, c=3.0, d: 'ir' = 4.0,
                  e: 'ar' = 5.0):
            run({'a': a, 'b': b, 'c': c, 'd': d, 'e': e})
    elif variant == 'prepend':
        def graph(x, y, freq=2.0, gate=1.0):
            if not (isinstance(x, float) and x == 0.5 and
                    isinstance(y, float) and y == 7.0):
                raise AssertionError(
                    f'prepended values arrived as {x!r}, {y!r}')
            run({'freq': freq, 'gate': gate})
    elif variant == 'wrap':
        from sc3.synth.synthdef import SynthDef

        def graph(gate=1.0):
            got = {}

            def inner(z, freq=2.0, a: 'ar' = 0.25):
                if not (isinstance(z, float) and z == 3.0):
                    raise AssertionError(f'prepended value arrived as {z!r}')
                got.update(freq=freq, a=a)
            SynthDef.wrap(inner, rates=['ir'], prepend=[3.0])
            run({'gate': gate, 'freq': got['freq'], 'a': got['a']})
    elif variant in xg.WRAP_VARIANTS:
        from sc3.synth.synthdef import SynthDef
        from sc3.synth.ugens import inout as io
        got = {}

        def keep(**kw):
            got.update(kw)

        if variant == 'wrap2':
            def graph(gate=1.0):
                def one(wa_f=2.0, wa_a: 'ir' = (0.25, 3.0)):
                    keep(wa_f=wa_f, wa_a=wa_a)

                def two(wb_d=0.5, wb_p: 'ar' = (0.75, 1.25),
                        wb_t: 'tr' = 1.5):
                    keep(wb_d=wb_d, wb_p=wb_p, wb_t=wb_t)
                SynthDef.wrap(one)
                SynthDef.wrap(two)
                run(dict(got, gate=gate))
        elif variant == 'wrap3':
            def graph(gate=1.0):
                def one(wc_a=2.0, wc_b: 'tr' = (0.25, 0.5)):
                    keep(wc_a=wc_a, wc_b=wc_b)

                def two(wd_a: 'ir' = 3.0, wd_b=(0.75, 1.0, 1.25)):
                    keep(wd_a=wd_a, wd_b=wd_b)

                def three(we_a: 'ar' = (1.5, 1.75), we_b=4.0):
                    keep(we_a=we_a, we_b=we_b)
                SynthDef.wrap(one)
                SynthDef.wrap(two)
                SynthDef.wrap(three)
                run(dict(got, gate=gate))
        elif variant == 'wrapman':
            def graph(gate=1.0):
                def one(wf_a=2.0, wf_b: 'ir' = (0.25, 0.5)):
                    keep(wf_a=wf_a, wf_b=wf_b)
                SynthDef.wrap(one)
                io.Control.add_name('wf_c')
                keep(wf_c=io.Control.kr([0.75, 1.0]))
                io.AudioControl.add_name('wf_d')
                keep(wf_d=io.AudioControl.ar(1.25))
                run(dict(got, gate=gate))
        elif variant == 'wrapnest':
            def graph(gate=1.0):
                def deep(wh_a: 'tr' = 0.75, wh_b=(1.0, 1.25)):
                    keep(wh_a=wh_a, wh_b=wh_b)

                def one(wg_a=2.0, wg_b: 'ir' = (0.25, 0.5)):
                    keep(wg_a=wg_a, wg_b=wg_b)
                    SynthDef.wrap(deep)

                def sib(wi_a=3.0, wi_b: 'ar' = (1.5, 1.75)):
                    keep(wi_a=wi_a, wi_b=wi_b)
                SynthDef.wrap(one)
                SynthDef.wrap(sib)
                run(dict(got, gate=gate))
        else:
            def graph():
                def one(wj_a=(0.25, 0.5), wj_b: 'ir' = 2.0):
                    keep(wj_a=wj_a, wj_b=wj_b)

                def none():
                    pass

                def two(wk_a: 'tr' = 3.0, wk_b: 'ar' = (0.75, 1.0, 1.25)):
                    keep(wk_a=wk_a, wk_b=wk_b)
                SynthDef.wrap(one)
                SynthDef.wrap(none)
                SynthDef.wrap(two)
                run(dict(got))
    elif variant == 'manual':
        from sc3.synth.ugens import inout as io

        def graph():
            io.Control.add_name('freq')
            freq = io.Control.kr([0.5, 2.0])
            io.AudioControl.add_name('a')
            a = io.AudioControl.ar(0.25)
            io.LagControl.add_name('l')
            lg = io.LagControl.kr([4.0, 8.0], [0.1, 0.2])
            io.Control.add_name('i')
            i = io.Control.ir(0.125)
            run({'freq': freq, 'a': a, 'l': lg, 'i': i})
    elif variant == 'defaults':
        def graph(nd, n=None, b=True, k=3):
            run({'nd': nd, 'n': n, 'b': b, 'k': k})
    elif variant == 'specs':
        def graph(freq=None, amp=None, gate=1):
            run({'freq': freq, 'amp': amp, 'gate': gate})
    else:
        raise ValueError(variant)
    return graph


def xdef_kwargs(prog):
    """The SynthDef constructor options that belong to a parameter variant
    (fresh objects on every call: the library may modify the lists)."""
    variant = prog.get('params', 'none')
    if variant == 'lag':
        return {'rates': [0.5, None, 0.125]}
    if variant == 'lag20' or variant.startswith('lagarr'):
        return {'rates': [0.5]}
    if variant == 'rates':
        return {'rates': ['ir', 'tr', 'ar', 'kr']}
    if variant == 'prepend':
        return {'prepend': [0.5, 7.0]}
    if variant == 'specs':
        from sc3.synth.spec import ControlSpec
        return {'metadata': {'specs': {
            'freq': ControlSpec(20, 20000, 'exp', 0, 440)}}}
    return {}


# --------------------------------------------------------------------------
# building and reading through the library
# --------------------------------------------------------------------------

def _where(e):
    tb = traceback.extract_tb(e.__traceback__)
    return next((f.name for f in reversed(tb) if '/sc3/' in f.filename), '?')


def compile_def(name, graph, variants=None, **options):
    """-> ('ok', synthdef, bytes) | ('raised', stage, exception, leftovers).
    leftovers: bytes the library handed out although it raised."""
    from sc3.base.main import main
    from sc3.synth.synthdef import SynthDef
    try:
        sd = SynthDef(name, graph, variants=variants, **options)
    except Exception as e:
        main._current_synthdef = None
        return ('raised', 'build', e, None)
    try:
        data = gp.sd_bytes(sd)
    except Exception as e:
        # the refusal has to be stable: asking again may not hand out bytes
        # (e.g. a half-written stream the first attempt left behind)
        left = None
        try:
            again = gp.sd_bytes(sd)
            left = bytes(again) or b'<empty>'
        except Exception:
            cached = getattr(sd, '_bytes', None)
            if cached is not None:
                try:
                    left = bytes(cached.getvalue() if hasattr(
                        cached, 'getvalue') else cached) or b'<empty>'
                except Exception:
                    left = b'<unreadable cache>'
        return ('raised', 'as_bytes', e, left)
    return ('ok', sd, data)


def _norm_start(x):
    if isinstance(x, str):
        return x
    if isinstance(x, (int, float)) and not isinstance(x, bool):
        return float(x)
    return '<signal>'


def _desc_summary(desc):
    from sc3.base import utils as utl
    ctl = []
    for c in desc.controls:
        dv = c.default_value
        dv = [float(x) for x in utl.as_list(dv)] if dv is not None else None
        ctl.append([c.name, c.index, c.rate, dv])

    def io_(lst):
        # LocalIn / LocalOut have no bus: their "starting channel" is not a
        # fact of the definition (don't-care)
        return [[x.rate, x.channels,
                 _norm_start(x.starting_channel)
                 if x.type.__name__ not in ('LocalIn', 'LocalOut') else '-',
                 x.type.__name__] for x in lst]
    return {'name': desc.name, 'control_names': list(desc.control_names),
            'controls': ctl, 'has_gate': bool(desc.has_gate),
            'inputs': io_(desc.inputs), 'outputs': io_(desc.outputs)}


IN_CLASSES = {'In', 'LocalIn', 'LagIn', 'InFeedback', 'InTrig'}
OUT_FIXED = {'Out': 1, 'ReplaceOut': 1, 'OffsetOut': 1, 'LocalOut': 0,
             'XOut': 2}


def expected_desc(d):
    """What a description reader must recover, computed from the bytes by the
    independent decoder."""
    table, _ = xg.control_table(d)
    ctl = []
    for i, (nm, s, r, dv) in enumerate(table):
        if nm == '?':
            ctl.append(['?', s, xg.RATE_NAME.get(r, '?'), [dv]])
        else:
            run = [dv]
            for nm2, _, _, dv2 in table[i + 1:]:
                if nm2 != '?':
                    break
                run.append(dv2)
            ctl.append([nm, s, xg.RATE_NAME.get(r, '?'), run])
    names = [nm for nm, _ in d['param_names']]
    slot_name = {s: nm for nm, s, _, _ in table}
    ins, outs = [], []
    for u in d['units']:
        cls = u['name']
        if cls not in IN_CLASSES and cls not in OUT_FIXED:
            continue
        start = '?'
        if cls in ('LocalIn', 'LocalOut'):
            start = '-'
        elif u['inputs']:
            b = u['inputs'][0]
            if b[0] == 'c':
                start = float(d['constants'][b[1]])
            else:
                src = d['units'][b[1]]
                if src['name'] in xg.CONTROL_CLASSES and \
                        src['name'] != 'AudioControl':
                    start = slot_name.get(src['special'] + b[2], '?')
                elif src['name'] == 'AudioControl':
                    start = '<signal>'
                else:
                    start = '<signal>'
        rate = xg.RATE_NAME.get(u['rate'], '?')
        if cls in IN_CLASSES:
            ins.append([rate, len(u['outputs']), start, cls])
        else:
            outs.append([rate, len(u['inputs']) - OUT_FIXED[cls], start, cls])
    return {'name': d['name'], 'control_names': names, 'controls': ctl,
            'has_gate': 'gate' in names, 'inputs': ins, 'outputs': outs}


def _nan_free(x):
    """NaN (a legal parameter default) compares equal to itself."""
    if isinstance(x, float) and x != x:
        return 'nan'
    if isinstance(x, (list, tuple)):
        return [_nan_free(y) for y in x]
    return x


def _cmp_desc(tag, want, got):
    dis = []
    want = {k: _nan_free(v) for k, v in want.items()}
    got = {k: _nan_free(v) for k, v in got.items()}
    if got['name'] != want['name']:
        dis.append((f'reader-name-differs', want['name'], got['name'], tag))
    if sorted(got['control_names']) != sorted(want['control_names']):
        dis.append(('reader-control-names-differ', want['control_names'],
                    got['control_names'], tag))
    if got['controls'] != want['controls']:
        dis.append(('reader-controls-differ', want['controls'][:12],
                    got['controls'][:12],
                    f'{tag}: [name, slot, rate, defaults] in slot order'))
    if got['has_gate'] != want['has_gate']:
        dis.append(('reader-gate-flag-differs', want['has_gate'],
                    got['has_gate'], tag))
    for key in ('inputs', 'outputs'):
        w = sorted(want[key], key=repr)
        g = sorted(got[key], key=repr)
        if [[a, b, e] for a, b, _, e in w] != \
                [[a, b, e] for a, b, _, e in g]:
            dis.append((f'reader-bus-units-differ', w[:6], g[:6],
                        f'{tag} {key}: [rate, channels, start, class]'))
        elif w != g:
            dis.append((f'reader-bus-start-channel-differs', w[:6], g[:6],
                        f'{tag} {key}: [rate, channels, start, class]'))
    return dis


def reader_check(sd, data, d):
    """The library's own reader on the emitted bytes against the independent
    decoding `d`.  -> (disagreements, summary)"""
    from sc3.base.main import main
    from sc3.synth.synthdesc import SynthDesc
    want = expected_desc(d)
    dis = []
    summ = None
    for tag in ('new_from', '_read_stream'):
        try:
            if tag == 'new_from':
                desc = SynthDesc.new_from(sd)
            else:
                lst = SynthDesc._read_stream(io.BytesIO(data))
                if len(lst) != 1:
                    dis.append(('reader-definition-count', 1, len(lst), tag))
                    continue
                desc = lst[0]
            got = _desc_summary(desc)
        except Exception as e:
            main._current_synthdef = None
            dis.append((f'reader-rejects-bytes', 'a description',
                        repr(e)[:300], f'{tag} @{_where(e)}'))
            continue
        summ = got
        dis += _cmp_desc(tag, want, got)
    try:
        nm = SynthDesc.def_name_from_bytes(bytearray(data))
        if nm != d['name']:
            dis.append(('reader-name-differs', d['name'], nm,
                        'def_name_from_bytes'))
    except Exception as e:
        dis.append(('reader-rejects-bytes', d['name'], repr(e)[:300],
                    'def_name_from_bytes'))
    # a memoryview left by new_from's as_bytes() is released here
    gp.sd_bytes(sd)
    return dis, summ


def decode_one(data, name):
    """Strict parse of one definition. -> (def or None, disagreements)"""
    try:
        dd = scgf.decode(data)
    except scgf.FormatError as e:
        return None, [('scgf-unparsable', 'SCgf v2, all bytes consumed',
                       repr(e)[:300], '')]
    if len(dd['defs']) != 1:
        return None, [('scgf-definition-count', 1, len(dd['defs']), '')]
    d = dd['defs'][0]
    dis = []
    if d['name'] != name:
        dis.append(('definition-name-differs', name, d['name'], ''))
    bad = scgf.validate(d)
    if bad:
        dis.append(('scgf-integrity', [], bad[:4], ''))
    return d, dis


class _Deep:
    """Oracle-side recursion head-room (terms of long chains are deep); the
    library always runs under the interpreter's own limit."""

    def __enter__(self):
        self.old = sys.getrecursionlimit()
        sys.setrecursionlimit(20000)

    def __exit__(self, *a):
        sys.setrecursionlimit(self.old)


def _outcome(d):
    return [[u['name'], u['rate'], u['special'], u['inputs'], u['outputs']]
            for u in d['units']]


# --------------------------------------------------------------------------
# (A) the C01 programs: form + reader
# --------------------------------------------------------------------------

def check_gp(prog):
    """-> (disagreements, nontrivial, outcome, skipped)"""
    try:
        graph, ref = gp.make_function(prog)
    except gp.IllFormed:
        return [], False, None, True
    res = compile_def('g', graph)
    if res[0] == 'raised':
        e = res[2]
        kind = f'valid-graph-rejected-{type(e).__name__}@{_where(e)}'
        return [(kind, 'a compiled definition', repr(e)[:300],
                 f'stage {res[1]}')], ref['nontrivial'], kind, False
    _, sd, data = res
    d, dis = decode_one(data, 'g')
    if d is None or any(k == 'scgf-integrity' for k, *_ in dis):
        return dis, ref['nontrivial'], 'malformed', False
    for kind, detail in xg.form_problems(d):
        dis.append((kind, None, detail, ''))
    # parameters predicted from the AST
    used = {a for st in prog['stmts'] for a in st[1:] if a in ('P', 'I')}
    want = {}
    if 'P' in used:
        want['p'] = [1, [0.25]]
    if 'I' in used:
        want['i'] = [0, [0.75]]
    _, byname = xg.control_table(d)
    got = {k: [v[0], list(v[1])] for k, v in byname.items()}
    if got != want:
        dis.append(('parameters-differ-from-signature', want, got, ''))
    rd, summ = reader_check(sd, data, d)
    dis += rd
    # bus units predicted from the AST
    if summ is not None:
        wanto = sorted([xg.RATE_NAME[r], len(ps), 0.0 if r == 2 else 1.0,
                        'Out'] for r, ps in ref['outs'])
        goto = sorted(summ['outputs'])
        if [x[:2] + x[3:] for x in wanto] != [x[:2] + x[3:] for x in goto]:
            dis.append(('reader-bus-units-not-as-written', wanto, goto, ''))
        if summ['inputs']:
            dis.append(('reader-bus-units-not-as-written', [],
                        summ['inputs'], 'inputs'))
    return dis, ref['nontrivial'], _outcome(d), False


STANDALONE_BUS = '''import sc3
sc3.init('nrt')
from sc3.synth.synthdef import SynthDef
from sc3.synth.synthdesc import SynthDesc
from sc3.synth.ugens.oscillators import SinOsc
from sc3.synth.ugens.inout import Out, In
sd = SynthDef('t', lambda: Out.ar(0, In.ar(0, 2) * SinOsc.ar(440)))
d = SynthDesc.new_from(sd)
print(d.outputs, d.inputs)
assert [x.starting_channel for x in d.outputs + d.inputs] == [0.0, 0.0]
'''


def work_gp(job):
    acc = progenum.Acc()
    for prog in c01.programs(job['space'], job['shard'], job['of'],
                             job['tagbase'], job.get('slice_of', 1),
                             job.get('slice_ix', 0)):
        dis, nt, outcome, skipped = check_gp(prog)
        if skipped:
            acc.count('skipped_ill_formed')
            continue
        for kind, exp, obs, detail in dis:
            acc.violation(kind, prog, exp, obs, detail,
                          size=len(prog['stmts']) * 10000 +
                          len(core.canon(prog)),
                          standalone=STANDALONE_BUS if kind ==
                          'reader-bus-start-channel-differs' else None)
        acc.case(prog, nt, outcome, steps=len(prog['stmts']) + 1)
    return acc.result()


# --------------------------------------------------------------------------
# (B) extended programs
# --------------------------------------------------------------------------

def check_x(prog):
    """-> (disagreements, nontrivial, outcome, skipped)"""
    try:
        with _Deep():
            ref = xg.interpret(prog)
    except xg.IllTyped:
        return [], False, None, True
    graph = make_xfunction(prog, ref['plan'])
    res = compile_def(prog['name'], graph, **xdef_kwargs(prog))
    if res[0] == 'raised':
        e = res[2]
        kind = f'valid-graph-rejected-{type(e).__name__}@{_where(e)}'
        return [(kind, 'a compiled definition', repr(e)[:300],
                 f'stage {res[1]}')], ref['nontrivial'], kind, False
    _, sd, data = res
    d, dis = decode_one(data, prog['name'])
    if d is None or any(k == 'scgf-integrity' for k, *_ in dis):
        return dis, ref['nontrivial'], 'malformed', False
    with _Deep():
        dis += xg.compare(prog, ref, d)
    rd, summ = reader_check(sd, data, d)
    dis += rd
    dis += as_written(prog, ref, summ)
    return dis, ref['nontrivial'], _outcome(d), False


def as_written(prog, ref, summ):
    """The reader's bus units and gate flag against the program text."""
    dis = []
    if summ is not None:
        for key, want in (('outputs', ref['outs_desc']),
                          ('inputs', ref['ins_desc'])):
            w = sorted(want, key=repr)
            g = sorted(summ[key], key=repr)
            if [x[:2] + x[3:] for x in w] != [x[:2] + x[3:] for x in g]:
                dis.append(('reader-bus-units-not-as-written', w[:6], g[:6],
                            key))
        if summ['has_gate'] != xg.has_gate(prog.get('params', 'none')):
            dis.append(('reader-gate-flag-not-as-written',
                        prog.get('params'), summ['has_gate'], ''))
    return dis


# ---- typed enumeration ----------------------------------------------------

FLAT = ('A', 'K', 'A2', 'K2')
POOL_FULL = ['sin', 'noise', 'nest', 'in', 'pan', 'mul', 'add', 'mul2',
             'lpf', 'sel', 'seed', 'rid', 'lbuf', 'set', 'clear', 'bufrd',
             'fft', 'pv', 'ifft']
POOL_5 = ['sin', 'in', 'pan', 'mul', 'add', 'lpf', 'seed', 'lbuf', 'fft',
          'ifft']
POOL_INS = ['sin', 'noise', 'in', 'pan', 'mul', 'add', 'lpf', 'seed', 'rid',
            'lbuf', 'set', 'clear', 'bufrd', 'fft', 'pv', 'ifft']
PAR_TYPES = {'gate': [(['par', 'gate'], 'K')],
             'mixed': [(['par', 'gate'], 'K'), (['par', 'a'], 'A'),
                       (['par', 'freq', 1], 'K'), (['par', 'i'], 'K'),
                       (['par', 'freq'], 'K3')],
             'lag': [(['par', 'gate'], 'K'), (['par', 'freq', 2], 'K'),
                     (['par', 'amp'], 'K')],
             'lag20': [(['par', 'freq', 0], 'K'), (['par', 'freq', 16], 'K'),
                       (['par', 'freq', 19], 'K')],
             'rates': [(['par', 'a'], 'K'), (['par', 'b'], 'K'),
                       (['par', 'c'], 'A'), (['par', 'd'], 'K'),
                       (['par', 'e'], 'A')],
             'prepend': [(['par', 'freq'], 'K'), (['par', 'gate'], 'K')],
             'wrap': [(['par', 'gate'], 'K'), (['par', 'freq'], 'K'),
                      (['par', 'a'], 'A')],
             'manual': [(['par', 'freq', 1], 'K'), (['par', 'a'], 'A'),
                        (['par', 'l', 0], 'K'), (['par', 'i'], 'K')],
             'defaults': [(['par', 'nd'], 'K'), (['par', 'n'], 'K'),
                          (['par', 'b'], 'K'), (['par', 'k'], 'K')],
             'specs': [(['par', 'freq'], 'K'), (['par', 'amp'], 'K'),
                       (['par', 'gate'], 'K')]}
for _v in xg.GROUP_VARIANTS + xg.WRAP_VARIANTS:
    # every single parameter, first and last element of every array
    _lst = []
    for _nm, _dv, _kind in xg.param_spec(_v):
        _t = 'A' if _kind == 'ar' else 'K'
        if isinstance(_dv, tuple):
            _lst += [(['par', _nm, 0], _t), (['par', _nm, len(_dv) - 1], _t)]
        else:
            _lst.append((['par', _nm], _t))
    PAR_TYPES[_v] = _lst
BIN_KINDS = ['InFeedback', 'LagIn', 'InTrig', 'LocalIn.ar', 'LocalIn.kr',
             'SoundIn']
BIN_TYPES = {'InFeedback': 'A2', 'LagIn': 'K2', 'InTrig': 'K2',
             'LocalIn.ar': 'A2', 'LocalIn.kr': 'K2', 'SoundIn': 'A'}
OUT_CLASSES = ['Out', 'ReplaceOut', 'OffsetOut', 'XOut', 'LocalOut']
POOL_GROUPS = ['sin', 'mul', 'add', 'lpf', 'pan', 'seed', 'lbuf']
POOL_BUS3 = ['sin', 'in', 'bin', 'pan', 'mul', 'sel', 'lpf']
PARAM_ROUTES = ['lag', 'lag20', 'rates', 'prepend', 'wrap', 'manual',
                'defaults', 'specs']


def result_type(st, types):
    op = st[0]

    def T(a):
        return types[int(a[1:])]
    if op == 'sin':
        return 'A' if st[1] == 'ar' else 'K'
    if op == 'noise':
        return 'A'
    if op == 'nest':
        return 'N'
    if op == 'in':
        return 'A2' if st[1] == 'ar' else 'K2'
    if op == 'bin':
        return BIN_TYPES.get(st[1])
    if op == 'pan':
        return {'A': 'A2', 'A2': 'N'}.get(T(st[1]))
    if op in ('mul', 'add'):
        return T(st[1]) if T(st[1]) in FLAT else None
    if op in ('mul2', 'add2'):
        a, b = T(st[1]), T(st[2])
        if a not in ('A', 'K', 'A2') or b not in ('A', 'K', 'A2'):
            return None
        return 'A2' if 'A2' in (a, b) else 'A' if 'A' in (a, b) else 'K'
    if op == 'lpf':
        return T(st[1]) if T(st[1]) in ('A', 'A2') else None
    if op == 'sel':
        return {'A2': 'A', 'K2': 'K'}.get(T(st[1]))
    if op in ('seed', 'rid'):
        return '-'
    if op == 'lbuf':
        return 'B'
    if op in ('set', 'clear'):
        return '-' if T(st[1]) == 'B' else None
    if op == 'bufrd':
        return 'K' if T(st[1]) == 'B' else None
    if op == 'fft':
        return 'C' if T(st[1]) == 'B' and T(st[2]) == 'A' else None
    if op == 'pv':
        return 'C' if T(st[1]) == 'C' else None
    if op == 'ifft':
        return 'A' if T(st[1]) == 'C' else None
    if op == 'par':
        # the same statement is only generated for variants in which it is a
        # single channel; the 3-channel ['par', 'freq'] of 'mixed' is never a
        # generated statement
        found = [t for lst in PAR_TYPES.values() for s, t in lst if s == st]
        single = [t for t in found if t != 'K3']
        return (single or found or [None])[0]
    if op == 'madd':
        def ok(a):
            return isinstance(a, (int, float)) or T(a) in ('A', 'K')
        if T(st[1]) in ('A', 'K') and ok(st[2]) and ok(st[3]):
            ts = [T(a) for a in st[1:] if isinstance(a, str)]
            return 'A' if 'A' in ts else 'K'
        return None
    if op == 'sum3':
        ts = [T(a) for a in st[1:] if isinstance(a, str)]
        if ts and all(t in ('A', 'K') for t in ts):
            return 'A' if 'A' in ts else 'K'
        return None
    return None


def statements_at(k, types, pool, params='none'):
    """All well-typed statements at position k, canonical order."""
    vs = [f'v{i}' for i in range(k)]
    out = []

    def add(st):
        if result_type(st, types) is not None:
            out.append(st)
    for op in pool:
        if op == 'sin':
            out += [['sin', 'ar'], ['sin', 'kr']]
        elif op in ('noise', 'nest', 'rid', 'lbuf'):
            out.append([op])
        elif op == 'in':
            out += [['in', 'ar'], ['in', 'kr']]
        elif op == 'bin':
            out += [['bin', k] for k in BIN_KINDS]
        elif op == 'seed':
            out += [['seed', 'ir'], ['seed', 'kr']]
        elif op in ('pan', 'mul', 'add', 'lpf', 'set', 'clear', 'bufrd',
                    'pv', 'ifft'):
            for v in vs:
                add([op, v])
        elif op in ('mul2', 'add2', 'fft'):
            for a in vs:
                for b in vs:
                    add([op, a, b])
        elif op == 'sel':
            for v in vs:
                for j in (0, 1):
                    add(['sel', v, j])
        elif op == 'madd':
            for a in vs:
                for m in vs + [2, 0.5]:
                    for c in vs + [2, 0.5]:
                        add(['madd', a, m, c])
        elif op == 'sum3':
            for a in vs:
                for b in vs + [2]:
                    for c in vs + [0.5]:
                        add(['sum3', a, b, c])
    if params in PAR_TYPES:
        for s, t in PAR_TYPES[params]:
            if t != 'K3':
                out.append(list(s))
    return out


SIG_TYPES = ('A', 'K', 'A2', 'K2', 'N')


def out_modes(types, params):
    sig = [t for t in types if t in SIG_TYPES]
    if not sig:
        return ['each']
    modes = ['each', 'list']
    if len(sig) > 1:
        modes.insert(0, 'last')
    if any(t in ('A2', 'K2', 'N') for t in sig):
        modes.append('each1')
    if xg.has_gate(params):
        modes.append('gatebus')
    return modes


def xprograms(length, pools, params, shard, of, tagbase, slice_of=1,
              slice_ix=0, outcls=('Out',)):
    """All well-typed extended programs of exactly `length` statements whose
    prefix index falls into this shard / slice, with every output option and
    every output class of `outcls`."""
    def rec(k, prefix, types):
        if k == length - 1:
            yield prefix, types
            return
        for st in statements_at(k, types, pools[k], params):
            yield from rec(k + 1, prefix + [st],
                           types + [result_type(st, types)])
    idx = -1
    for prefix, types in rec(0, [], []):
        idx += 1
        if idx % of != shard:
            continue
        if slice_of > 1 and (idx // of) % slice_of != slice_ix:
            continue
        k = length - 1
        for st in statements_at(k, types, pools[k], params):
            ts = types + [result_type(st, types)]
            for o in out_modes(ts, params):
                for oc in outcls:
                    p = {'x': 1, 'name': 'g', 'params': params,
                         'stmts': prefix + [st], 'outs': o,
                         'tagbase': tagbase}
                    if oc != 'Out':
                        p['outcls'] = oc
                    yield p


SKELETONS = {
    'fftchain': [['sin', 'ar'], ['lbuf'], ['fft', 'v1', 'v0'], ['pv', 'v2'],
                 ['ifft', 'v3']],
    'seeding': [['noise'], ['seed', 'ir'], ['noise'], ['mul2', 'v0', 'v2']],
    'localbuf': [['lbuf'], ['set', 'v0'], ['bufrd', 'v0'], ['clear', 'v0'],
                 ['bufrd', 'v0']],
    'multiout': [['sin', 'ar'], ['pan', 'v0'], ['sel', 'v1', 1],
                 ['lpf', 'v2'], ['in', 'kr'], ['sel', 'v4', 0]],
    'optimiser': [['sin', 'ar'], ['mul', 'v0'], ['seed', 'kr'],
                  ['add', 'v1'], ['add', 'v3']],
}


def insertions(skel, m, pool):
    """All programs obtained from the skeleton by inserting exactly m
    well-typed statements (references of the skeleton renumbered)."""
    n = len(skel)

    def rec(si, left, stmts, types, remap):
        # si: next skeleton statement; left: insertions still to make
        if si == n and left == 0:
            yield stmts
            return
        k = len(stmts)
        if left > 0:
            for st in statements_at(k, types, pool):
                yield from rec(si, left - 1, stmts + [st],
                               types + [result_type(st, types)], remap)
        if si < n:
            st = [remap[a] if isinstance(a, str) and a[:1] == 'v' and
                  a[1:].isdigit() else a for a in skel[si]]
            st[0] = skel[si][0]
            t = result_type(st, types)
            r2 = dict(remap)
            r2[f'v{si}'] = f'v{k}'
            yield from rec(si + 1, left, stmts + [st], types + [t], r2)
    yield from rec(0, m, [], [], {})


def skeleton_programs(name, m, shard, of, tagbase, slice_of=1, slice_ix=0):
    idx = -1
    for stmts in insertions(SKELETONS[name], m, POOL_INS):
        idx += 1
        if idx % of != shard:
            continue
        if slice_of > 1 and (idx // of) % slice_of != slice_ix:
            continue
        types = []
        for st in stmts:
            types.append(result_type(st, types))
        for o in out_modes(types, 'none'):
            yield {'x': 1, 'name': 'g', 'params': 'none', 'stmts': stmts,
                   'outs': o, 'tagbase': tagbase}


def work_xv(job):
    """Like work_x over several parameter variants; the variants are dealt
    round-robin to the shards."""
    acc = progenum.Acc()
    for vi, variant in enumerate(job['variants']):
        if vi % job['of'] != job['shard']:
            continue
        for prog in xprograms(job['length'], job['pools'], variant, 0, 1,
                              job['tagbase']):
            dis, nt, outcome, skipped = check_x(prog)
            if skipped:
                acc.count('skipped_not_decided')
                continue
            for kind, exp, obs, detail in dis:
                acc.violation(kind, prog, exp, obs, detail,
                              size=len(prog['stmts']) * 10000 +
                              len(core.canon(prog)))
            acc.case(prog, nt, outcome, steps=len(prog['stmts']) + 1)
    return acc.result()


def work_x(job):
    acc = progenum.Acc()
    if job['gen'] == 'len':
        it = xprograms(job['length'], job['pools'], job['params'],
                       job['shard'], job['of'], job['tagbase'],
                       job.get('slice_of', 1), job.get('slice_ix', 0),
                       tuple(job.get('outcls', ('Out',))))
    else:
        it = skeleton_programs(job['skeleton'], job['m'], job['shard'],
                               job['of'], job['tagbase'],
                               job.get('slice_of', 1), job.get('slice_ix', 0))
    for prog in it:
        dis, nt, outcome, skipped = check_x(prog)
        if skipped:
            acc.count('skipped_not_decided')
            continue
        for kind, exp, obs, detail in dis:
            acc.violation(kind, prog, exp, obs, detail,
                          size=len(prog['stmts']) * 10000 +
                          len(core.canon(prog)))
        acc.case(prog, nt, outcome, steps=len(prog['stmts']) + 1)
    return acc.result()


# --------------------------------------------------------------------------
# (C) names
# --------------------------------------------------------------------------

NAME_LENGTHS_OK = [1, 2, 29, 30, 31, 32, 33, 127, 128, 129, 254, 255]
NAME_LENGTHS_BAD = [256, 257, 300, 511, 512]
NAME_BASES = [
    {'params': 'none', 'stmts': [['sin', 'ar']], 'outs': 'each'},
    {'params': 'mixed', 'stmts': [['par', 'a'], ['mul', 'v0']],
     'outs': 'gatebus'},
    {'params': 'none', 'stmts': [['lbuf'], ['set', 'v0'], ['bufrd', 'v0']],
     'outs': 'each'},
]
NAME_ALPHABETS = ['x', 'abcdefghijklmnopqrstuvwxyz_0123456789-.',
                  # every printable ASCII character, space first
                  ''.join(chr(c) for c in range(0x20, 0x7f))]
# control names: through the function signature (identifiers) and through
# Control.add_name (any string)
CTL_NAME_LENGTHS_OK = [1, 2, 31, 32, 33, 127, 128, 129, 254, 255]
CTL_NAME_LENGTHS_BAD = [256, 257, 300]
CTL_NAME_ALPHABETS = ['x', 'abcdefghijklmnopqrstuvwxyz_0123456789']


def make_name(n, alpha):
    return (alpha * (n // len(alpha) + 1))[:n]


def name_cases(tagbase):
    out = []
    for n in NAME_LENGTHS_OK + NAME_LENGTHS_BAD:
        for ai, alpha in enumerate(NAME_ALPHABETS):
            for bi, base in enumerate(NAME_BASES):
                out.append({'namecase': 1, 'len': n, 'alpha': ai, 'base': bi,
                            'tagbase': tagbase})
                if base['params'] == 'mixed':
                    out.append({'namecase': 1, 'len': n, 'alpha': ai,
                                'base': bi, 'tagbase': tagbase,
                                'variants': True})
    for n in CTL_NAME_LENGTHS_OK + CTL_NAME_LENGTHS_BAD:
        for how, alphas in (('signature', CTL_NAME_ALPHABETS),
                            ('add_name', CTL_NAME_ALPHABETS +
                             NAME_ALPHABETS[2:])):
            for ai in range(len(alphas)):
                for rate in ('kr', 'ar'):
                    out.append({'namecase': 1, 'ctl': how, 'len': n,
                                'alpha': ai, 'rate': rate,
                                'tagbase': tagbase})
    return out + zero_cases(tagbase)


ZERO_PATTERNS = [a + b + c for a in ('', 'S', '0', 'Z')
                 for b in ('', 'S', '0', 'Z') for c in ('S', '0', 'Z')
                 if not (a == '' and b != '')]


def zero_cases(tagbase):
    """Audio-rate outputs whose channel list holds the number zero (the
    usual way to leave a channel silent): S = a signal, 0 = int 0, Z = 0.0."""
    return [{'namecase': 1, 'zero': pat, 'outcls': oc, 'tagbase': tagbase}
            for pat in ZERO_PATTERNS for oc in OUT_CLASSES]


def check_zero(case):
    """The definition must compile, be well-formed, feed only audio-rate
    signals to the output unit and describe one output of len(pattern)
    channels (how a zero becomes a signal is not decided here)."""
    tb = float(case['tagbase'])
    oc = case['outcls']
    pat = case['zero']

    def graph():
        from sc3.synth.ugens import oscillators, inout
        chans = [oscillators.SinOsc.ar(tb + 4.0 * i) if ch == 'S' else
                 (0 if ch == '0' else 0.0) for i, ch in enumerate(pat)]
        c = getattr(inout, oc)
        if oc == 'XOut':
            c.ar(tb + 64.0, tb + 65.0, chans)
        elif oc == 'LocalOut':
            c.ar(chans)
        else:
            c.ar(tb + 64.0, chans)
    res = compile_def('g', graph)
    if res[0] == 'raised':
        e = res[2]
        return [(f'valid-graph-rejected-{type(e).__name__}@{_where(e)}',
                 'a compiled definition', repr(e)[:300],
                 f'{oc}.ar with channels {pat}')], 'rejected'
    _, sd, data = res
    d, dis = decode_one(data, 'g')
    if d is None or any(k == 'scgf-integrity' for k, *_ in dis):
        return dis, 'malformed'
    for kind, detail in xg.form_problems(d):
        dis.append((kind, None, detail, ''))
    outs = [u for u in d['units'] if u['name'] == oc]
    nf = OUT_FIXED[oc]
    shape = [[u['rate'], len(u['inputs']) - nf] for u in outs]
    if shape != [[2, len(pat)]]:
        dis.append(('output-unit-not-as-written', [[2, len(pat)]], shape,
                    f'{oc}: [rate, channels]'))
    rd, summ = reader_check(sd, data, d)
    dis += rd
    if summ is not None:
        got = [x[:2] + x[3:] for x in summ['outputs']]
        if got != [['audio', len(pat), oc]]:
            dis.append(('reader-bus-units-not-as-written',
                        [['audio', len(pat), oc]], got, 'outputs'))
    return dis, ['ok', len(data), [u['name'] for u in d['units']]]


def check_ctl_name(case):
    """One parameter with a name of a critical length (and a second, short
    one after it): the name must come back from the bytes and from the
    reader, or - beyond 255 characters - the definition must be refused."""
    alphas = CTL_NAME_ALPHABETS + NAME_ALPHABETS[2:]
    cname = make_name(case['len'], alphas[case['alpha']])
    tb = float(case['tagbase'])
    ar = case['rate'] == 'ar'

    def body(sig, z):
        from sc3.synth.ugens import oscillators, inout
        if ar:
            inout.Out.ar(tb, oscillators.SinOsc.ar(tb + 4.0) * sig)
        else:
            inout.Out.kr(tb, oscillators.SinOsc.kr(sig))
        inout.Out.kr(tb + 8.0, oscillators.SinOsc.kr(z))
    if case['ctl'] == 'signature':
        ns = {'body': body}
        ann = ": 'ar'" if ar else ''
        exec(f'def graph({cname}{ann}=0.5, z=0.25):\n'
             f'    body({cname}, z)\n', ns)
        graph = ns['graph']
    else:
        def graph():
            from sc3.synth.ugens import inout
            if ar:
                inout.AudioControl.add_name(cname)
                sig = inout.AudioControl.ar(0.5)
            else:
                inout.Control.add_name(cname)
                sig = inout.Control.kr(0.5)
            inout.Control.add_name('z')
            body(sig, inout.Control.kr(0.25))
    res = compile_def('g', graph)
    if case['len'] > 255:
        if res[0] == 'ok':
            return [('control-name-over-255-accepted',
                     'an exception (a pascal string holds 255 bytes)',
                     f'{len(res[2])} bytes', '')], 'accepted'
        if res[3]:
            return [('bytes-after-exception', None,
                     f'{len(res[3])} bytes after {res[2]!r}', '')], 'left'
        return [], 'refused-' + res[1]
    if res[0] == 'raised':
        e = res[2]
        return [('valid-control-name-rejected', 'a compiled definition',
                 repr(e)[:200] + ' <- ' + repr(e.__cause__)[:200],
                 f'control name of {case["len"]} characters, '
                 f'stage {res[1]}')], 'rejected'
    _, sd, data = res
    d, dis = decode_one(data, 'g')
    if d is None or any(k == 'scgf-integrity' for k, *_ in dis):
        return dis, 'malformed'
    for kind, detail in xg.form_problems(d):
        dis.append((kind, None, detail, ''))
    _, byname = xg.control_table(d)
    want = {cname: [2 if ar else 1, [0.5]], 'z': [1, [0.25]]}
    got = {k: [v[0], list(v[1])] for k, v in byname.items()}
    if got != want:
        dis.append(('parameters-differ-from-signature', want, got, ''))
    rd, _ = reader_check(sd, data, d)
    dis += rd
    return dis, ['ok', len(data)]


def check_name(case):
    if case.get('zero'):
        return check_zero(case)
    if case.get('ctl'):
        return check_ctl_name(case)
    name = make_name(case['len'], NAME_ALPHABETS[case['alpha']])
    prog = dict(NAME_BASES[case['base']], x=1, name=name,
                tagbase=case['tagbase'])
    ref = xg.interpret(prog)
    graph = make_xfunction(prog, ref['plan'])
    variants = {'v': {'gate': 0.5}, 'w': {'freq': [8.0, 16.0]}} \
        if case.get('variants') else None
    res = compile_def(name, graph, variants)
    if case['len'] > 255:
        if res[0] == 'ok':
            return [('name-over-255-accepted',
                     'an exception (a pascal string holds 255 bytes)',
                     f'{len(res[2])} bytes', '')], 'accepted'
        if res[3]:
            return [('bytes-after-exception', None,
                     f'{len(res[3])} bytes after {res[2]!r}', '')], 'left'
        return [], 'refused-' + res[1]
    if res[0] == 'raised':
        e = res[2]
        return [(f'valid-name-rejected', 'a compiled definition',
                 repr(e)[:200] + ' <- ' + repr(e.__cause__)[:200],
                 f'name of {case["len"]} characters, stage {res[1]}')], \
            'rejected'
    _, sd, data = res
    d, dis = decode_one(data, name)
    if d is None or any(k == 'scgf-integrity' for k, *_ in dis):
        return dis, 'malformed'
    dis += xg.compare(prog, ref, d)
    rd, _ = reader_check(sd, data, d)
    dis += rd
    if variants:
        # which variants are written and their values belong to C04; here
        # only the form: every block is named <definition>.<key> (the strict
        # decoder already demands one value per parameter and the count)
        for vname, vals in d['variants']:
            if not (vname.startswith(name + '.') and
                    vname[len(name) + 1:] in variants):
                dis.append(('variant-name-malformed', name + '.<key>', vname,
                            ''))
    return dis, ['ok', len(data), len(d['variants'])]


def work_names(job):
    acc = progenum.Acc()
    for i, case in enumerate(name_cases(job['tagbase'])):
        if i % job['of'] != job['shard']:
            continue
        dis, outcome = check_name(case)
        for kind, exp, obs, detail in dis:
            acc.violation(kind, case, exp, obs, detail)
        acc.case(case, case.get('len') in (30, 31, 32, 33, 127, 128, 254,
                                           255, 256, 257) or
                 '0' in case.get('zero', '') or 'Z' in case.get('zero', ''),
                 outcome)
    return acc.result()


# --------------------------------------------------------------------------
# (R) emission routes: every way the library hands out / writes / sends the
#     bytes of a definition, and every way it reads them back
# --------------------------------------------------------------------------

ROUTE_BASES = [
    {'params': 'none', 'stmts': [['sin', 'ar']], 'outs': 'each'},
    {'params': 'mixed', 'stmts': [['par', 'a'], ['mul', 'v0']],
     'outs': 'gatebus', 'variants': True},
    {'params': 'none', 'stmts': [['lbuf'], ['set', 'v0'], ['bufrd', 'v0'],
                                 ['clear', 'v0'], ['bufrd', 'v0']],
     'outs': 'each'},
    {'params': 'lag', 'stmts': [['par', 'freq', 2], ['mul', 'v0']],
     'outs': 'gatebus', 'variants': True},
    {'params': 'specs', 'stmts': [['par', 'freq'], ['sin', 'ar']],
     'outs': 'list'},
    {'params': 'manual', 'stmts': [['par', 'l', 0], ['par', 'a']],
     'outs': 'each'},
    {'params': 'none', 'stmts': [['bin', 'LocalIn.ar'], ['sel', 'v0', 1],
                                 ['pan', 'v1']],
     'outs': 'each', 'outcls': 'XOut'},
    {'params': 'none', 'stmts': [['sin', 'ar'], ['lbuf'],
                                 ['fft', 'v1', 'v0'], ['pv', 'v2'],
                                 ['ifft', 'v3']], 'outs': 'last'},
]
ROUTES = ['as_bytes-again', 'write_def_list', 'write_def_list-2',
          'write_def_file', 'store', 'store-default-dir', 'load', 'add',
          'add-nokeep', 'add-default', 'send', 'send-list', 'send-too-big',
          'desc-send', 'lib-send', 'decorator', 'read-file',
          'read-file-keep', 'lib-read', 'read-stream-keep',
          'new_from-nokeep']
ROUTE_VARIANTS = {'v': {'gate': 0.5}, 'w': {'freq': [8.0, 16.0]}}


def route_cases(tagbase):
    return [{'route': r, 'base': bi, 'cached': c, 'tagbase': tagbase}
            for bi in range(len(ROUTE_BASES)) for r in ROUTES
            for c in (False, True)]


class _StubAddr:
    is_local = True

    def __init__(self, real, limit=None):
        self._real = real
        self._MAX_UDP_DGRAM_SIZE = limit if limit is not None else \
            real._MAX_UDP_DGRAM_SIZE
        self.sent = []

    def _calc_msg_dgram_size(self, msg):
        return self._real._calc_msg_dgram_size(msg)

    def send_msg(self, *args):
        self.sent.append(list(args))


class _StubWatcher:
    has_booted = True


class _StubServer:
    """Records what a definition sends instead of a server."""
    name = 'stub'

    def __init__(self, limit=None):
        from sc3.synth.server import Server
        self.addr = _StubAddr(Server.default.addr, limit)
        self._status_watcher = _StubWatcher()

    def __repr__(self):
        return 'stub'


def check_route(case):
    """-> (disagreements, outcome).  Every byte string a route emits must be
    one well-formed definition of the program; every description a route
    produces must agree with the independent decoding of those bytes."""
    import os
    import tempfile
    from sc3.base.main import main
    from sc3.synth.synthdef import SynthDef, synthdef
    from sc3.synth.synthdesc import SynthDesc, SynthDescLib
    from sc3.synth.server import Server
    from sc3.base import systemactions as sac

    base = ROUTE_BASES[case['base']]
    route = case['route']
    variants = dict(ROUTE_VARIANTS) if base.get('variants') else None
    prog = {k: v for k, v in base.items() if k != 'variants'}
    prog.update(x=1, name='g', tagbase=case['tagbase'])
    if route == 'decorator':
        prog['name'] = 'graph'      # the decorated function's own name
    ref = xg.interpret(prog)

    def build(name=None):
        graph = make_xfunction(prog, ref['plan'])
        return SynthDef(name or prog['name'], graph, variants=variants,
                        **xdef_kwargs(prog))

    emitted = []      # (label, bytes, expected name)
    descs = []        # (label, description)
    dis = []
    old_home = os.environ.get('HOME')
    old_tmp = tempfile.tempdir
    added_actions = []
    stub = _StubServer(16 if route == 'send-too-big' else None)
    lib = SynthDescLib('c02-routes', [stub])
    deflib = SynthDescLib.get_lib('default')
    deflib.synth_descs.pop(prog['name'], None)
    sd = None
    with tempfile.TemporaryDirectory(prefix='c02-route-') as tmp:
        try:
            if route != 'decorator':
                sd = build()
                if case['cached']:
                    emitted.append(('as_bytes', bytes(sd.as_bytes()), 'g'))
            fname = os.path.join(tmp, 'g.scsyndef')
            done = ['/n_free', 1000]
            if route == 'as_bytes-again':
                emitted.append(('as_bytes', bytes(sd.as_bytes()), 'g'))
                emitted.append(('as_bytes#2', bytes(sd.as_bytes()), 'g'))
            elif route == 'write_def_list':
                st = io.BytesIO()
                SynthDef._write_def_list([sd], st)
                emitted.append(('_write_def_list', st.getvalue(), 'g'))
            elif route == 'write_def_list-2':
                # a file of two definitions: both are checked on their own
                sd2 = build('g2')
                st = io.BytesIO()
                SynthDef._write_def_list([sd, sd2], st)
                try:
                    dd = scgf.decode(st.getvalue())
                    if len(dd['defs']) != 2:
                        raise scgf.FormatError(f"{len(dd['defs'])} defs")
                    for nm, d in zip(('g', 'g2'), dd['defs']):
                        emitted.append((
                            f'_write_def_list[{nm}]',
                            scgf.encode(d) if not scgf.validate(d) and
                            not any(c != c for c in d['constants'])
                            else b'', nm))
                    # the reader does not consume variant blocks, so what
                    # follows a definition with variants is outside the
                    # statement (one definition per emission): don't-care
                    lst = SynthDesc._read_stream(io.BytesIO(st.getvalue())) \
                        if not variants else None
                    if lst is None:
                        pass
                    elif len(lst) != 2:
                        dis.append(('reader-definition-count', 2, len(lst),
                                    route))
                    else:
                        for nm, dsc in zip(('g', 'g2'), lst):
                            descs.append((f'_read_stream[{nm}]', dsc))
                except scgf.FormatError as e:
                    dis.append(('scgf-unparsable', 'two SCgf v2 definitions',
                                repr(e)[:300], route))
            elif route == 'write_def_file':
                sd._write_def_file(tmp)
                emitted.append(('file', open(fname, 'rb').read(), 'g'))
                descs.append(('default lib', deflib.synth_descs.get('g')))
            elif route in ('store', 'store-default-dir'):
                if route == 'store':
                    sd.store('c02-routes', tmp, lambda srv: done)
                else:
                    os.environ['HOME'] = tmp
                    ddir = os.path.join(
                        tmp, '.local', 'share', 'SuperCollider', 'synthdefs')
                    os.makedirs(ddir)
                    from sc3.base import platform as plf
                    if str(plf.Platform.synthdef_dir) != ddir:
                        # another platform layout: use the explicit form
                        ddir = tmp
                        sd.store('c02-routes', tmp)
                    else:
                        sd.store('c02-routes')
                    fname = os.path.join(ddir, 'g.scsyndef')
                emitted.append(('file', open(fname, 'rb').read(), 'g'))
                descs.append(('lib', lib.synth_descs.get('g')))
            elif route == 'load':
                sd.load(stub, done, tmp)
                emitted.append(('file', open(fname, 'rb').read(), 'g'))
                descs.append(('default lib', deflib.synth_descs.get('g')))
            elif route in ('add', 'add-nokeep'):
                sd.add('c02-routes', lambda srv: done,
                       keep_def=route == 'add')
                descs.append(('lib', lib.synth_descs.get('g')))
            elif route == 'add-default':
                Server.all.add(stub)
                try:
                    sd.add()
                finally:
                    Server.all.discard(stub)
                descs.append(('default lib', deflib.synth_descs.get('g')))
            elif route == 'send':
                sd.send(stub, done)
            elif route == 'send-list':
                stub2 = _StubServer()
                sd.send([stub, stub2])
                stub.addr.sent += stub2.addr.sent
            elif route == 'send-too-big':
                tempfile.tempdir = tmp
                sd.send(stub)
                descs.append(('default lib', deflib.synth_descs.get('g')))
            elif route == 'desc-send':
                SynthDesc.new_from(sd).send(stub, done)
            elif route == 'lib-send':
                lib.add(SynthDesc.new_from(sd))
                lib.send(stub)
            elif route == 'decorator':
                before = dict(sac.ServerBoot._servers.get('all', {}))
                Server.all.add(stub)
                try:
                    graph = make_xfunction(prog, ref['plan'])
                    kw = xdef_kwargs(prog)
                    if variants:
                        kw['variants'] = variants
                    sd = synthdef(**kw)(graph) if (kw or case['cached']) \
                        else synthdef(graph)
                    for act in list(sac.ServerBoot._servers.get('all', {})):
                        if act not in before:
                            added_actions.append(act)
                            sac.ServerBoot.remove('all', act)
                    descs.append(('default lib',
                                  deflib.synth_descs.get('graph')))
                    # what the decorator registered for the next boot
                    for act in added_actions:
                        act(stub)
                finally:
                    Server.all.discard(stub)
                    for act in list(sac.ServerBoot._servers.get('all', {})):
                        if act not in before:
                            sac.ServerBoot.remove('all', act)
                emitted.append(('as_bytes', bytes(sd.as_bytes()), 'graph'))
                descs.append(('default lib again',
                              deflib.synth_descs.get('graph')))
            elif route in ('read-file', 'read-file-keep', 'lib-read'):
                with open(fname, 'wb') as f:
                    SynthDef._write_def_list([sd], f)
                emitted.append(('file', open(fname, 'rb').read(), 'g'))
                if route == 'lib-read':
                    lib.read(fname)
                    descs.append(('lib.read', lib.synth_descs.get('g')))
                else:
                    lst = SynthDesc.read(fname,
                                         keep_defs=route == 'read-file-keep')
                    if len(lst) != 1:
                        dis.append(('reader-definition-count', 1, len(lst),
                                    route))
                    else:
                        descs.append(('SynthDesc.read', lst[0]))
            elif route == 'read-stream-keep':
                data = bytes(sd.as_bytes())
                emitted.append(('as_bytes', data, 'g'))
                lst = SynthDesc._read_stream(io.BytesIO(data), True)
                if len(lst) != 1:
                    dis.append(('reader-definition-count', 1, len(lst),
                                route))
                else:
                    descs.append(('_read_stream(keep)', lst[0]))
            elif route == 'new_from-nokeep':
                descs.append(('new_from(nokeep)',
                              SynthDesc.new_from(sd, keep_def=False)))
                emitted.append(('as_bytes', bytes(sd.as_bytes()), 'g'))
            else:
                raise ValueError(route)
            # what went to the servers
            for msg in stub.addr.sent:
                if msg[0] == '/d_recv':
                    emitted.append(('/d_recv', bytes(msg[1]),
                                    prog['name']))
                elif msg[0] == '/d_load':
                    try:
                        emitted.append(('/d_load file',
                                        open(msg[1], 'rb').read(),
                                        prog['name']))
                    except OSError as e:
                        dis.append(('sent-file-missing', 'a definition file',
                                    repr(e)[:200], route))
            expect_sent = {'store': 1, 'store-default-dir': 1, 'load': 1,
                           'add': 1, 'add-nokeep': 1, 'add-default': 1,
                           'send': 1, 'send-list': 2, 'send-too-big': 1,
                           'desc-send': 1, 'lib-send': 1,
                           'decorator': 1 + len(added_actions)}
            nsent = sum(1 for m in stub.addr.sent
                        if m[0] in ('/d_recv', '/d_load'))
            if nsent != expect_sent.get(route, 0):
                dis.append(('route-definitions-sent',
                            expect_sent.get(route, 0), nsent, route))
        except Exception as e:
            main._current_synthdef = None
            dis.append((f'route-raises-{type(e).__name__}@{_where(e)}',
                        'the route completes', repr(e)[:300],
                        f'route {route}'))
        finally:
            if old_home is None:
                os.environ.pop('HOME', None)
            else:
                os.environ['HOME'] = old_home
            tempfile.tempdir = old_tmp
            SynthDescLib.all.pop('c02-routes', None)
            deflib.synth_descs.pop(prog['name'], None)
    first = None
    for label, data, name in emitted:
        d, dd = decode_one(data, name)
        dis += [(k, a, b, f'{route}: {label} {c}'.strip())
                for k, a, b, c in dd]
        if d is None or any(k == 'scgf-integrity' for k, *_ in dd):
            continue
        if first is None:
            first = d
        dis += [(k, a, b, f'{route}: {label} {c}'.strip())
                for k, a, b, c in xg.compare(prog, ref, d)]
        if variants:
            got = sorted(v[0] for v in d['variants'])
            want = sorted(f'{name}.{k}' for k in variants)
            if got != want:
                dis.append(('variant-blocks-differ', want, got,
                            f'{route}: {label}'))
    if first is not None:
        for label, desc in descs:
            if desc is None:
                dis.append(('route-description-missing', 'a description',
                            None, f'{route}: {label}'))
                continue
            want = expected_desc(first)
            try:
                got = _desc_summary(desc)
            except Exception as e:
                dis.append(('reader-rejects-bytes', 'a description',
                            repr(e)[:300], f'{route}: {label}'))
                continue
            if label.endswith('[g2]'):
                want = dict(want, name='g2')
            dis += _cmp_desc(f'{route}: {label}', want, got)
            dis += [(k, a, b, f'{route}: {label} {c}'.strip())
                    for k, a, b, c in as_written(prog, ref, got)]
    if sd is not None:
        try:
            gp.sd_bytes(sd)
        except Exception:
            pass
    seen = []
    out = []
    for x in dis:
        if x[0] not in seen:
            seen.append(x[0])
            # temporary directory names are not part of the observation
            out.append(tuple(y.replace(tmp, '<tmp>') if isinstance(y, str)
                             else y for y in x))
    return out, [route, len(emitted), len(descs),
                 core.digest([e[1].hex() for e in emitted])]


def work_routes(job):
    acc = progenum.Acc()
    for i, case in enumerate(route_cases(job['tagbase'])):
        if i % job['of'] != job['shard']:
            continue
        dis, outcome = check_route(case)
        for kind, exp, obs, detail in dis:
            acc.violation(kind, case, exp, obs, detail)
        acc.case(case, True, outcome)
    return acc.result()


# --------------------------------------------------------------------------
# (Z) the unit zoo: one call of every constructor of every installed unit
#     class with every word of argument kinds (mc/oracles/zoo.py)
# --------------------------------------------------------------------------

def _zoo_params(cls, method):
    """(names of parameters without default, all positional names) or None
    if the constructor does not exist / takes no plain parameters."""
    import inspect
    f = getattr(cls, method, None)
    if f is None:
        return None
    try:
        ps = list(inspect.signature(f).parameters.values())
    except (TypeError, ValueError):
        return None
    plain = [p for p in ps if p.kind in (p.POSITIONAL_OR_KEYWORD,
                                         p.POSITIONAL_ONLY)]
    return ([p.name for p in plain if p.default is inspect.Parameter.empty],
            [p.name for p in plain])


def zoo_cases(tagbase, shard=0, of=1):
    """All zoo cases of this shard (constructors are dealt round-robin)."""
    from sc3.synth import ugens as ugns
    out = []

    def add(cname, method, word, ov):
        out.append({'zoo': 1, 'cls': cname, 'm': method, 'req': word,
                    'ov': ov, 'tagbase': tagbase})
    for i, (cname, method) in enumerate(zoo.ZOO):
        if i % of != shard:
            continue
        cls = ugns.installed_ugens.get(cname)
        pr = _zoo_params(cls, method) if cls is not None else None
        if pr is None:
            add(cname, method, '', [])
            continue
        req, names = pr
        # Z1: every word over the parameters without default
        for w in zoo.words(len(req)):
            add(cname, method, w, [])
        base = [a * len(req) for a in zoo.OVERRIDE_BASES]
        if not req:
            base = ['']
        # Z2: the first parameter overridden by every letter
        if names and names[0] not in req:
            for a in zoo.ALPHABET:
                add(cname, method, base[0], [[0, a]])
        # Z3: every later parameter overridden by NaN / a string / a list,
        # the first one as it is or a demand / control / audio signal
        for j in range(1, len(names)):
            for w in base:
                for a in zoo.LATER_LETTERS:
                    add(cname, method, w, [[j, a]])
                for f in zoo.FIRST_WITH_NAN:
                    add(cname, method, w, [[0, f], [j, 'N']])
    return out


def _zoo_value(letter, t):
    from sc3.synth.ugens import oscillators, demand, bufio, fft
    if letter == 'A':
        return oscillators.SinOsc.ar(t)
    if letter == 'K':
        return oscillators.SinOsc.kr(t)
    if letter == 'C':
        return t
    if letter == 'I':
        return 2
    if letter == 'L':
        return [oscillators.SinOsc.ar(t), oscillators.SinOsc.ar(t + 1.0)]
    if letter == 'D':
        return demand.Dseq.dr([t, t + 1.0], 2)
    if letter == 'B':
        return bufio.LocalBuf.new(64, 1)
    if letter == 'F':
        return fft.FFT.kr(bufio.LocalBuf.new(64, 1),
                          oscillators.SinOsc.ar(t))
    if letter == 'S':
        return 'abc'
    if letter == 'N':
        return float('nan')
    raise ValueError(letter)


def make_zoo_function(case):
    def graph():
        from sc3.synth import ugens as ugns
        from sc3.synth import ugen as ugn
        from sc3.synth.ugens import inout, demand, oscillators
        cls = ugns.installed_ugens[case['cls']]
        req, names = _zoo_params(cls, case['m'])
        if len(req) != len(case['req']):
            raise TypeError('the constructor takes other parameters now')
        tb = float(case['tagbase'])
        kwargs = {}
        for j, (nm, a) in enumerate(zip(req, case['req'])):
            kwargs[nm] = _zoo_value(a, tb + 4 * j)
        for j, a in case.get('ov') or []:
            kwargs[names[j]] = _zoo_value(a, tb + 64 + 4 * j)
        r = getattr(cls, case['m'])(**kwargs)
        # everything the call returned goes to a bus
        sigs = [x for x in RealBackend.flatten(None, r)
                if isinstance(x, ugn.SynthObject)]
        dem = [x for x in sigs if x.rate == 'demand']
        sigs = [x for x in sigs if x.rate != 'demand']
        if dem:
            sigs += ugn.ChannelList(demand.Demand.kr(
                oscillators.Impulse.kr(1), 0, dem))
        if not sigs:
            return
        if all(x.rate == 'audio' for x in sigs):
            inout.Out.ar(tb + 100, sigs)
        else:
            inout.Out.kr(tb + 100, sigs)
    return graph


def zoo_form_problems(d):
    """The class-independent part of the form rules."""
    keep = ('control-slot-out-of-range', 'control-slots-not-tiled',
            'nan-constant', 'control-unit-has-inputs',
            'lag-count-differs-from-control-count', 'out-without-bus')
    return [(k, det) for k, det in xg.form_problems(d) if k in keep]


def check_zoo(case):
    """-> (disagreements, outcome, nontrivial); kinds are 'zoo-<kind>' or
    'zoo-<kind>@<group>' for the classes of zoo.KIND_GROUP."""
    dis, outcome, nt = _check_zoo(case)
    grp = zoo.KIND_GROUP.get(case['cls'])
    sfx = f'@{grp}' if grp else ''
    return [(f'zoo-{k}{sfx}', a, b, c) for k, a, b, c in dis], outcome, nt


def _check_zoo(case):
    import contextlib
    with contextlib.redirect_stdout(io.StringIO()):
        res = compile_def('g', make_zoo_function(case))
    if res[0] == 'raised':
        if res[3]:
            return [('bytes-after-exception', 'no bytes',
                     f'{len(res[3])} bytes after {res[2]!r}', '')], \
                'left', False
        return [], f'raised-{res[1]}-{type(res[2]).__name__}', False
    _, sd, data = res
    d, dis = decode_one(data, 'g')
    if d is None or any(k == 'scgf-integrity' for k, *_ in dis):
        return dis, 'malformed', True
    for kind, detail in zoo_form_problems(d):
        dis.append((kind, None, detail, ''))
    rd, _ = reader_check(sd, data, d)
    dis += rd
    names = [u['name'] for u in d['units']]
    return dis, [len(data), names[:12]], case['cls'] in names


def work_zoo(job):
    acc = progenum.Acc()
    for case in zoo_cases(job['tagbase'], job['shard'], job['of']):
        dis, outcome, nt = check_zoo(case)
        for kind, exp, obs, detail in dis:
            acc.violation(kind, case, exp, obs, detail,
                          size=len(case['req']) * 1000 +
                          500 * len(case.get('ov') or []) +
                          len(core.canon(case)))
        acc.case(case, nt, outcome)
        if isinstance(outcome, str):
            acc.count('zoo_' + outcome.split('-')[0])
        else:
            acc.count('zoo_compiled')
    return acc.result()


# --------------------------------------------------------------------------
# (D) scaled families
# --------------------------------------------------------------------------

SCALES_Q = [1, 2, 3, 10, 100]
SCALES_T = [1, 2, 3, 10, 100, 300]
FAMILIES = ['chain-lpf', 'chain-mul', 'chain-add', 'chain-dead', 'sum-chain',
            'fan-out', 'fan-in', 'consts', 'expand', 'controls',
            'seed-noise', 'localbufs', 'pan-tree', 'named-controls',
            'lag-controls']


def family_prog(fam, n, tagbase):
    p = {'x': 1, 'name': 'g', 'params': 'none', 'tagbase': tagbase,
         'outs': 'last'}
    if fam == 'chain-lpf':
        st = [['sin', 'ar']] + [['lpf', f'v{i}'] for i in range(n)]
    elif fam == 'chain-mul':
        st = [['sin', 'ar']] + [['mul', f'v{i}'] for i in range(n)]
    elif fam == 'chain-add':
        st = [['sin', 'ar']] + [['add', f'v{i}'] for i in range(n)]
    elif fam == 'chain-dead':
        st = [['sin', 'ar']] + [['lpf', f'v{i}'] for i in range(n)] + \
            [['noise']]
    elif fam == 'sum-chain':
        # v0, then (v1 = sin, v2 = v0 + v1), (v3 = sin, v4 = v2 + v3), ...
        st = [['sin', 'ar']]
        acc = 'v0'
        for i in range(n):
            st.append(['sin', 'ar'])
            st.append(['add2', acc, f'v{len(st) - 1}'])
            acc = f'v{len(st) - 1}'
    elif fam == 'fan-out':
        st = [['sin', 'ar']] + [['lpf', 'v0'] for _ in range(n)]
        p['outs'] = 'list'
    elif fam == 'fan-in':
        st = [['sin', 'kr'] for _ in range(n)]
        p['outs'] = 'list'
    elif fam == 'consts':
        st = [['num'] for _ in range(n)]
        p['outs'] = 'list'
    elif fam == 'expand':
        st = [['sinx', n]]
        p['outs'] = 'each'
    elif fam == 'controls':
        p['params'] = f'arr{n}'
        st = [['par', 'freq']]
        p['outs'] = 'each'
    elif fam == 'named-controls':
        # N single parameters of cycling kinds (a definition holds at most
        # 255 parameter names)
        m = min(n, 255)
        p['params'] = f'named{m}'
        st = [['par', 'p0'], ['par', f'p{m - 1}'], ['par', f'p{m // 2}']]
        p['outs'] = 'each'
    elif fam == 'lag-controls':
        # one lagged array parameter of N values (lag units hold 16 each)
        p['params'] = f'lagarr{n}'
        st = [['par', 'freq', 0], ['par', 'freq', n - 1]]
        p['outs'] = 'each'
    elif fam == 'seed-noise':
        st = []
        for i in range(n):
            st += [['seed', 'ir'], ['noise']]
        p['outs'] = 'list'
    elif fam == 'localbufs':
        st = []
        for i in range(n):
            st += [['lbuf'], ['set', f'v{3 * i}'], ['bufrd', f'v{3 * i}']]
        p['outs'] = 'list'
    elif fam == 'pan-tree':
        # nested expansion: every level doubles the channels (depth <= 5)
        depth = {1: 1, 2: 2, 3: 3, 10: 4, 100: 5, 300: 6}[n]
        st = [['sin', 'ar']] + [['pan', f'v{i}'] for i in range(depth)]
        p['outs'] = 'list'
    else:
        raise ValueError(fam)
    p['stmts'] = st
    return p


def check_scaled(case):
    prog = family_prog(case['family'], case['n'], case['tagbase'])
    # pan of a nested value is outside the typed generator but inside the law
    dis, nt, outcome, skipped = check_x(prog)
    if skipped:
        return [('scaled-family-not-interpretable', None, case, '')], None
    if isinstance(outcome, list):
        outcome = [len(outcome), core.digest(outcome)]
    return dis, outcome


def work_scaled(job):
    acc = progenum.Acc()
    for case in job['cases']:
        dis, outcome = check_scaled(case)
        for kind, exp, obs, detail in dis:
            acc.violation(kind, case, exp, obs, detail,
                          size=case['n'] * 1000 + len(core.canon(case)))
        acc.case(case, case['n'] >= 3, outcome, steps=case['n'])
    return acc.result()


# --------------------------------------------------------------------------
# (E) single-fault enumeration: invalid graphs must be rejected
# --------------------------------------------------------------------------

FAULT_VALUES = ['nan', 'str', 'none', 'empty', 'tuple', 'ctuple', 'huge']
# values the statement does not force to be refused: an exception or a
# well-formed definition
FAULT_MAY_COMPILE = ('empty', 'tuple', 'ctuple', 'huge')
SLOTS = {'sin': 1, 'noise': 1, 'nest': 1, 'in': 1, 'bin': 1, 'pan': 2, 'mul': 2,
         'add': 2, 'mul2': 2, 'add2': 2, 'lpf': 2, 'seed': 1, 'rid': 1,
         'lbuf': 1, 'set': 2, 'clear': 1, 'bufrd': 2, 'fft': 3, 'pv': 2,
         'ifft': 2, 'madd': 3, 'sum3': 3, 'sel': 0, 'par': 0, 'num': 0}
AUDIO_SLOTS = {'lpf': [0], 'pan': [0]}
POOL_E = ['sin', 'noise', 'nest', 'in', 'pan', 'mul', 'add', 'mul2', 'lpf',
          'seed', 'rid', 'lbuf', 'set', 'clear', 'bufrd', 'madd', 'sum3']
POOL_E_BUS = ['sin', 'in', 'bin']


def fault_bases(tagbase):
    """Valid base programs in which every statement is live: all programs of
    <= 2 statements over POOL_E with every signal value written to a bus, and
    the skeletons."""
    bases = []
    for length in (1, 2):
        for prog in xprograms(length, [POOL_E] * length, 'none', 0, 1,
                              tagbase):
            if prog['outs'] in ('each', 'list'):
                bases.append(prog)
    # the other bus readers and every output class
    for prog in xprograms(1, [POOL_E_BUS], 'none', 0, 1, tagbase,
                          outcls=tuple(OUT_CLASSES)):
        if prog['outs'] in ('each', 'list') and (
                prog.get('outcls') or prog['stmts'][0][0] == 'bin'):
            bases.append(prog)
    for name, sk in sorted(SKELETONS.items()):
        for o in ('each', 'list'):
            bases.append({'x': 1, 'name': 'g', 'params': 'none',
                          'stmts': sk, 'outs': o, 'tagbase': tagbase})
    bases.append({'x': 1, 'name': 'g', 'params': 'none',
                  'stmts': SKELETONS['multiout'], 'outs': 'each',
                  'outcls': 'XOut', 'tagbase': tagbase})
    bases.append({'x': 1, 'name': 'g', 'params': 'mixed',
                  'stmts': [['par', 'a'], ['lpf', 'v0'], ['par', 'gate']],
                  'outs': 'each', 'tagbase': tagbase})
    return bases


def fault_cases(base):
    """Every single fault of one base program (plain data)."""
    try:
        ref = xg.interpret(base)
    except xg.IllTyped:
        return []
    out = []
    outcls = base.get('outcls', 'Out')
    for k, st in enumerate(base['stmts']):
        for slot in range(SLOTS[st[0]]):
            for v in FAULT_VALUES:
                out.append(dict(base, fault={'at': k, 'slot': slot,
                                             'value': v}))
        for slot in AUDIO_SLOTS.get(st[0], []):
            out.append(dict(base, fault={'at': k, 'slot': slot,
                                         'value': 'krsig'}))
    for oi, rate in enumerate(ref['plan']):
        nch = 1
        for v in FAULT_VALUES:
            if outcls != 'LocalOut':        # it has no bus argument
                out.append(dict(base, fault={'at': 'out', 'index': oi,
                                             'slot': 'bus', 'value': v}))
            if outcls == 'XOut':
                out.append(dict(base, fault={'at': 'out', 'index': oi,
                                             'slot': 'xfade', 'value': v}))
            out.append(dict(base, fault={'at': 'out', 'index': oi,
                                         'slot': 0, 'value': v}))
        if rate == 'ar':
            out.append(dict(base, fault={'at': 'out', 'index': oi,
                                         'slot': 0, 'value': 'krsig'}))
    if ref['plan'] and ref['plan'][-1] == 'kr' and base['outs'] == 'each' \
            and len(ref['plan']) == 1:
        out.append(dict(base, outs='force_ar'))
        if outcls == 'Out':
            # a control-rate signal into the class without control-rate form
            out.append(dict(base, outcls='OffsetOut',
                            fault={'at': 'none', 'value': 'offsetout-kr'}))
    return out


def check_fault(prog):
    """A faulted program must raise and yield no bytes (an empty list is
    accepted when it compiles to a well-formed definition).
    -> (disagreements, outcome)"""
    f = prog.get('fault') or {'value': 'force_ar'}
    try:
        ref = xg.interpret(dict(prog, fault=None))
        plan = ref['plan']
    except xg.IllTyped:
        plan = None
    if f.get('at') == 'out' or f['value'] == 'force_ar':
        # the output call the fault sits in keeps its reference rate
        pass
    graph = make_xfunction(prog, plan)
    res = compile_def('g', graph)
    fk = f"{f['value']}"
    if res[0] == 'raised':
        if res[3]:
            return [('bytes-after-exception', 'no bytes',
                     f'{len(res[3])} bytes after {res[2]!r}', '')], 'left'
        e = res[2]
        return [], f'raised-{res[1]}-{type(e).__name__}'
    _, sd, data = res
    if f['value'] not in FAULT_MAY_COMPILE:
        d = None
        try:
            d = scgf.decode(data)['defs'][0]
            shown = _outcome(d)[:8]
        except Exception as e:
            shown = repr(e)
        return [(f'invalid-graph-compiled-{fk}',
                 'an exception and no bytes', f'{len(data)} bytes: {shown}',
                 f'fault {f}')], 'compiled'
    d, dis = decode_one(data, 'g')
    if d is None or any(k == 'scgf-integrity' for k, *_ in dis):
        return [(f'{fk}-input-compiled-malformed', 'an exception or a '
                 'well-formed definition', dis[0][2], f'fault {f}')], \
            'malformed'
    if fk != 'empty':
        return [], f'{fk}-compiled-wellformed'
    dis = [(f'empty-list-compiled-{k}', a, b, c)
           for k, a, b, c in
           [(k, None, det, '') for k, det in xg.form_problems(d)]]
    rd, _ = reader_check(sd, data, d)
    dis += [(f'empty-list-compiled-{k}' +
             ('@' + c.split('@')[-1] if k == 'reader-rejects-bytes' and
              '@' in c else ''), a, b, c) for k, a, b, c in rd
            if k != 'reader-bus-start-channel-differs']
    return dis, 'empty-compiled-wellformed'


def work_faults(job):
    acc = progenum.Acc()
    bases = fault_bases(job['tagbase'])
    idx = -1
    for bi, base in enumerate(bases):
        if bi % job['of'] != job['shard']:
            continue
        for case in fault_cases(base):
            dis, outcome = check_fault(case)
            for kind, exp, obs, detail in dis:
                acc.violation(kind, case, exp, obs, detail,
                              size=len(case['stmts']) * 10000 +
                              len(core.canon(case)))
            acc.case(case, True, outcome)
    return acc.result()


# --------------------------------------------------------------------------

def replay(job):
    case = job['case']
    if 'zoo' in case:
        dis, observed, _ = check_zoo(case)
    elif 'route' in case:
        dis, observed = check_route(case)
    elif 'namecase' in case:
        dis, observed = check_name(case)
    elif 'family' in case:
        dis, observed = check_scaled(case)
    elif case.get('x') and ('fault' in case or case['outs'] == 'force_ar'):
        dis, observed = check_fault(case)
    elif case.get('x'):
        dis, _, observed, _ = check_x(case)
    else:
        dis, _, observed, _ = check_gp(case)
    def stable(x):
        # object addresses in library reprs differ between processes
        return re.sub(r'0x[0-9a-fA-F]+', '0x..', repr(x)[:500])
    return {'violates': any(d[0] == job['kind'] for d in dis),
            'disagreements': [[d[0], stable(d[1]), stable(d[2])]
                              for d in dis],
            'observed': observed if not isinstance(observed, list)
            else observed[:40]}


def _bus_zero(v, **_):
    """Known finding predicate: the reader reports '?' for a bus unit whose
    starting channel is the constant 0."""
    exp, obs = v.get('expected') or [], v.get('observed') or []
    if len(exp) != len(obs):
        return False
    diff = [(a, b) for a, b in zip(exp, obs) if a != b]
    return bool(diff) and all(
        a[:2] == b[:2] and a[3] == b[3] and a[2] == 0.0 and b[2] == '?'
        for a, b in diff)


def _route_in(v, routes=(), text=''):
    """Known finding predicate: a route case of one of `routes` whose
    observation contains `text`."""
    c = v.get('case') or {}
    return c.get('route') in routes and text in str(v.get('observed'))


def _zoo_class_in(v, classes=(), text='', first=None, methods=None):
    """Known finding predicate: a zoo case of one of `classes` (optionally:
    constructor in `methods`, first parameter overridden by letter `first`)
    whose observation contains `text`."""
    c = v.get('case') or {}
    if not c.get('zoo') or c.get('cls') not in classes:
        return False
    if methods is not None and c.get('m') not in methods:
        return False
    if first is not None and [0, first] not in (c.get('ov') or []):
        return False
    return text in str(v.get('observed'))


def _empty_localin(v, **_):
    """Known finding predicate: the empty list is the default argument of a
    LocalIn."""
    c = v.get('case') or {}
    f = c.get('fault') or {}
    at = f.get('at')
    return f.get('value') == 'empty' and isinstance(at, int) and \
        c['stmts'][at][0] == 'bin' and \
        c['stmts'][at][1].startswith('LocalIn') and \
        'IndexError' in str(v.get('observed'))


PREDICATES = {'bus_zero_reported_unknown': _bus_zero,
              'empty_localin_default': _empty_localin,
              'route_in': _route_in, 'zoo_class_in': _zoo_class_in}


def main(ctx):
    ctx.rule = (
        'E1: every C01 program (mc/graphprog.py) and every well-typed '
        'extended program (mc/oracles/xgraph.py: multi-output units, nested '
        'expansion, width-first units, parameters) up to the statement '
        'bound with every output option, every skeleton with m inserted '
        'statements, name lengths and scaled families are compiled by the '
        'real SynthDef; bytes are parsed strictly, checked for reference '
        'integrity, count/rate/output consistency, side-effecting units and '
        'width-first order against the AST, and read back by SynthDesc. '
        'Every bus unit class (Out, ReplaceOut, OffsetOut, XOut, LocalOut; '
        'In, InFeedback, LagIn, InTrig, LocalIn, SoundIn) and every way to '
        'declare parameters (annotations, rates= with lags, prepend=, '
        'SynthDef.wrap, Control.add_name, missing/None/bool/int defaults, '
        'metadata specs) is a dimension of the program space. Routes: every '
        'way the library emits (as_bytes twice, _write_def_list, '
        '_write_def_file, store, load, add, send, the too-big file '
        'fallback, SynthDesc.send, SynthDescLib.send, @synthdef) or reads '
        '(SynthDesc.read, SynthDescLib.read, _read_stream, new_from with '
        'and without keep_def) a definition, fresh and after as_bytes, is '
        'held to the same rules. Zoo: every rate constructor of every '
        'installed unit class is called once with every word of argument '
        'kinds (mc/oracles/zoo.py); it must raise and leave no bytes, or '
        'emit one strictly parsable, reference-intact definition without '
        'NaN constant that the reader accepts. '
        'E4: every single fault (nan, str, None, [], tuples, 1e39, '
        'control-rate signal where audio is required, OffsetOut.kr) of every '
        'base program must raise. '
        'Distinct = literally different case. Non-trivial = C01 rule for C01 '
        'programs; for extended programs a width-first unit with units '
        'created before and after it, a multi-output unit, nested '
        'expansion, dead code or an optimiser rewrite; names at a length '
        'limit; families with N >= 3; every fault and route case; zoo '
        'cases that compile to a definition containing the unit.')
    ctx.assumptions += [
        'independent decoder mc/oracles/scgf.py (SCgf v2 reference) and '
        'reference run mc/oracles/xgraph.py (input order of the unit classes '
        'typed from the UGen help files; wrap-and-zip expansion law)',
        'creation order of a decoded unit is read from the tag constant of '
        'its statement (units without a tag are ordered only by wiring)',
        'the reader is compared with the independent decoding of the same '
        'bytes; order of bus descriptors and of control_names is not '
        'demanded; an empty channel list, a tuple or 1e39 may compile if '
        'the result is well-formed',
        'the starting channel of LocalIn/LocalOut descriptors, the default '
        'of a None parameter that has a metadata spec, and reading a file of '
        'several definitions after one with variants are not decided by the '
        'statement (accepted as they are)',
        'routes use a recording stand-in for the server object (addr.'
        'send_msg, _calc_msg_dgram_size of the real NetAddr) and temporary '
        'directories (HOME / tempfile.tempdir are redirected for the '
        'default-directory and too-big routes)']
    tagbase = 128 + 64 * (ctx.seed % 4)
    quick = ctx.tier == 'quick'
    gtag = 100 + 32 * (ctx.seed % 4)

    progenum.run(ctx, MODNAME, 'work_names',
                 [{'shard': i, 'of': 8, 'tagbase': tagbase}
                  for i in range(8)],
                 bound='names, control names, zero channels')
    scales = SCALES_Q if quick else SCALES_T
    cases = [{'family': f, 'n': n, 'tagbase': tagbase}
             for n in scales for f in FAMILIES]
    # big cases first so that they do not end up in one shard
    cases.sort(key=lambda c: -c['n'])
    progenum.run(ctx, MODNAME, 'work_scaled',
                 [{'cases': cases[i::32]} for i in range(32)],
                 bound='scaled families N in ' + str(scales))
    ctx.extra['scaled_families'] = (
        'not exhaustive in N: N in ' + str(scales) + ' for ' +
        ', '.join(FAMILIES))

    progenum.run(ctx, MODNAME, 'work_routes',
                 [{'shard': i, 'of': 16, 'tagbase': tagbase}
                  for i in range(16)],
                 bound='emission and reading routes x bases x cached/fresh')
    progenum.run(ctx, MODNAME, 'work_zoo',
                 [{'shard': i, 'of': 64, 'tagbase': tagbase}
                  for i in range(64)],
                 bound='unit zoo: every constructor x argument words')
    NS = 64
    progenum.run(ctx, MODNAME, 'work_faults',
                 [{'shard': i, 'of': NS, 'tagbase': tagbase}
                  for i in range(NS)],
                 bound='single faults of all bases (<=2 statements + '
                       'skeletons)')

    # (A) C01 programs
    progenum.run(ctx, MODNAME, 'work_gp',
                 [{'space': 's1', 'shard': i, 'of': 16, 'tagbase': gtag}
                  for i in range(16)], bound='C01 programs, 1 statement')
    if quick:
        k = 8
        progenum.run(ctx, MODNAME, 'work_gp',
                     [{'space': 's2', 'shard': i, 'of': NS, 'tagbase': gtag,
                       'slice_of': k,
                       'slice_ix': core.pick_slice(ctx.seed, k)}
                      for i in range(NS)],
                     bound=f'C01 programs, 2 statements, 1/{k} slice chosen '
                           'by seed (not exhaustive)')
    else:
        progenum.run(ctx, MODNAME, 'work_gp',
                     [{'space': 's2', 'shard': i, 'of': 128,
                       'tagbase': gtag} for i in range(128)],
                     bound='C01 programs, 2 statements')

    # (B) extended programs
    for length in (1, 2, 3):
        progenum.run(ctx, MODNAME, 'work_x',
                     [{'gen': 'len', 'length': length,
                       'pools': [POOL_FULL] * length, 'params': 'none',
                       'shard': i, 'of': NS, 'tagbase': tagbase}
                      for i in range(NS if length > 1 else 1)],
                     bound=f'extended programs, {length} statements')
    for params in ('gate', 'mixed'):
        progenum.run(ctx, MODNAME, 'work_x',
                     [{'gen': 'len', 'length': 2,
                       'pools': [POOL_FULL] * 2, 'params': params,
                       'shard': i, 'of': 16, 'tagbase': tagbase}
                      for i in range(16)],
                     bound=f'extended programs with parameters ({params}), '
                           '2 statements')
    # bus unit classes: the other readers and every output class
    for length in (1, 2):
        progenum.run(ctx, MODNAME, 'work_x',
                     [{'gen': 'len', 'length': length,
                       'pools': [POOL_FULL + ['bin']] * length,
                       'params': 'none', 'outcls': OUT_CLASSES,
                       'shard': i, 'of': 16, 'tagbase': tagbase}
                      for i in range(16 if length > 1 else 1)],
                     bound=f'extended programs with all bus unit classes, '
                           f'{length} statements')
    k3 = 4 if quick else 1
    progenum.run(ctx, MODNAME, 'work_x',
                 [{'gen': 'len', 'length': 3, 'pools': [POOL_BUS3] * 3,
                   'params': 'none', 'outcls': OUT_CLASSES[1:],
                   'shard': i, 'of': NS, 'tagbase': tagbase,
                   'slice_of': k3,
                   'slice_ix': core.pick_slice(ctx.seed, k3)}
                  for i in range(NS)],
                 bound='extended programs with the other bus unit classes, '
                       '3 statements, reduced pool' +
                       (f', 1/{k3} slice chosen by seed (not exhaustive)'
                        if k3 > 1 else ''))
    # the other ways to declare parameters
    for params in PARAM_ROUTES:
        for length in (1, 2) if quick else (1, 2, 3):
            progenum.run(ctx, MODNAME, 'work_x',
                         [{'gen': 'len', 'length': length,
                           'pools': [POOL_FULL] * length, 'params': params,
                           'shard': i, 'of': 16 if length < 3 else NS,
                           'tagbase': tagbase}
                          for i in range((16 if length < 3 else NS)
                                         if length > 1 else 1)],
                         bound=f'extended programs with parameters '
                               f'({params}), {length} statements')
    # array-valued parameters at every place of every control group
    for length in (1, 2):
        pool = POOL_GROUPS if quick else POOL_FULL
        progenum.run(ctx, MODNAME, 'work_xv',
                     [{'length': length, 'pools': [pool] * length,
                       'variants': xg.GROUP_VARIANTS, 'shard': i, 'of': 16,
                       'tagbase': tagbase} for i in range(16)],
                     bound=f'extended programs with array parameters in '
                           f'every control group ({len(xg.GROUP_VARIANTS)} '
                           f'layouts), {length} statements' +
                           (', reduced pool' if quick else ''))
        # several wrapped functions in one definition
        progenum.run(ctx, MODNAME, 'work_xv',
                     [{'length': length, 'pools': [pool] * length,
                       'variants': xg.WRAP_VARIANTS, 'shard': i, 'of': 5,
                       'tagbase': tagbase} for i in range(5)],
                     bound=f'extended programs with sibling / nested '
                           f'SynthDef.wrap calls ({len(xg.WRAP_VARIANTS)} '
                           f'layouts), {length} statements' +
                           (', reduced pool' if quick else ''))
    for name in sorted(SKELETONS):
        for m in (0, 1):
            progenum.run(ctx, MODNAME, 'work_x',
                         [{'gen': 'skel', 'skeleton': name, 'm': m,
                           'shard': i, 'of': 16, 'tagbase': tagbase}
                          for i in range(16)],
                         bound=f'skeleton + {m} inserted statements')
    if quick:
        k = 16
        for name in sorted(SKELETONS):
            progenum.run(ctx, MODNAME, 'work_x',
                         [{'gen': 'skel', 'skeleton': name, 'm': 2,
                           'shard': i, 'of': NS, 'tagbase': tagbase,
                           'slice_of': k,
                           'slice_ix': core.pick_slice(ctx.seed, k)}
                          for i in range(NS)],
                         bound=f'skeleton + 2 inserted statements, 1/{k} '
                               'slice chosen by seed (not exhaustive)')
        k = 4
        progenum.run(ctx, MODNAME, 'work_x',
                     [{'gen': 'len', 'length': 4,
                       'pools': [POOL_FULL] * 4, 'params': 'none',
                       'shard': i, 'of': NS, 'tagbase': tagbase,
                       'slice_of': k,
                       'slice_ix': core.pick_slice(ctx.seed, k)}
                      for i in range(NS)],
                     bound=f'extended programs, 4 statements, 1/{k} slice '
                           'chosen by seed (not exhaustive)')
        ctx.extra['exhaustive_bounds'] = [
            'names', 'routes', 'unit zoo', 'single faults',
            'C01 programs 1 statement',
            'extended programs <= 3 statements',
            'extended programs with all bus unit classes <= 2 statements',
            'extended programs with parameters <= 2 statements (10 ways to '
            'declare them)',
            'extended programs with array parameters in every control '
            'group and with sibling / nested SynthDef.wrap calls <= 2 '
            'statements (reduced pool)',
            'skeletons + <= 1 inserted statement']
        ctx.extra['sampled_slices'] = [
            'C01 programs 2 statements: 1/8 of the prefixes',
            'skeletons + 2 inserted statements: 1/16',
            'extended programs 4 statements: 1/4 of the prefixes',
            'extended programs with the other bus unit classes 3 '
            'statements: 1/4 of the prefixes']
    else:
        for name in sorted(SKELETONS):
            progenum.run(ctx, MODNAME, 'work_x',
                         [{'gen': 'skel', 'skeleton': name, 'm': 2,
                           'shard': i, 'of': 128, 'tagbase': tagbase}
                          for i in range(128)],
                         bound='skeleton + 2 inserted statements')
        progenum.run(ctx, MODNAME, 'work_x',
                     [{'gen': 'len', 'length': 4,
                       'pools': [POOL_FULL] * 4, 'params': 'none',
                       'shard': i, 'of': 512, 'tagbase': tagbase}
                      for i in range(512)],
                     bound='extended programs, 4 statements')
        progenum.run(ctx, MODNAME, 'work_x',
                     [{'gen': 'len', 'length': 5,
                       'pools': [POOL_5] * 5, 'params': 'none',
                       'shard': i, 'of': 1024, 'tagbase': tagbase}
                      for i in range(1024)],
                     bound='extended programs, 5 statements, reduced pool')
        ctx.extra['exhaustive_bounds'] = [
            'names', 'routes', 'unit zoo', 'single faults',
            'C01 programs <= 2 statements',
            'extended programs <= 4 statements (full pool), 5 statements '
            '(pool sin, in, pan, mul, add, lpf, seed, lbuf, fft, ifft)',
            'extended programs with all bus unit classes <= 2 statements, '
            '3 statements (pool sin, in, bin, pan, mul, sel, lpf)',
            'extended programs with parameters: gate, mixed 2 statements; '
            'lag, lag20, rates, prepend, wrap, manual, defaults, specs '
            '<= 3 statements; array parameters in every control group and '
            'sibling / nested SynthDef.wrap calls <= 2 statements',
            'skeletons + <= 2 inserted statements']
