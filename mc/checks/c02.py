"""C02 - Emitted definitions are well-formed, topologically ordered SCgf v2.

E1 (progenum): (A) the straight-line programs of C01 (mc/graphprog.py) and
(B) *extended* graph programs (mc/oracles/xgraph.py: multi-output units,
nested multichannel expansion, width-first units, parameters), (C) definition
names of critical lengths and (D) scaled families are compiled by the real
SynthDef.  The emitted bytes must parse strictly (mc/oracles/scgf.py, all
bytes consumed, one definition), pass reference integrity (scgf.validate) and
the mutual-consistency rules of xgraph.form_problems; side-effecting units,
their wiring and the width-first order are compared with the reference run of
the AST; the library's own reader (SynthDesc.new_from, SynthDesc._read_stream,
SynthDesc.def_name_from_bytes) must accept the bytes and recover name,
controls, gate flag and bus units.
E4 (single-fault enumeration): every valid base program with one operand
replaced by nan / 'str' / None / [] / a control-rate signal where audio rate is
required must be rejected with an exception and yield no bytes."""

import io
import math
import sys
import traceback

from mc import core, graphprog as gp
from mc.engines import progenum
from mc.oracles import scgf, xgraph as xg
from mc.checks import c01

MODE = 'nrt'
MODNAME = 'mc.checks.c02'


# --------------------------------------------------------------------------
# real-library backend of xgraph.execute
# --------------------------------------------------------------------------

class RealBackend:
    def __init__(self, prog, plan, env):
        from sc3.synth.ugens import (oscillators, noise, filter, inout, pan,
                                     bufio, fft)
        from sc3.synth import ugen
        self.m = dict(osc=oscillators, noise=noise, flt=filter, io=inout,
                      pan=pan, buf=bufio, fft=fft, ugen=ugen)
        self.plan = list(plan) if plan is not None else None
        self.env = env
        self.stamp = 0

    def params(self, variant):
        return self.env

    def fault_value(self, value, t):
        if value == 'nan':
            return float('nan')
        if value == 'str':
            return 'str'
        if value == 'none':
            return None
        if value == 'empty':
            return []
        if value == 'krsig':
            return self.m['osc'].SinOsc.kr(t)
        if value == 'tuple':
            # tuples are never expanded: the unit keeps the pair as ONE
            # input; the library must either refuse that or write it well
            c = self.m['osc'].SinOsc
            return (c.ar(t), c.ar(t))
        raise ValueError(value)

    def flatten(self, v):
        if isinstance(v, list):
            out = []
            for x in v:
                out += self.flatten(x)
            return out
        return [v]

    def sin(self, rate, freq):
        c = self.m['osc'].SinOsc
        return c.ar(freq) if rate == 'ar' else c.kr(freq)

    def noise(self, freq):
        return self.m['noise'].LFNoise0.ar(freq)

    def inn(self, rate, bus):
        c = self.m['io'].In
        return c.ar(bus, 2) if rate == 'ar' else c.kr(bus, 2)

    def pan(self, x, level):
        return self.m['pan'].Pan2.ar(x, 0.5, level)

    def mul(self, a, b):
        return a * b

    def add(self, a, b):
        return a + b

    def madd(self, x, m, a):
        return x.madd(m, a)

    def sum3(self, a, b, c):
        return self.m['ugen'].ChannelList([a, b, c]).sum()

    def num(self, x):
        return x

    def lpf(self, x, freq):
        return self.m['flt'].LPF.ar(x, freq)

    def sel(self, x, j):
        return x[j]

    def seed(self, rate, seed):
        c = self.m['noise'].RandSeed
        return c.ir(1, seed) if rate == 'ir' else c.kr(1, seed)

    def rid(self, i):
        return self.m['noise'].RandID.ir(i)

    def lbuf(self, frames):
        return self.m['buf'].LocalBuf.new(frames, 1)

    def setbuf(self, buf, value):
        return buf.set([value])

    def clearbuf(self, buf):
        return buf.clear()

    def bufrd(self, buf, phase):
        return self.m['buf'].BufRd.kr(1, buf, phase, 1, 2)

    def fft(self, buf, x, winsize):
        return self.m['fft'].FFT.kr(buf, x, 0.5, 0, 1, winsize)

    def pv(self, chain, thresh):
        return self.m['fft'].PV_MagAbove.new(chain, thresh)

    def ifft(self, chain, winsize):
        return self.m['fft'].IFFT.ar(chain, 0, winsize)

    def out(self, bus, chans, force=None):
        if force == 'ar':
            rate = 'ar'
        elif self.plan:
            rate = self.plan.pop(0)
        else:
            # faulted programs have no reference plan: control-rate outputs
            # accept every signal rate
            rate = 'kr'
        c = self.m['io'].Out
        if rate == 'ar':
            c.ar(bus, chans)
        else:
            c.kr(bus, chans)


def make_xfunction(prog, plan):
    """The real graph function of an extended program."""
    variant = prog.get('params', 'none')

    def run(env):
        xg.execute(prog, RealBackend(prog, plan, env))

    if variant == 'none':
        def graph():
            run({})
    elif variant == 'gate':
        def graph(gate=1.0):
            run({'gate': gate})
    elif variant == 'mixed':
        def graph(freq=(0.5, 2.0, 4.0), gate=1.0, t: 'tr' = 0.5,
                  a: 'ar' = 0.25, i: 'ir' = 8.0):
            run({'gate': gate, 'freq': freq, 't': t, 'a': a, 'i': i})
    elif variant.startswith('arr'):
        defaults = xg.param_spec(variant)[0][1]

        def graph(freq=defaults):
            run({'freq': freq})
    else:
        raise ValueError(variant)
    return graph


# --------------------------------------------------------------------------
# building and reading through the library
# --------------------------------------------------------------------------

def _where(e):
    tb = traceback.extract_tb(e.__traceback__)
    return next((f.name for f in reversed(tb) if '/sc3/' in f.filename), '?')


def compile_def(name, graph, variants=None):
    """-> ('ok', synthdef, bytes) | ('raised', stage, exception, leftovers).
    leftovers: bytes the library handed out although it raised."""
    from sc3.base.main import main
    from sc3.synth.synthdef import SynthDef
    try:
        sd = SynthDef(name, graph, variants=variants)
    except Exception as e:
        main._current_synthdef = None
        return ('raised', 'build', e, None)
    try:
        data = gp.sd_bytes(sd)
    except Exception as e:
        # the refusal has to be stable: asking again may not hand out bytes
        # (e.g. a half-written stream the first attempt left behind)
        left = None
        try:
            again = gp.sd_bytes(sd)
            left = bytes(again) or b'<empty>'
        except Exception:
            cached = getattr(sd, '_bytes', None)
            if cached is not None:
                try:
                    left = bytes(cached.getvalue() if hasattr(
                        cached, 'getvalue') else cached) or b'<empty>'
                except Exception:
                    left = b'<unreadable cache>'
        return ('raised', 'as_bytes', e, left)
    return ('ok', sd, data)


def _norm_start(x):
    if isinstance(x, str):
        return x
    if isinstance(x, (int, float)) and not isinstance(x, bool):
        return float(x)
    return '<signal>'


def _desc_summary(desc):
    from sc3.base import utils as utl
    ctl = []
    for c in desc.controls:
        dv = c.default_value
        dv = [float(x) for x in utl.as_list(dv)] if dv is not None else None
        ctl.append([c.name, c.index, c.rate, dv])

    def io_(lst):
        return [[x.rate, x.channels, _norm_start(x.starting_channel),
                 x.type.__name__] for x in lst]
    return {'name': desc.name, 'control_names': list(desc.control_names),
            'controls': ctl, 'has_gate': bool(desc.has_gate),
            'inputs': io_(desc.inputs), 'outputs': io_(desc.outputs)}


IN_CLASSES = {'In', 'LocalIn', 'LagIn', 'InFeedback', 'InTrig'}
OUT_FIXED = {'Out': 1, 'ReplaceOut': 1, 'OffsetOut': 1, 'LocalOut': 0,
             'XOut': 2}


def expected_desc(d):
    """What a description reader must recover, computed from the bytes by the
    independent decoder."""
    table, _ = xg.control_table(d)
    ctl = []
    for i, (nm, s, r, dv) in enumerate(table):
        if nm == '?':
            ctl.append(['?', s, xg.RATE_NAME.get(r, '?'), [dv]])
        else:
            run = [dv]
            for nm2, _, _, dv2 in table[i + 1:]:
                if nm2 != '?':
                    break
                run.append(dv2)
            ctl.append([nm, s, xg.RATE_NAME.get(r, '?'), run])
    names = [nm for nm, _ in d['param_names']]
    slot_name = {s: nm for nm, s, _, _ in table}
    ins, outs = [], []
    for u in d['units']:
        cls = u['name']
        if cls not in IN_CLASSES and cls not in OUT_FIXED:
            continue
        start = '?'
        if u['inputs']:
            b = u['inputs'][0]
            if b[0] == 'c':
                start = float(d['constants'][b[1]])
            else:
                src = d['units'][b[1]]
                if src['name'] in xg.CONTROL_CLASSES and \
                        src['name'] != 'AudioControl':
                    start = slot_name.get(src['special'] + b[2], '?')
                elif src['name'] == 'AudioControl':
                    start = '<signal>'
                else:
                    start = '<signal>'
        rate = xg.RATE_NAME.get(u['rate'], '?')
        if cls in IN_CLASSES:
            ins.append([rate, len(u['outputs']), start, cls])
        else:
            outs.append([rate, len(u['inputs']) - OUT_FIXED[cls], start, cls])
    return {'name': d['name'], 'control_names': names, 'controls': ctl,
            'has_gate': 'gate' in names, 'inputs': ins, 'outputs': outs}


def _cmp_desc(tag, want, got):
    dis = []
    if got['name'] != want['name']:
        dis.append((f'reader-name-differs', want['name'], got['name'], tag))
    if sorted(got['control_names']) != sorted(want['control_names']):
        dis.append(('reader-control-names-differ', want['control_names'],
                    got['control_names'], tag))
    if got['controls'] != want['controls']:
        dis.append(('reader-controls-differ', want['controls'][:12],
                    got['controls'][:12],
                    f'{tag}: [name, slot, rate, defaults] in slot order'))
    if got['has_gate'] != want['has_gate']:
        dis.append(('reader-gate-flag-differs', want['has_gate'],
                    got['has_gate'], tag))
    for key in ('inputs', 'outputs'):
        w = sorted(want[key], key=repr)
        g = sorted(got[key], key=repr)
        if [[a, b, e] for a, b, _, e in w] != \
                [[a, b, e] for a, b, _, e in g]:
            dis.append((f'reader-bus-units-differ', w[:6], g[:6],
                        f'{tag} {key}: [rate, channels, start, class]'))
        elif w != g:
            dis.append((f'reader-bus-start-channel-differs', w[:6], g[:6],
                        f'{tag} {key}: [rate, channels, start, class]'))
    return dis


def reader_check(sd, data, d):
    """The library's own reader on the emitted bytes against the independent
    decoding `d`.  -> (disagreements, summary)"""
    from sc3.base.main import main
    from sc3.synth.synthdesc import SynthDesc
    want = expected_desc(d)
    dis = []
    summ = None
    for tag in ('new_from', '_read_stream'):
        try:
            if tag == 'new_from':
                desc = SynthDesc.new_from(sd)
            else:
                lst = SynthDesc._read_stream(io.BytesIO(data))
                if len(lst) != 1:
                    dis.append(('reader-definition-count', 1, len(lst), tag))
                    continue
                desc = lst[0]
            got = _desc_summary(desc)
        except Exception as e:
            main._current_synthdef = None
            dis.append((f'reader-rejects-bytes', 'a description',
                        repr(e)[:300], f'{tag} @{_where(e)}'))
            continue
        summ = got
        dis += _cmp_desc(tag, want, got)
    try:
        nm = SynthDesc.def_name_from_bytes(bytearray(data))
        if nm != d['name']:
            dis.append(('reader-name-differs', d['name'], nm,
                        'def_name_from_bytes'))
    except Exception as e:
        dis.append(('reader-rejects-bytes', d['name'], repr(e)[:300],
                    'def_name_from_bytes'))
    # a memoryview left by new_from's as_bytes() is released here
    gp.sd_bytes(sd)
    return dis, summ


def decode_one(data, name):
    """Strict parse of one definition. -> (def or None, disagreements)"""
    try:
        dd = scgf.decode(data)
    except scgf.FormatError as e:
        return None, [('scgf-unparsable', 'SCgf v2, all bytes consumed',
                       repr(e)[:300], '')]
    if len(dd['defs']) != 1:
        return None, [('scgf-definition-count', 1, len(dd['defs']), '')]
    d = dd['defs'][0]
    dis = []
    if d['name'] != name:
        dis.append(('definition-name-differs', name, d['name'], ''))
    bad = scgf.validate(d)
    if bad:
        dis.append(('scgf-integrity', [], bad[:4], ''))
    return d, dis


class _Deep:
    """Oracle-side recursion head-room (terms of long chains are deep); the
    library always runs under the interpreter's own limit."""

    def __enter__(self):
        self.old = sys.getrecursionlimit()
        sys.setrecursionlimit(20000)

    def __exit__(self, *a):
        sys.setrecursionlimit(self.old)


def _outcome(d):
    return [[u['name'], u['rate'], u['special'], u['inputs'], u['outputs']]
            for u in d['units']]


# --------------------------------------------------------------------------
# (A) the C01 programs: form + reader
# --------------------------------------------------------------------------

def check_gp(prog):
    """-> (disagreements, nontrivial, outcome, skipped)"""
    try:
        graph, ref = gp.make_function(prog)
    except gp.IllFormed:
        return [], False, None, True
    res = compile_def('g', graph)
    if res[0] == 'raised':
        e = res[2]
        kind = f'valid-graph-rejected-{type(e).__name__}@{_where(e)}'
        return [(kind, 'a compiled definition', repr(e)[:300],
                 f'stage {res[1]}')], ref['nontrivial'], kind, False
    _, sd, data = res
    d, dis = decode_one(data, 'g')
    if d is None or any(k == 'scgf-integrity' for k, *_ in dis):
        return dis, ref['nontrivial'], 'malformed', False
    for kind, detail in xg.form_problems(d):
        dis.append((kind, None, detail, ''))
    # parameters predicted from the AST
    used = {a for st in prog['stmts'] for a in st[1:] if a in ('P', 'I')}
    want = {}
    if 'P' in used:
        want['p'] = [1, [0.25]]
    if 'I' in used:
        want['i'] = [0, [0.75]]
    _, byname = xg.control_table(d)
    got = {k: [v[0], list(v[1])] for k, v in byname.items()}
    if got != want:
        dis.append(('parameters-differ-from-signature', want, got, ''))
    rd, summ = reader_check(sd, data, d)
    dis += rd
    # bus units predicted from the AST
    if summ is not None:
        wanto = sorted([xg.RATE_NAME[r], len(ps), 0.0 if r == 2 else 1.0,
                        'Out'] for r, ps in ref['outs'])
        goto = sorted(summ['outputs'])
        if [x[:2] + x[3:] for x in wanto] != [x[:2] + x[3:] for x in goto]:
            dis.append(('reader-bus-units-not-as-written', wanto, goto, ''))
        if summ['inputs']:
            dis.append(('reader-bus-units-not-as-written', [],
                        summ['inputs'], 'inputs'))
    return dis, ref['nontrivial'], _outcome(d), False


STANDALONE_BUS = '''import sc3
sc3.init('nrt')
from sc3.synth.synthdef import SynthDef
from sc3.synth.synthdesc import SynthDesc
from sc3.synth.ugens.oscillators import SinOsc
from sc3.synth.ugens.inout import Out, In
sd = SynthDef('t', lambda: Out.ar(0, In.ar(0, 2) * SinOsc.ar(440)))
d = SynthDesc.new_from(sd)
print(d.outputs, d.inputs)
assert [x.starting_channel for x in d.outputs + d.inputs] == [0.0, 0.0]
'''


def work_gp(job):
    acc = progenum.Acc()
    for prog in c01.programs(job['space'], job['shard'], job['of'],
                             job['tagbase'], job.get('slice_of', 1),
                             job.get('slice_ix', 0)):
        dis, nt, outcome, skipped = check_gp(prog)
        if skipped:
            acc.count('skipped_ill_formed')
            continue
        for kind, exp, obs, detail in dis:
            acc.violation(kind, prog, exp, obs, detail,
                          size=len(prog['stmts']) * 10000 +
                          len(core.canon(prog)),
                          standalone=STANDALONE_BUS if kind ==
                          'reader-bus-start-channel-differs' else None)
        acc.case(prog, nt, outcome, steps=len(prog['stmts']) + 1)
    return acc.result()


# --------------------------------------------------------------------------
# (B) extended programs
# --------------------------------------------------------------------------

def check_x(prog):
    """-> (disagreements, nontrivial, outcome, skipped)"""
    try:
        with _Deep():
            ref = xg.interpret(prog)
    except xg.IllTyped:
        return [], False, None, True
    graph = make_xfunction(prog, ref['plan'])
    res = compile_def(prog['name'], graph)
    if res[0] == 'raised':
        e = res[2]
        kind = f'valid-graph-rejected-{type(e).__name__}@{_where(e)}'
        return [(kind, 'a compiled definition', repr(e)[:300],
                 f'stage {res[1]}')], ref['nontrivial'], kind, False
    _, sd, data = res
    d, dis = decode_one(data, prog['name'])
    if d is None or any(k == 'scgf-integrity' for k, *_ in dis):
        return dis, ref['nontrivial'], 'malformed', False
    with _Deep():
        dis += xg.compare(prog, ref, d)
    rd, summ = reader_check(sd, data, d)
    dis += rd
    if summ is not None:
        for key, want in (('outputs', ref['outs_desc']),
                          ('inputs', ref['ins_desc'])):
            w = sorted(want, key=repr)
            g = sorted(summ[key], key=repr)
            if [x[:2] + x[3:] for x in w] != [x[:2] + x[3:] for x in g]:
                dis.append(('reader-bus-units-not-as-written', w[:6], g[:6],
                            key))
        if summ['has_gate'] != (prog.get('params') in ('gate', 'mixed')):
            dis.append(('reader-gate-flag-not-as-written',
                        prog.get('params'), summ['has_gate'], ''))
    return dis, ref['nontrivial'], _outcome(d), False


# ---- typed enumeration ----------------------------------------------------

FLAT = ('A', 'K', 'A2', 'K2')
POOL_FULL = ['sin', 'noise', 'nest', 'in', 'pan', 'mul', 'add', 'mul2',
             'lpf', 'sel', 'seed', 'rid', 'lbuf', 'set', 'clear', 'bufrd',
             'fft', 'pv', 'ifft']
POOL_5 = ['sin', 'in', 'pan', 'mul', 'add', 'lpf', 'seed', 'lbuf', 'fft',
          'ifft']
POOL_INS = ['sin', 'noise', 'in', 'pan', 'mul', 'add', 'lpf', 'seed', 'rid',
            'lbuf', 'set', 'clear', 'bufrd', 'fft', 'pv', 'ifft']
PAR_TYPES = {'gate': [(['par', 'gate'], 'K')],
             'mixed': [(['par', 'gate'], 'K'), (['par', 'a'], 'A'),
                       (['par', 'freq', 1], 'K'), (['par', 'i'], 'K'),
                       (['par', 'freq'], 'K3')]}


def result_type(st, types):
    op = st[0]

    def T(a):
        return types[int(a[1:])]
    if op == 'sin':
        return 'A' if st[1] == 'ar' else 'K'
    if op == 'noise':
        return 'A'
    if op == 'nest':
        return 'N'
    if op == 'in':
        return 'A2' if st[1] == 'ar' else 'K2'
    if op == 'pan':
        return {'A': 'A2', 'A2': 'N'}.get(T(st[1]))
    if op in ('mul', 'add'):
        return T(st[1]) if T(st[1]) in FLAT else None
    if op in ('mul2', 'add2'):
        a, b = T(st[1]), T(st[2])
        if a not in ('A', 'K', 'A2') or b not in ('A', 'K', 'A2'):
            return None
        return 'A2' if 'A2' in (a, b) else 'A' if 'A' in (a, b) else 'K'
    if op == 'lpf':
        return T(st[1]) if T(st[1]) in ('A', 'A2') else None
    if op == 'sel':
        return {'A2': 'A', 'K2': 'K'}.get(T(st[1]))
    if op in ('seed', 'rid'):
        return '-'
    if op == 'lbuf':
        return 'B'
    if op in ('set', 'clear'):
        return '-' if T(st[1]) == 'B' else None
    if op == 'bufrd':
        return 'K' if T(st[1]) == 'B' else None
    if op == 'fft':
        return 'C' if T(st[1]) == 'B' and T(st[2]) == 'A' else None
    if op == 'pv':
        return 'C' if T(st[1]) == 'C' else None
    if op == 'ifft':
        return 'A' if T(st[1]) == 'C' else None
    if op == 'par':
        for s, t in PAR_TYPES['mixed']:
            if s == st:
                return t
    if op == 'madd':
        def ok(a):
            return isinstance(a, (int, float)) or T(a) in ('A', 'K')
        if T(st[1]) in ('A', 'K') and ok(st[2]) and ok(st[3]):
            ts = [T(a) for a in st[1:] if isinstance(a, str)]
            return 'A' if 'A' in ts else 'K'
        return None
    if op == 'sum3':
        ts = [T(a) for a in st[1:] if isinstance(a, str)]
        if ts and all(t in ('A', 'K') for t in ts):
            return 'A' if 'A' in ts else 'K'
        return None
    return None


def statements_at(k, types, pool, params='none'):
    """All well-typed statements at position k, canonical order."""
    vs = [f'v{i}' for i in range(k)]
    out = []

    def add(st):
        if result_type(st, types) is not None:
            out.append(st)
    for op in pool:
        if op == 'sin':
            out += [['sin', 'ar'], ['sin', 'kr']]
        elif op in ('noise', 'nest', 'rid', 'lbuf'):
            out.append([op])
        elif op == 'in':
            out += [['in', 'ar'], ['in', 'kr']]
        elif op == 'seed':
            out += [['seed', 'ir'], ['seed', 'kr']]
        elif op in ('pan', 'mul', 'add', 'lpf', 'set', 'clear', 'bufrd',
                    'pv', 'ifft'):
            for v in vs:
                add([op, v])
        elif op in ('mul2', 'add2', 'fft'):
            for a in vs:
                for b in vs:
                    add([op, a, b])
        elif op == 'sel':
            for v in vs:
                for j in (0, 1):
                    add(['sel', v, j])
        elif op == 'madd':
            for a in vs:
                for m in vs + [2, 0.5]:
                    for c in vs + [2, 0.5]:
                        add(['madd', a, m, c])
        elif op == 'sum3':
            for a in vs:
                for b in vs + [2]:
                    for c in vs + [0.5]:
                        add(['sum3', a, b, c])
    if params in PAR_TYPES:
        for s, t in PAR_TYPES[params]:
            if t != 'K3':
                out.append(list(s))
    return out


SIG_TYPES = ('A', 'K', 'A2', 'K2', 'N')


def out_modes(types, params):
    sig = [t for t in types if t in SIG_TYPES]
    if not sig:
        return ['each']
    modes = ['each', 'list']
    if len(sig) > 1:
        modes.insert(0, 'last')
    if any(t in ('A2', 'K2', 'N') for t in sig):
        modes.append('each1')
    if params in ('gate', 'mixed'):
        modes.append('gatebus')
    return modes


def xprograms(length, pools, params, shard, of, tagbase, slice_of=1,
              slice_ix=0):
    """All well-typed extended programs of exactly `length` statements whose
    prefix index falls into this shard / slice."""
    def rec(k, prefix, types):
        if k == length - 1:
            yield prefix, types
            return
        for st in statements_at(k, types, pools[k], params):
            yield from rec(k + 1, prefix + [st],
                           types + [result_type(st, types)])
    idx = -1
    for prefix, types in rec(0, [], []):
        idx += 1
        if idx % of != shard:
            continue
        if slice_of > 1 and (idx // of) % slice_of != slice_ix:
            continue
        k = length - 1
        for st in statements_at(k, types, pools[k], params):
            ts = types + [result_type(st, types)]
            for o in out_modes(ts, params):
                yield {'x': 1, 'name': 'g', 'params': params,
                       'stmts': prefix + [st], 'outs': o, 'tagbase': tagbase}


SKELETONS = {
    'fftchain': [['sin', 'ar'], ['lbuf'], ['fft', 'v1', 'v0'], ['pv', 'v2'],
                 ['ifft', 'v3']],
    'seeding': [['noise'], ['seed', 'ir'], ['noise'], ['mul2', 'v0', 'v2']],
    'localbuf': [['lbuf'], ['set', 'v0'], ['bufrd', 'v0'], ['clear', 'v0'],
                 ['bufrd', 'v0']],
    'multiout': [['sin', 'ar'], ['pan', 'v0'], ['sel', 'v1', 1],
                 ['lpf', 'v2'], ['in', 'kr'], ['sel', 'v4', 0]],
    'optimiser': [['sin', 'ar'], ['mul', 'v0'], ['seed', 'kr'],
                  ['add', 'v1'], ['add', 'v3']],
}


def insertions(skel, m, pool):
    """All programs obtained from the skeleton by inserting exactly m
    well-typed statements (references of the skeleton renumbered)."""
    n = len(skel)

    def rec(si, left, stmts, types, remap):
        # si: next skeleton statement; left: insertions still to make
        if si == n and left == 0:
            yield stmts
            return
        k = len(stmts)
        if left > 0:
            for st in statements_at(k, types, pool):
                yield from rec(si, left - 1, stmts + [st],
                               types + [result_type(st, types)], remap)
        if si < n:
            st = [remap[a] if isinstance(a, str) and a[:1] == 'v' and
                  a[1:].isdigit() else a for a in skel[si]]
            st[0] = skel[si][0]
            t = result_type(st, types)
            r2 = dict(remap)
            r2[f'v{si}'] = f'v{k}'
            yield from rec(si + 1, left, stmts + [st], types + [t], r2)
    yield from rec(0, m, [], [], {})


def skeleton_programs(name, m, shard, of, tagbase, slice_of=1, slice_ix=0):
    idx = -1
    for stmts in insertions(SKELETONS[name], m, POOL_INS):
        idx += 1
        if idx % of != shard:
            continue
        if slice_of > 1 and (idx // of) % slice_of != slice_ix:
            continue
        types = []
        for st in stmts:
            types.append(result_type(st, types))
        for o in out_modes(types, 'none'):
            yield {'x': 1, 'name': 'g', 'params': 'none', 'stmts': stmts,
                   'outs': o, 'tagbase': tagbase}


def work_x(job):
    acc = progenum.Acc()
    if job['gen'] == 'len':
        it = xprograms(job['length'], job['pools'], job['params'],
                       job['shard'], job['of'], job['tagbase'],
                       job.get('slice_of', 1), job.get('slice_ix', 0))
    else:
        it = skeleton_programs(job['skeleton'], job['m'], job['shard'],
                               job['of'], job['tagbase'],
                               job.get('slice_of', 1), job.get('slice_ix', 0))
    for prog in it:
        dis, nt, outcome, skipped = check_x(prog)
        if skipped:
            acc.count('skipped_not_decided')
            continue
        for kind, exp, obs, detail in dis:
            acc.violation(kind, prog, exp, obs, detail,
                          size=len(prog['stmts']) * 10000 +
                          len(core.canon(prog)))
        acc.case(prog, nt, outcome, steps=len(prog['stmts']) + 1)
    return acc.result()


# --------------------------------------------------------------------------
# (C) names
# --------------------------------------------------------------------------

NAME_LENGTHS_OK = [1, 2, 31, 32, 33, 254, 255]
NAME_LENGTHS_BAD = [256, 257, 300, 511, 512]
NAME_BASES = [
    {'params': 'none', 'stmts': [['sin', 'ar']], 'outs': 'each'},
    {'params': 'mixed', 'stmts': [['par', 'a'], ['mul', 'v0']],
     'outs': 'gatebus'},
    {'params': 'none', 'stmts': [['lbuf'], ['set', 'v0'], ['bufrd', 'v0']],
     'outs': 'each'},
]
NAME_ALPHABETS = ['x', 'abcdefghijklmnopqrstuvwxyz_0123456789-.']


def make_name(n, alpha):
    return (alpha * (n // len(alpha) + 1))[:n]


def name_cases(tagbase):
    out = []
    for n in NAME_LENGTHS_OK + NAME_LENGTHS_BAD:
        for ai, alpha in enumerate(NAME_ALPHABETS):
            for bi, base in enumerate(NAME_BASES):
                out.append({'namecase': 1, 'len': n, 'alpha': ai, 'base': bi,
                            'tagbase': tagbase})
                if base['params'] == 'mixed':
                    out.append({'namecase': 1, 'len': n, 'alpha': ai,
                                'base': bi, 'tagbase': tagbase,
                                'variants': True})
    return out


def check_name(case):
    name = make_name(case['len'], NAME_ALPHABETS[case['alpha']])
    prog = dict(NAME_BASES[case['base']], x=1, name=name,
                tagbase=case['tagbase'])
    ref = xg.interpret(prog)
    graph = make_xfunction(prog, ref['plan'])
    variants = {'v': {'gate': 0.5}, 'w': {'freq': [8.0, 16.0]}} \
        if case.get('variants') else None
    res = compile_def(name, graph, variants)
    if case['len'] > 255:
        if res[0] == 'ok':
            return [('name-over-255-accepted',
                     'an exception (a pascal string holds 255 bytes)',
                     f'{len(res[2])} bytes', '')], 'accepted'
        if res[3]:
            return [('bytes-after-exception', None,
                     f'{len(res[3])} bytes after {res[2]!r}', '')], 'left'
        return [], 'refused-' + res[1]
    if res[0] == 'raised':
        e = res[2]
        return [(f'valid-name-rejected', 'a compiled definition',
                 repr(e)[:200] + ' <- ' + repr(e.__cause__)[:200],
                 f'name of {case["len"]} characters, stage {res[1]}')], \
            'rejected'
    _, sd, data = res
    d, dis = decode_one(data, name)
    if d is None or any(k == 'scgf-integrity' for k, *_ in dis):
        return dis, 'malformed'
    dis += xg.compare(prog, ref, d)
    rd, _ = reader_check(sd, data, d)
    dis += rd
    if variants:
        # which variants are written and their values belong to C04; here
        # only the form: every block is named <definition>.<key> (the strict
        # decoder already demands one value per parameter and the count)
        for vname, vals in d['variants']:
            if not (vname.startswith(name + '.') and
                    vname[len(name) + 1:] in variants):
                dis.append(('variant-name-malformed', name + '.<key>', vname,
                            ''))
    return dis, ['ok', len(data), len(d['variants'])]


def work_names(job):
    acc = progenum.Acc()
    for i, case in enumerate(name_cases(job['tagbase'])):
        if i % job['of'] != job['shard']:
            continue
        dis, outcome = check_name(case)
        for kind, exp, obs, detail in dis:
            acc.violation(kind, case, exp, obs, detail)
        acc.case(case, case['len'] in (31, 32, 33, 254, 255, 256, 257),
                 outcome)
    return acc.result()


# --------------------------------------------------------------------------
# (D) scaled families
# --------------------------------------------------------------------------

SCALES_Q = [1, 2, 3, 10, 100]
SCALES_T = [1, 2, 3, 10, 100, 300]
FAMILIES = ['chain-lpf', 'chain-mul', 'chain-add', 'chain-dead', 'sum-chain',
            'fan-out', 'fan-in', 'consts', 'expand', 'controls',
            'seed-noise', 'localbufs', 'pan-tree']


def family_prog(fam, n, tagbase):
    p = {'x': 1, 'name': 'g', 'params': 'none', 'tagbase': tagbase,
         'outs': 'last'}
    if fam == 'chain-lpf':
        st = [['sin', 'ar']] + [['lpf', f'v{i}'] for i in range(n)]
    elif fam == 'chain-mul':
        st = [['sin', 'ar']] + [['mul', f'v{i}'] for i in range(n)]
    elif fam == 'chain-add':
        st = [['sin', 'ar']] + [['add', f'v{i}'] for i in range(n)]
    elif fam == 'chain-dead':
        st = [['sin', 'ar']] + [['lpf', f'v{i}'] for i in range(n)] + \
            [['noise']]
    elif fam == 'sum-chain':
        # v0, then (v1 = sin, v2 = v0 + v1), (v3 = sin, v4 = v2 + v3), ...
        st = [['sin', 'ar']]
        acc = 'v0'
        for i in range(n):
            st.append(['sin', 'ar'])
            st.append(['add2', acc, f'v{len(st) - 1}'])
            acc = f'v{len(st) - 1}'
    elif fam == 'fan-out':
        st = [['sin', 'ar']] + [['lpf', 'v0'] for _ in range(n)]
        p['outs'] = 'list'
    elif fam == 'fan-in':
        st = [['sin', 'kr'] for _ in range(n)]
        p['outs'] = 'list'
    elif fam == 'consts':
        st = [['num'] for _ in range(n)]
        p['outs'] = 'list'
    elif fam == 'expand':
        st = [['sinx', n]]
        p['outs'] = 'each'
    elif fam == 'controls':
        p['params'] = f'arr{n}'
        st = [['par', 'freq']]
        p['outs'] = 'each'
    elif fam == 'seed-noise':
        st = []
        for i in range(n):
            st += [['seed', 'ir'], ['noise']]
        p['outs'] = 'list'
    elif fam == 'localbufs':
        st = []
        for i in range(n):
            st += [['lbuf'], ['set', f'v{3 * i}'], ['bufrd', f'v{3 * i}']]
        p['outs'] = 'list'
    elif fam == 'pan-tree':
        # nested expansion: every level doubles the channels (depth <= 5)
        depth = {1: 1, 2: 2, 3: 3, 10: 4, 100: 5, 300: 6}[n]
        st = [['sin', 'ar']] + [['pan', f'v{i}'] for i in range(depth)]
        p['outs'] = 'list'
    else:
        raise ValueError(fam)
    p['stmts'] = st
    return p


def check_scaled(case):
    prog = family_prog(case['family'], case['n'], case['tagbase'])
    # pan of a nested value is outside the typed generator but inside the law
    dis, nt, outcome, skipped = check_x(prog)
    if skipped:
        return [('scaled-family-not-interpretable', None, case, '')], None
    if isinstance(outcome, list):
        outcome = [len(outcome), core.digest(outcome)]
    return dis, outcome


def work_scaled(job):
    acc = progenum.Acc()
    for case in job['cases']:
        dis, outcome = check_scaled(case)
        for kind, exp, obs, detail in dis:
            acc.violation(kind, case, exp, obs, detail,
                          size=case['n'] * 1000 + len(core.canon(case)))
        acc.case(case, case['n'] >= 3, outcome, steps=case['n'])
    return acc.result()


# --------------------------------------------------------------------------
# (E) single-fault enumeration: invalid graphs must be rejected
# --------------------------------------------------------------------------

FAULT_VALUES = ['nan', 'str', 'none', 'empty', 'tuple']
SLOTS = {'sin': 1, 'noise': 1, 'nest': 1, 'in': 1, 'pan': 2, 'mul': 2,
         'add': 2, 'mul2': 2, 'add2': 2, 'lpf': 2, 'seed': 1, 'rid': 1,
         'lbuf': 1, 'set': 2, 'clear': 1, 'bufrd': 2, 'fft': 3, 'pv': 2,
         'ifft': 2, 'madd': 3, 'sum3': 3, 'sel': 0, 'par': 0, 'num': 0}
AUDIO_SLOTS = {'lpf': [0], 'pan': [0]}
POOL_E = ['sin', 'noise', 'nest', 'in', 'pan', 'mul', 'add', 'mul2', 'lpf',
          'seed', 'rid', 'lbuf', 'set', 'clear', 'bufrd', 'madd', 'sum3']


def fault_bases(tagbase):
    """Valid base programs in which every statement is live: all programs of
    <= 2 statements over POOL_E with every signal value written to a bus, and
    the skeletons."""
    bases = []
    for length in (1, 2):
        for prog in xprograms(length, [POOL_E] * length, 'none', 0, 1,
                              tagbase):
            if prog['outs'] in ('each', 'list'):
                bases.append(prog)
    for name, sk in sorted(SKELETONS.items()):
        for o in ('each', 'list'):
            bases.append({'x': 1, 'name': 'g', 'params': 'none',
                          'stmts': sk, 'outs': o, 'tagbase': tagbase})
    bases.append({'x': 1, 'name': 'g', 'params': 'mixed',
                  'stmts': [['par', 'a'], ['lpf', 'v0'], ['par', 'gate']],
                  'outs': 'each', 'tagbase': tagbase})
    return bases


def fault_cases(base):
    """Every single fault of one base program (plain data)."""
    try:
        ref = xg.interpret(base)
    except xg.IllTyped:
        return []
    out = []
    for k, st in enumerate(base['stmts']):
        for slot in range(SLOTS[st[0]]):
            for v in FAULT_VALUES:
                out.append(dict(base, fault={'at': k, 'slot': slot,
                                             'value': v}))
        for slot in AUDIO_SLOTS.get(st[0], []):
            out.append(dict(base, fault={'at': k, 'slot': slot,
                                         'value': 'krsig'}))
    for oi, rate in enumerate(ref['plan']):
        nch = 1
        for v in FAULT_VALUES:
            out.append(dict(base, fault={'at': 'out', 'index': oi,
                                         'slot': 'bus', 'value': v}))
            out.append(dict(base, fault={'at': 'out', 'index': oi,
                                         'slot': 0, 'value': v}))
        if rate == 'ar':
            out.append(dict(base, fault={'at': 'out', 'index': oi,
                                         'slot': 0, 'value': 'krsig'}))
    if ref['plan'] and ref['plan'][-1] == 'kr' and base['outs'] == 'each' \
            and len(ref['plan']) == 1:
        out.append(dict(base, outs='force_ar'))
    return out


def check_fault(prog):
    """A faulted program must raise and yield no bytes (an empty list is
    accepted when it compiles to a well-formed definition).
    -> (disagreements, outcome)"""
    f = prog.get('fault') or {'value': 'force_ar'}
    try:
        ref = xg.interpret(dict(prog, fault=None))
        plan = ref['plan']
    except xg.IllTyped:
        plan = None
    if f.get('at') == 'out' or f['value'] == 'force_ar':
        # the output call the fault sits in keeps its reference rate
        pass
    graph = make_xfunction(prog, plan)
    res = compile_def('g', graph)
    fk = f"{f['value']}"
    if res[0] == 'raised':
        if res[3]:
            return [('bytes-after-exception', 'no bytes',
                     f'{len(res[3])} bytes after {res[2]!r}', '')], 'left'
        e = res[2]
        return [], f'raised-{res[1]}-{type(e).__name__}'
    _, sd, data = res
    if f['value'] not in ('empty', 'tuple'):
        d = None
        try:
            d = scgf.decode(data)['defs'][0]
            shown = _outcome(d)[:8]
        except Exception as e:
            shown = repr(e)
        return [(f'invalid-graph-compiled-{fk}',
                 'an exception and no bytes', f'{len(data)} bytes: {shown}',
                 f'fault {f}')], 'compiled'
    d, dis = decode_one(data, 'g')
    if d is None or any(k == 'scgf-integrity' for k, *_ in dis):
        return [(f'{fk}-input-compiled-malformed', 'an exception or a '
                 'well-formed definition', dis[0][2], f'fault {f}')], \
            'malformed'
    if fk == 'tuple':
        return [], 'tuple-compiled-wellformed'
    dis = [(f'empty-list-compiled-{k}', a, b, c)
           for k, a, b, c in
           [(k, None, det, '') for k, det in xg.form_problems(d)]]
    rd, _ = reader_check(sd, data, d)
    dis += [(f'empty-list-compiled-{k}', a, b, c) for k, a, b, c in rd
            if k != 'reader-bus-start-channel-differs']
    return dis, 'empty-compiled-wellformed'


def work_faults(job):
    acc = progenum.Acc()
    bases = fault_bases(job['tagbase'])
    idx = -1
    for bi, base in enumerate(bases):
        if bi % job['of'] != job['shard']:
            continue
        for case in fault_cases(base):
            dis, outcome = check_fault(case)
            for kind, exp, obs, detail in dis:
                acc.violation(kind, case, exp, obs, detail,
                              size=len(case['stmts']) * 10000 +
                              len(core.canon(case)))
            acc.case(case, True, outcome)
    return acc.result()


# --------------------------------------------------------------------------

def replay(job):
    case = job['case']
    if 'namecase' in case:
        dis, observed = check_name(case)
    elif 'family' in case:
        dis, observed = check_scaled(case)
    elif case.get('x') and ('fault' in case or case['outs'] == 'force_ar'):
        dis, observed = check_fault(case)
    elif case.get('x'):
        dis, _, observed, _ = check_x(case)
    else:
        dis, _, observed, _ = check_gp(case)
    return {'violates': any(d[0] == job['kind'] for d in dis),
            'disagreements': [[d[0], repr(d[1])[:500], repr(d[2])[:500]]
                              for d in dis],
            'observed': observed if not isinstance(observed, list)
            else observed[:40]}


def _bus_zero(v, **_):
    """Known finding predicate: the reader reports '?' for a bus unit whose
    starting channel is the constant 0."""
    exp, obs = v.get('expected') or [], v.get('observed') or []
    if len(exp) != len(obs):
        return False
    diff = [(a, b) for a, b in zip(exp, obs) if a != b]
    return bool(diff) and all(
        a[:2] == b[:2] and a[3] == b[3] and a[2] == 0.0 and b[2] == '?'
        for a, b in diff)


PREDICATES = {'bus_zero_reported_unknown': _bus_zero}


def main(ctx):
    ctx.rule = (
        'E1: every C01 program (mc/graphprog.py) and every well-typed '
        'extended program (mc/oracles/xgraph.py: multi-output units, nested '
        'expansion, width-first units, parameters) up to the statement '
        'bound with every output option, every skeleton with m inserted '
        'statements, name lengths and scaled families are compiled by the '
        'real SynthDef; bytes are parsed strictly, checked for reference '
        'integrity, count/rate/output consistency, side-effecting units and '
        'width-first order against the AST, and read back by SynthDesc. '
        'E4: every single fault (nan, str, None, [], control-rate signal '
        'where audio is required) of every base program must raise. '
        'Distinct = literally different case. Non-trivial = C01 rule for C01 '
        'programs; for extended programs a width-first unit with units '
        'created before and after it, a multi-output unit, nested '
        'expansion, dead code or an optimiser rewrite; names at a length '
        'limit; families with N >= 3; every fault case.')
    ctx.assumptions += [
        'independent decoder mc/oracles/scgf.py (SCgf v2 reference) and '
        'reference run mc/oracles/xgraph.py (input order of the unit classes '
        'typed from the UGen help files; wrap-and-zip expansion law)',
        'creation order of a decoded unit is read from the tag constant of '
        'its statement (units without a tag are ordered only by wiring)',
        'the reader is compared with the independent decoding of the same '
        'bytes; order of bus descriptors and of control_names is not '
        'demanded; an empty channel list may compile if the result is '
        'well-formed']
    tagbase = 128 + 64 * (ctx.seed % 4)
    quick = ctx.tier == 'quick'
    gtag = 100 + 32 * (ctx.seed % 4)

    progenum.run(ctx, MODNAME, 'work_names',
                 [{'shard': i, 'of': 8, 'tagbase': tagbase}
                  for i in range(8)], bound='names')
    scales = SCALES_Q if quick else SCALES_T
    cases = [{'family': f, 'n': n, 'tagbase': tagbase}
             for n in scales for f in FAMILIES]
    # big cases first so that they do not end up in one shard
    cases.sort(key=lambda c: -c['n'])
    progenum.run(ctx, MODNAME, 'work_scaled',
                 [{'cases': cases[i::32]} for i in range(32)],
                 bound='scaled families N in ' + str(scales))
    ctx.extra['scaled_families'] = (
        'not exhaustive in N: N in ' + str(scales) + ' for ' +
        ', '.join(FAMILIES))

    NS = 64
    progenum.run(ctx, MODNAME, 'work_faults',
                 [{'shard': i, 'of': NS, 'tagbase': tagbase}
                  for i in range(NS)],
                 bound='single faults of all bases (<=2 statements + '
                       'skeletons)')

    # (A) C01 programs
    progenum.run(ctx, MODNAME, 'work_gp',
                 [{'space': 's1', 'shard': i, 'of': 16, 'tagbase': gtag}
                  for i in range(16)], bound='C01 programs, 1 statement')
    if quick:
        k = 8
        progenum.run(ctx, MODNAME, 'work_gp',
                     [{'space': 's2', 'shard': i, 'of': NS, 'tagbase': gtag,
                       'slice_of': k,
                       'slice_ix': core.pick_slice(ctx.seed, k)}
                      for i in range(NS)],
                     bound=f'C01 programs, 2 statements, 1/{k} slice chosen '
                           'by seed (not exhaustive)')
    else:
        progenum.run(ctx, MODNAME, 'work_gp',
                     [{'space': 's2', 'shard': i, 'of': 128,
                       'tagbase': gtag} for i in range(128)],
                     bound='C01 programs, 2 statements')

    # (B) extended programs
    for length in (1, 2, 3):
        progenum.run(ctx, MODNAME, 'work_x',
                     [{'gen': 'len', 'length': length,
                       'pools': [POOL_FULL] * length, 'params': 'none',
                       'shard': i, 'of': NS, 'tagbase': tagbase}
                      for i in range(NS if length > 1 else 1)],
                     bound=f'extended programs, {length} statements')
    for params in ('gate', 'mixed'):
        progenum.run(ctx, MODNAME, 'work_x',
                     [{'gen': 'len', 'length': 2,
                       'pools': [POOL_FULL] * 2, 'params': params,
                       'shard': i, 'of': 16, 'tagbase': tagbase}
                      for i in range(16)],
                     bound=f'extended programs with parameters ({params}), '
                           '2 statements')
    for name in sorted(SKELETONS):
        for m in (0, 1):
            progenum.run(ctx, MODNAME, 'work_x',
                         [{'gen': 'skel', 'skeleton': name, 'm': m,
                           'shard': i, 'of': 16, 'tagbase': tagbase}
                          for i in range(16)],
                         bound=f'skeleton + {m} inserted statements')
    if quick:
        k = 16
        for name in sorted(SKELETONS):
            progenum.run(ctx, MODNAME, 'work_x',
                         [{'gen': 'skel', 'skeleton': name, 'm': 2,
                           'shard': i, 'of': NS, 'tagbase': tagbase,
                           'slice_of': k,
                           'slice_ix': core.pick_slice(ctx.seed, k)}
                          for i in range(NS)],
                         bound=f'skeleton + 2 inserted statements, 1/{k} '
                               'slice chosen by seed (not exhaustive)')
        k = 4
        progenum.run(ctx, MODNAME, 'work_x',
                     [{'gen': 'len', 'length': 4,
                       'pools': [POOL_FULL] * 4, 'params': 'none',
                       'shard': i, 'of': NS, 'tagbase': tagbase,
                       'slice_of': k,
                       'slice_ix': core.pick_slice(ctx.seed, k)}
                      for i in range(NS)],
                     bound=f'extended programs, 4 statements, 1/{k} slice '
                           'chosen by seed (not exhaustive)')
        ctx.extra['exhaustive_bounds'] = [
            'names', 'single faults', 'C01 programs 1 statement',
            'extended programs <= 3 statements',
            'extended programs with parameters 2 statements',
            'skeletons + <= 1 inserted statement']
        ctx.extra['sampled_slices'] = [
            'C01 programs 2 statements: 1/8 of the prefixes',
            'skeletons + 2 inserted statements: 1/16',
            'extended programs 4 statements: 1/4 of the prefixes']
    else:
        for name in sorted(SKELETONS):
            progenum.run(ctx, MODNAME, 'work_x',
                         [{'gen': 'skel', 'skeleton': name, 'm': 2,
                           'shard': i, 'of': 128, 'tagbase': tagbase}
                          for i in range(128)],
                         bound='skeleton + 2 inserted statements')
        progenum.run(ctx, MODNAME, 'work_x',
                     [{'gen': 'len', 'length': 4,
                       'pools': [POOL_FULL] * 4, 'params': 'none',
                       'shard': i, 'of': 512, 'tagbase': tagbase}
                      for i in range(512)],
                     bound='extended programs, 4 statements')
        progenum.run(ctx, MODNAME, 'work_x',
                     [{'gen': 'len', 'length': 5,
                       'pools': [POOL_5] * 5, 'params': 'none',
                       'shard': i, 'of': 1024, 'tagbase': tagbase}
                      for i in range(1024)],
                     bound='extended programs, 5 statements, reduced pool')
        ctx.extra['exhaustive_bounds'] = [
            'names', 'single faults', 'C01 programs <= 2 statements',
            'extended programs <= 4 statements (full pool), 5 statements '
            '(pool sin, in, pan, mul, add, lpf, seed, lbuf, fft, ifft)',
            'extended programs with parameters 2 statements',
            'skeletons + <= 2 inserted statements']
