"""C13 - patterns denote the sequences their definitions say, compositionally;
patterns are immutable blueprints.

E1 (progenum): every pattern expression of a bounded grammar is built through
the library's public constructors / operators and is run four ways
(`stream.next(inval)`, the iterator protocol / `list(p)`, the generator
`stm.embed(p, inval)`, `stream.all()`); the first CAP items and the end
position are compared with the denotational reference
`mc.oracles.patterns_ref`, and the runs must agree with one another exactly
(also for random patterns under Pseed).  Then two streams of the *same*
pattern object are advanced in all 16 interleavings of length 4 and in two
long schedules and must each repeat the solo sequence, and the pattern
graph's `__dict__`s are deep-compared with a snapshot taken before the first
stream was made.

Equal sub-expressions are built once and shared (hash-consing), so a pattern
object that occurs twice in an expression is literally the same blueprint
used by two embeddings."""

import sys

from mc import core
from mc.engines import progenum
from mc.oracles import patterns_ref as ref

MODE = 'nrt'
MODNAME = 'mc.checks.c13'

CAP = 24            # items compared per run
BUDGET = 100000     # counted events (calls, resumes, jumps, branches) per guarded run
INVAL = 7           # value passed to stream.next(inval)
NSHARDS = 64
LONG_ILV = 8        # items per stream in the two long interleavings

I = 'inf'


# ---------------------------------------------------------------------------
# expression helpers (plain data)
# ---------------------------------------------------------------------------

def is_node(x):
    return ref.is_node(x)


def children(expr):
    """Pattern-valued sub-expressions of a node, in argument order."""
    out = []
    for a in expr[1:]:
        if is_node(a):
            out.append(a)
        elif isinstance(a, list):
            for i in a:
                if is_node(i):
                    out.append(i)
                elif isinstance(i, list):
                    out += [j for j in i if is_node(j)]
    return out


def depth(expr):
    if not is_node(expr):
        return 0
    return 1 + max([depth(c) for c in children(expr)] + [0])


def heads(expr, acc=None):
    acc = set() if acc is None else acc
    if is_node(expr):
        acc.add(expr[0])
        for c in children(expr):
            heads(c, acc)
    return acc


def subexprs(expr):
    """All node sub-expressions including expr itself."""
    out = [expr]
    for c in children(expr):
        out += subexprs(c)
    return out


RANDOM_HEADS = ('Pwhite', 'Prand', 'Pshuffle')
# constructors called with their arguments in positional order (trailing
# arguments may be omitted in an expression: the library default applies)
LIST_HEADS = ('Pseq', 'Pser', 'Place', 'Ptuple', 'Prand', 'Pshuffle',
              'Pswitch', 'Pswitch1')
FILTER_HEADS = ('Pn', 'Plen', 'Pdrop', 'Pstutter', 'Pclump', 'Pflatten',
                'Pconst', 'Pseed', 'Pdiff', 'Pwrap')
VALUE_HEADS = ('Pseries', 'Pgeom', 'Pwhite')
PLAIN_HEADS = LIST_HEADS + FILTER_HEADS + VALUE_HEADS + ('Pif',)
SLIDE_KW = ('length', 'step', 'start', 'wrap', 'repeats')
SLIDE_DEFAULT = (3, 1, 0, True, 1)
UNOP_SRC = {'neg': '(-%s)', 'abs': 'abs(%s)', 'pos': '(+%s)',
            'invert': '(~%s)'}
BINOP_SYM = {'add': '+', 'sub': '-', 'mul': '*', 'lt': '<', 'le': '<=',
             'gt': '>', 'ge': '>=', 'eq': '==', 'ne': '!=', 'div': '/',
             'floordiv': '//', 'mod': '%', 'pow': '**'}
SEED1 = ['Pseq', [7], 1, 0]


def to_source(expr):
    """Python source of the library expression (for standalone snippets)."""
    if not is_node(expr):
        if expr == 'inf':
            return 'inf'
        if isinstance(expr, list):
            return '[' + ', '.join(to_source(i) for i in expr) + ']'
        return repr(expr)
    h, a = expr[0], expr[1:]
    s = to_source
    if h == 'Pslide':
        kw = ', '.join('%s=%s' % (k, s(v))
                       for k, v in zip(SLIDE_KW, a[1:]))
        return 'Pslide(%s%s)' % (s(a[0]), ', ' + kw if kw else '')
    if h in PLAIN_HEADS:
        return '%s(%s)' % (h, ', '.join(s(i) for i in a))
    if h in ('Pcollect', 'Pselect', 'Preject'):
        return f'{h}(F_{a[0]}, {s(a[1])})'
    if h == 'unop':
        return UNOP_SRC[a[0]] % s(a[1])
    if h == 'binop':
        sym = BINOP_SYM.get(a[0])
        if sym:
            return f'({s(a[1])} {sym} {s(a[2])})'
        return f'bi.{a[0]}({s(a[1])}, {s(a[2])})'
    if h == 'narop':
        return f'bi.{a[0]}(' + ', '.join(s(i) for i in a[1:]) + ')'
    raise ValueError(h)


def standalone(expr, n):
    return (
        'import itertools, sc3\n'
        "sc3.init('nrt')\n"
        'from sc3.base import builtins as bi\n'
        'from sc3.seq.patterns.listpatterns import *\n'
        'from sc3.seq.patterns.filterpatterns import *\n'
        'from sc3.seq.patterns.valuepatterns import *\n'
        'from sc3.seq.patterns.funcpatterns import *\n'
        "inf = float('inf')\n"
        'F_add10 = lambda x: x + 10\nF_double = lambda x: x * 2\n'
        'F_even = lambda x: x % 2 == 0\nF_gt1 = lambda x: x > 1\n'
        f'p = {to_source(expr)}\n'
        f'print(list(itertools.islice(iter(p), {n})))\n'
        '# blueprint: two streams of p, alternately advanced, each repeat '
        'the solo sequence\n'
        's1, s2 = iter(p), iter(p)\n'
        'print([(next(s1, None), next(s2, None)) for _ in range(3)])\n')


# ---------------------------------------------------------------------------
# building the real objects
# ---------------------------------------------------------------------------

PY_UNOPS = {'neg': lambda x: -x, 'abs': lambda x: abs(x),
            'pos': lambda x: +x, 'invert': lambda x: ~x}
PY_BINOPS = {
    'add': lambda x, y: x + y, 'sub': lambda x, y: x - y,
    'mul': lambda x, y: x * y, 'lt': lambda x, y: x < y,
    'le': lambda x, y: x <= y, 'gt': lambda x, y: x > y,
    'ge': lambda x, y: x >= y, 'eq': lambda x, y: x == y,
    'ne': lambda x, y: x != y, 'div': lambda x, y: x / y,
    'floordiv': lambda x, y: x // y, 'mod': lambda x, y: x % y,
    'pow': lambda x, y: x ** y,
}


def build(expr, memo):
    if not is_node(expr):
        if expr == 'inf':
            return float('inf')
        if isinstance(expr, list):
            return [build(i, memo) for i in expr]
        return expr
    key = core.canon(expr)
    if key in memo:
        return memo[key]
    from sc3.base import builtins as bi
    from sc3.seq.patterns import listpatterns as lp
    from sc3.seq.patterns import filterpatterns as fp
    from sc3.seq.patterns import valuepatterns as vp
    from sc3.seq.patterns import funcpatterns as fnp
    h, a = expr[0], expr[1:]

    def b(x):
        return build(x, memo)
    if h in LIST_HEADS:
        obj = getattr(lp, h)(*[b(i) for i in a])
    elif h == 'Pslide':
        obj = lp.Pslide(b(a[0]), **{k: b(v) for k, v in zip(SLIDE_KW, a[1:])})
    elif h in FILTER_HEADS:
        obj = getattr(fp, h)(*[b(i) for i in a])
    elif h in ('Pcollect', 'Pselect', 'Preject'):
        obj = getattr(fp, h)(ref.FUNCS[a[0]], b(a[1]))
    elif h in VALUE_HEADS:
        obj = getattr(vp, h)(*[b(i) for i in a])
    elif h == 'Pif':
        obj = fnp.Pif(b(a[0]), b(a[1]), b(a[2]))
    elif h == 'unop':
        x = b(a[1])
        obj = PY_UNOPS[a[0]](x)
    elif h == 'binop':
        x, y = b(a[1]), b(a[2])
        op = a[0]
        if op in PY_BINOPS:
            obj = PY_BINOPS[op](x, y)     # the Python operator / dunder route
        elif op in ('min', 'max'):
            obj = getattr(bi, op)(x, y)
        else:
            raise core.HarnessError(f'binop {op}')
    elif h == 'narop':
        obj = getattr(bi, a[0])(*[b(i) for i in a[1:]])
    else:
        raise core.HarnessError(f'unknown head {h}')
    memo[key] = obj
    return obj


def snapshot(obj, ids=None, depth=0):
    """Plain structural copy of a pattern graph (every attribute of every
    reachable pattern, lists, tuples, numbers; other objects by identity,
    numbered in first-seen order so that the result is deterministic)."""
    from sc3.seq.pattern import Pattern
    ids = {} if ids is None else ids
    if depth > 12:
        return '...'
    if isinstance(obj, Pattern):
        return ['P', type(obj).__name__,
                [[k, snapshot(v, ids, depth + 1)]
                 for k, v in sorted(vars(obj).items())]]
    if isinstance(obj, list):
        return ['L'] + [snapshot(i, ids, depth + 1) for i in obj]
    if isinstance(obj, tuple):
        return ['T'] + [snapshot(i, ids, depth + 1) for i in obj]
    if isinstance(obj, (bool, int, float, str)) or obj is None:
        return [type(obj).__name__, repr(obj)]
    n = ids.setdefault(id(obj), len(ids))
    return ['O', getattr(obj, '__name__', type(obj).__name__), n]


def snapdiff(a, b, path='p', out=None):
    """Paths at which two snapshots differ (at most 4)."""
    out = [] if out is None else out
    if len(out) >= 4 or a == b:
        return out
    if isinstance(a, list) and isinstance(b, list) and len(a) == len(b) \
            and a and a[0] == b[0] and a[0] in ('P', 'L', 'T'):
        if a[0] == 'P' and a[1] == b[1] and \
                [k for k, _ in a[2]] == [k for k, _ in b[2]]:
            for (k, x), (_, y) in zip(a[2], b[2]):
                snapdiff(x, y, f'{path}.{k}', out)
            return out
        if a[0] in ('L', 'T'):
            for i, (x, y) in enumerate(zip(a[1:], b[1:])):
                snapdiff(x, y, f'{path}[{i}]', out)
            return out
    out.append([path, a if len(core.canon(a)) < 200 else '...',
                b if len(core.canon(b)) < 200 else '...'])
    return out


# ---------------------------------------------------------------------------
# observing the library (every run guarded by the step budget)
# ---------------------------------------------------------------------------

END = 'END'


class _MonBudget:
    """Step budget on sys.monitoring (Python >= 3.12): counts function
    starts, generator resumes, jumps and branches - every loop shape produces
    one of them - and raises StepBudgetExceeded past the limit.  Same contract
    as progenum.budget (deterministic, no wall clock) at a fraction of the
    cost of line tracing."""
    TOOL = 3

    def __init__(self, limit):
        self.limit = limit
        self.n = 0

    def _cb(self, *args):
        self.n += 1
        if self.n > self.limit:
            sys.monitoring.set_events(self.TOOL, 0)
            raise progenum.StepBudgetExceeded(self.limit)

    def __enter__(self):
        mon = sys.monitoring
        ev = mon.events
        if mon.get_tool(self.TOOL) is None:
            mon.use_tool_id(self.TOOL, 'c13-step-budget')
        for e in (ev.JUMP, ev.BRANCH, ev.PY_START, ev.PY_RESUME):
            mon.register_callback(self.TOOL, e, self._cb)
        mon.set_events(self.TOOL,
                       ev.JUMP | ev.BRANCH | ev.PY_START | ev.PY_RESUME)
        return self

    def __exit__(self, *exc):
        sys.monitoring.set_events(self.TOOL, 0)
        return False


def budget(limit):
    if hasattr(sys, 'monitoring'):
        return _MonBudget(limit)
    return progenum.budget(limit)


def norm(v):
    """JSON-able, container-type-free rendering of an observed value."""
    if isinstance(v, (list, tuple)):
        return [norm(i) for i in v]
    if isinstance(v, (bool, int, float)) or v is None:
        return v
    return repr(v)


MAXSTEPS = [0]      # largest number of events one guarded run needed


def guarded(steps):
    """Run the callables of `steps` one after another under one budget; each
    returns a token or raises.  Result: list of tokens, the last of which may
    be ['EXC', type] or ['BUDGET'].  Stops at the first END/EXC/BUDGET."""
    out = []
    bud = budget(BUDGET)
    try:
        with bud:
            for f in steps:
                try:
                    tok = f()
                except progenum.StepBudgetExceeded:
                    raise
                except BaseException as e:          # noqa
                    if isinstance(e, (KeyboardInterrupt, SystemExit)):
                        raise
                    out.append(['EXC', type(e).__name__, str(e)[:200]])
                    break
                out.append(tok)
                if tok == END:
                    break
    except progenum.StepBudgetExceeded:
        out.append(['BUDGET'])
    MAXSTEPS[0] = max(MAXSTEPS[0], min(bud.n, BUDGET))
    return out


def drive_next(p, n):
    from sc3.base import stream as stm
    box = {}

    def first():
        box['s'] = stm.stream(p)
        return step()

    def step():
        try:
            return ['v', box['s'].next(INVAL)]
        except stm.StopStream:
            return END
    return guarded([first] + [step] * (n - 1)) if n > 0 else []


def drive_iter(p, n):
    box = {}

    def first():
        box['it'] = iter(p)
        return step()

    def step():
        try:
            return ['v', next(box['it'])]
        except StopIteration:
            return END
    return guarded([first] + [step] * (n - 1)) if n > 0 else []


def drive_embed(p, n):
    """The embedding protocol used directly: stm.embed(p, inval) is a
    generator; next() starts it, send(inval) resumes it."""
    from sc3.base import stream as stm
    box = {}

    def first():
        box['g'] = stm.embed(p, INVAL)
        try:
            return ['v', next(box['g'])]
        except StopIteration:
            return END

    def step():
        try:
            return ['v', box['g'].send(INVAL)]
        except StopIteration:
            return END
    return guarded([first] + [step] * (n - 1)) if n > 0 else []


def whole(p, how):
    """list(p) / stream.all() for a pattern the reference says is finite."""
    from sc3.base import stream as stm

    def f():
        if how == 'list':
            return ['w', list(p)]
        return ['w', stm.stream(p).all(INVAL)]
    return guarded([f])


def showtoks(toks):
    return [t if t == END or t[0] != 'v' else norm(t[1]) for t in toks]


def compare(den, toks):
    """Reference (denote result) against observed tokens of one run.
    Returns (disc, index, expected, observed) or None."""
    items, status = den['items'], den['status']
    for i, e in enumerate(items):
        if i >= len(toks):
            raise core.HarnessError('observation shorter than requested')
        t = toks[i]
        if t == END:
            return ('early-end', i, ref.show(e), END)
        if t[0] == 'EXC':
            return ('exception-' + t[1], i, ref.show(e), t)
        if t[0] == 'BUDGET':
            return ('no-progress', i, ref.show(e), t)
        if not ref.matches(e, t[1]):
            return ('value', i, ref.show(e), norm(t[1]))
    if status == 'end':
        i = len(items)
        t = toks[i]
        if t == END:
            return None
        if t[0] == 'EXC':
            return ('exception-' + t[1], i, END, t)
        if t[0] == 'BUDGET':
            return ('no-end', i, END, t)
        return ('extra', i, END, norm(t[1]))
    return None


def failures(expr):
    """All disagreements of one expression: {disc: (expected, observed,
    detail)} plus an info dict."""
    from sc3.base import stream as stm
    out = {}
    info = {}
    den = ref.denote(expr, CAP)
    items, status = den['items'], den['status']
    info['status'] = status
    n = len(items) + (1 if status == 'end' else 0)
    exp_show = [ref.show(i) for i in items] + \
        ([END] if status == 'end' else ['<' + status + '>'])
    memo = {}
    try:
        p = build(expr, memo)
    except core.HarnessError:
        raise
    except Exception as e:
        if status == 'dontcare' and not items:
            info['outcome'] = 'unbuildable-dontcare'
            return out, info
        out['build-exception-' + type(e).__name__] = (
            exp_show, repr(e)[:300], 'constructor raised')
        info['outcome'] = 'build-exception'
        return out, info
    before = snapshot(p)

    # --- solo runs ---
    solo = drive_next(p, n)
    obs_show = showtoks(solo)
    info['outcome'] = obs_show
    info['compared'] = len(solo)
    c = compare(den, solo)
    if c:
        out[c[0]] = (exp_show, obs_show,
                     f'stream.next({INVAL}) item {c[1]}: expected {c[2]}, '
                     f'observed {c[3]}')
    else:
        msg = ref.perm_groups_ok(items, [t[1] for t in solo[:len(items)]])
        if msg:
            out['perm'] = (exp_show, obs_show, msg)
    for mode, drive in (('iter', drive_iter), ('embed', drive_embed)):
        it = drive(p, n)
        if showtoks(it) == obs_show:
            continue
        what = {'iter': 'iterator protocol', 'embed': 'stm.embed(p, inval) '
                'generator'}[mode]
        ci = compare(den, it)
        if ci:
            out['mode-' + mode] = (
                exp_show, showtoks(it),
                f'{what} differs from stream.next and from the '
                f'reference at item {ci[1]}: expected {ci[2]}, observed '
                f'{ci[3]}')
        elif c is None and not bare_random(expr):
            # both runs satisfy the reference (random values under Pseed)
            # but are not the same sequence
            out['repeat'] = (
                obs_show, showtoks(it),
                f'{what} on a fresh stream of the same pattern gives '
                f'another sequence than stream.next (no unseeded random '
                f'pattern in the expression)')
    if status == 'end' and c is None:
        for how in ('list', 'all'):
            t = whole(p, how)[0]
            if t != END and t[0] == 'w':
                got = [['v', x] for x in t[1]] + [END]
                cw = compare(den, got) if len(got) >= n else \
                    ('early-end', len(got) - 1, '', END)
                if cw:
                    out['mode-' + how] = (
                        exp_show, norm(t[1]),
                        f'{how} differs from the reference at item {cw[1]}')
            else:
                out['mode-' + how] = (exp_show, t, f'{how}() on a finite '
                                      'pattern raised / did not return')

    # --- two streams of one blueprint, all interleavings of length 4 ---
    solo_tok = []
    for t in solo:
        if t == END:
            solo_tok.append(END)
        elif t[0] == 'v':
            solo_tok.append(norm(t[1]))
        else:
            break
    plans = [[(w >> k) & 1 for k in range(4)] for w in range(16)]
    m = min(len(solo_tok), LONG_ILV)
    if m > 2:
        # longer schedules, streams made at their first use: strict
        # alternation, and one stream run to its m-th item between the 2nd
        # and 3rd item of the other
        plans.append([0, 1] * m)
        plans.append([0, 0] + [1] * m + [0] * (m - 2))
    for order in plans:
        res = _interleave(p, order, solo_tok)
        if res is not None and 'interleave' not in out:
            out['interleave'] = (solo_tok[:4 if len(order) == 4 else m],
                                 res[1],
                                 f'two streams of one pattern advanced in '
                                 f'order {res[0]}; stream {res[2]} deviates '
                                 f'from the solo sequence')
            break
    after = snapshot(p)
    if after != before:
        d = snapdiff(before, after)
        out['blueprint-mutated'] = (
            [[x[0], x[1]] for x in d], [[x[0], x[2]] for x in d],
            'pattern attributes changed by making/running streams')
    return out, info


def _interleave(p, order, solo_tok):
    from sc3.base import stream as stm
    outs = [[], []]
    box = {'s': [None, None]}
    eager = len(order) == 4

    def mk():
        if eager:
            box['s'] = [stm.stream(p), stm.stream(p)]
        return ['v', None]

    def stepper(i):
        def f():
            if len(outs[i]) >= len(solo_tok) or \
                    (outs[i] and outs[i][-1] == END):
                return ['skip']
            if box['s'][i] is None:
                box['s'][i] = stm.stream(p)
            try:
                v = ['v', box['s'][i].next(INVAL)]
            except stm.StopStream:
                v = END
            outs[i].append(norm(v[1]) if v != END else END)
            return ['v', None]
        return f
    toks = guarded([mk] + [stepper(i) for i in order])
    last = toks[-1]
    if isinstance(last, list) and last[0] in ('EXC', 'BUDGET'):
        return (order, [outs, last], '?')
    for i in (0, 1):
        if outs[i] != solo_tok[:len(outs[i])]:
            return (order, outs, i)
    return None


# ---------------------------------------------------------------------------
# one case
# ---------------------------------------------------------------------------

def bare_random(expr):
    """Does expr contain a random pattern that is not under a Pseed of its
    own?"""
    if not is_node(expr):
        return False
    if expr[0] in RANDOM_HEADS:
        return True
    if expr[0] == 'Pseed':
        return bare_random(expr[1])
    return any(bare_random(c) for c in children(expr))


SEQ_DISCS = ('value', 'early-end', 'extra', 'exception-', 'no-progress',
             'no-end', 'perm', 'build-exception-')


def disc_class(disc):
    """Solo-sequence disagreements form one class (a wrong item in a child
    shows up as a shifted value, a missing end ... in the parent)."""
    return 'seq' if disc.startswith(SEQ_DISCS) else disc


_SUBCACHE = {}


def _sub_failures(expr):
    k = core.canon(expr)
    if k not in _SUBCACHE:
        if len(_SUBCACHE) > 20000:
            _SUBCACHE.clear()
        _SUBCACHE[k] = failures(expr)[0]
    return _SUBCACHE[k]


def blame(expr, disc):
    """(disc, sub-expression): descend into the first child that shows any
    disagreement on its own (preferring one of the same class), so that one
    defect is one kind wherever it is nested; a stale-state defect of a child
    (visible there as interleave / blueprint-mutated / mode-*) shows up in a
    parent as a wrong value.  A sub-expression with an unseeded random
    pattern is evaluated under a Pseed of its own."""
    real = expr
    while True:
        nxt = None
        for c in children(real):
            cc = ['Pseed', SEED1, c] if bare_random(c) else c
            f = _sub_failures(cc)
            if f:
                same = sorted(d for d in f
                              if disc_class(d) == disc_class(disc))
                disc = same[0] if same else sorted(f)[0]
                nxt = c
                break
        if nxt is None:
            return disc, real
        real = nxt


def slide_args(node):
    """(length, step, start, wrap, repeats) of a Pslide node, library
    defaults filled in for omitted trailing arguments."""
    given = tuple(node[2:])
    return given + SLIDE_DEFAULT[len(given):]


def variant(node):
    """Sub-family of the blamed constructor, so that different defects of one
    class do not share a kind."""
    if node[0] == 'Pslide':
        step, start, wrap = slide_args(node)[1:4]
        if wrap is not False:
            return '[wrap]'
        neg = is_node(step) or (isinstance(step, int) and step < 0) or \
            (isinstance(start, int) and start < 0)
        return '[nowrap,step<0]' if neg else '[nowrap]'
    return ''


def check_case(case, info_out=None):
    expr = case['expr']
    f, info = failures(expr)
    if info_out is not None:
        info_out.update(info)
    dis = {}
    for disc in sorted(f):
        exp, obs, detail = f[disc]
        d, node = blame(expr, disc)
        kind = f'{d}:{node[0]}{variant(node)}'
        if kind not in dis:
            if node is not expr:
                detail += f' [smallest failing sub-expression: ' \
                    f'{core.canon(node)}]'
            dis[kind] = (kind, exp, obs, detail)
    return [dis[k] for k in sorted(dis)]


UNSTABLE_DISCS = ('repeat', 'interleave')


def replay(job):
    """Re-run one case.  For the two repeatability kinds the sequences
    themselves are left out of the replay result: when the defect is that
    equal streams differ, they also differ from one replay to the next, and
    the fact that must reproduce is the disagreement, not its values."""
    dis = check_case(job['case'])
    rows = []
    for d in dis:
        if d[0].split(':')[0] in UNSTABLE_DISCS:
            rows.append([d[0], '<solo sequence>', '<other stream>',
                         'two streams of one pattern disagree'])
        else:
            rows.append([d[0], core.canon(d[1])[:600],
                         core.canon(d[2])[:600], d[3]])
    return {'violates': any(d[0] == job['kind'] for d in dis),
            'disagreements': rows}


# ---------------------------------------------------------------------------
# the space
# ---------------------------------------------------------------------------

def pseq(lst, r=1, o=0):
    return ['Pseq', lst, r, o]


def d1_space():
    """Depth 1: every constructor over leaf arguments (random patterns are
    atomic together with their Pseed wrapper)."""
    out = []
    for lst in ([1, 2], [1, 2, 3]):
        for r in (1, 2, I):
            for o in range(len(lst)):
                out.append(['Pseq', lst, r, o])
    for r in (2, 4, I):
        for o in (0, 1, 2):
            out.append(['Pser', [1, 2, 3], r, o])
    for o in (0, 1):
        out.append(['Pser', [1, 2], 3, o])
    for lst in ([1, [2, 3]], [[1, 2], [3, 4, 5]], [1, [2, 3], [4, 5, 6]]):
        for r in (1, 3, I):
            for o in (0, 1):
                out.append(['Place', lst, r, o])
    for r in (1, 2):
        out.append(['Ptuple', [1, 2], r])
    for ln in (2, 3):
        for st in (1, -1, 2):
            for start in (0, 1):
                for wrap in (True, False):
                    for r in (2, 3, I):
                        out.append(['Pslide', [1, 2, 3], ln, st, start, wrap,
                                    r])
    for wh in (0, 2):
        out.append(['Pswitch', [1, 2, 3], wh])
        out.append(['Pswitch1', [1, 2, 3], wh])
    for r in (1, 3, I):
        out.append(['Pn', 1, r])
    for n in (0, 2):
        out.append(['Plen', 3, n])
        out.append(['Pdrop', 3, n])
    out.append(['Pstutter', 3, 2])
    out.append(['Pclump', 3, 2])
    out.append(['Pflatten', 3, 1])
    out.append(['Pdiff', 3])
    out.append(['Pconst', 3, 7])
    out.append(['Pconst', 3, 3])
    for start in (0, 1):
        for step in (1, -2):
            for ln in (3, I):
                out.append(['Pseries', start, step, ln])
    for start in (1, 3):
        for grow in (2, -1):
            for ln in (3, I):
                out.append(['Pgeom', start, grow, ln])
    out.append(['Pcollect', 'add10', 3])
    out.append(['Pselect', 'even', 2])
    out.append(['Pselect', 'even', 3])
    out.append(['Preject', 'even', 2])
    out.append(['Preject', 'even', 3])
    out.append(['Pif', True, 1, 2])
    out.append(['Pif', False, 1, 2])
    out.append(['Pwrap', 5, 0, 3])
    for seed in (SEED1, ['Pseq', [7, 8], 1, 0], 7):
        for ln in (2, I):
            out.append(['Pseed', seed, ['Pwhite', 0, 3, ln]])
        for r in (2, I):
            out.append(['Pseed', seed, ['Prand', [1, 2, 3], r]])
        for r in (1, 2):
            out.append(['Pseed', seed, ['Pshuffle', [1, 2, 3], r]])
    return out


def d1_wide():
    """Depth 1, widened parameter alphabets: zero repeats / lengths, omitted
    (default) arguments, one-element lists, zero / negative / float / list
    (chord) items, Pslide windows that start outside the list, are empty,
    longer than the list or do not move, negative stutter counts, Pwrap
    bounds away from 0, float and zero sums, float series."""
    out = []
    # --- zero repeats / length: the empty sequence ---
    for o in (0, 1):
        out.append(['Pseq', [1, 2], 0, o])
        out.append(['Pser', [1, 2], 0, o])
        out.append(['Place', [1, [2, 3]], 0, o])
    out.append(['Ptuple', [1, 2], 0])
    out.append(['Pn', 1, 0])
    out.append(['Pseries', 0, 1, 0])
    out.append(['Pgeom', 1, 2, 0])
    for wrap in (True, False):
        out.append(['Pslide', [1, 2, 3], 2, 1, 0, wrap, 0])
    out.append(['Pseed', SEED1, ['Pwhite', 0, 3, 0]])
    out.append(['Pseed', SEED1, ['Prand', [1, 2, 3], 0]])
    out.append(['Pseed', SEED1, ['Pshuffle', [1, 2, 3], 0]])
    # --- one repeat / one element ---
    for r in (1, 3, I):
        out.append(['Pseq', [5], r, 0])
        out.append(['Pser', [5], r, 0])
    for o in (0, 1, 2):
        out.append(['Pser', [1, 2, 3], 1, o])
    out.append(['Ptuple', [5], 2])
    out.append(['Ptuple', [1, 2], I])
    # --- item alphabets ---
    for lst in ([0, -1, 2], [0.5, -1.5, 0], [1, [2, 3]], [[1, 2], [3]],
                [False, True, 0], [1, 2, 3, 4]):
        for r in (1, 2, I):
            for o in (0, 1):
                out.append(['Pseq', lst, r, o])
        for r, o in ((2, 0), (4, 1), (5, 2 % len(lst)), (I, 1)):
            out.append(['Pser', lst, r, o])
    out.append(['Ptuple', [0, [1, 2]], 2])
    out.append(['Pn', 0, 3])
    out.append(['Pn', [1, 2], 2])
    out.append(['Pn', 0.5, I])
    for wh in (0, 1):
        out.append(['Pswitch', [0, [1, 2], -3], wh])
        out.append(['Pswitch1', [0, [1, 2], -3], wh])
    for r in (1, 4):
        for o in (0, 2):
            out.append(['Place', [0, [-1, 2.5], [3, 4, 5]], r, o])
    # --- omitted arguments: the documented defaults ---
    for lst in ([1, 2], [1, 2, 3]):
        out.append(['Pseq', lst])
        out.append(['Pseq', lst, 2])
        out.append(['Pseq', lst, I])
        out.append(['Pser', lst])
        out.append(['Pser', lst, 4])
        out.append(['Ptuple', lst])
        out.append(['Pswitch', lst])
        out.append(['Pswitch1', lst])
        out.append(['Pslide', lst])
        out.append(['Pslide', lst, 2])
        out.append(['Pslide', lst, 2, 2])
        out.append(['Pslide', lst, 2, 1, 1])
        out.append(['Pslide', lst, 2, 1, 2, False])
        out.append(['Pslide', lst, 4, 1, 0, False])
    out.append(['Pslide', [1, 2, 3, 4, 5]])
    out.append(['Place', [1, [2, 3]]])
    out.append(['Place', [1, [2, 3]], 2])
    out.append(['Place', [1, [2, 3]], I])
    out.append(['Pn', 1])
    for a in ([], [2], [2, 3], [0.5], [0.5, 0.25]):
        out.append(['Pseries'] + a)
        out.append(['Pgeom'] + a)
    out.append(['Pseed', SEED1, ['Pwhite', 0, 3]])
    out.append(['Pseed', SEED1, ['Prand', [1, 2, 3]]])
    out.append(['Pseed', SEED1, ['Pshuffle', [1, 2, 3]]])
    # --- Pslide window alphabets ---
    for ln in (0, 1, 2, 5):
        for st in (0, 1, -2, 3):
            for start in (-1, 0, 2, 3, 4):
                for wrap in (True, False):
                    for r in (1, 3):
                        out.append(['Pslide', [1, 2, 3], ln, st, start, wrap,
                                    r])
    for ln in (0, 1):
        for wrap in (True, False):
            out.append(['Pslide', [1, 2, 3], ln, 1, 0, wrap, I])
    for st in (1, -1):
        for wrap in (True, False):
            out.append(['Pslide', [0, [1, 2], -3, 0.5], 3, st, 1, wrap, 3])
    # --- filters over constants ---
    for n in (-2, -1):
        out.append(['Pstutter', 3, n])
    out.append(['Pclump', 3, 0])
    for n in (1, 5):
        out.append(['Plen', 0, n])
        out.append(['Pdrop', 0.5, n])
    for lo, hi in ((1, 3), (-1, 1), (2, 2), (-3, -1)):
        for v in (5, 0, -4):
            out.append(['Pwrap', v, lo, hi])
    for v, tot in ((3, 0), (3, 2.5), (0.5, 2), (1.5, 4), (0, 1), (-1, 2)):
        out.append(['Pconst', v, tot])
    out.append(['Pdiff', 0.5])
    out.append(['Pflatten', [1, 2], 1])
    out.append(['Pflatten', [1, 2], 2])
    # --- series ---
    for start, step in ((0.5, 0.25), (-1, 0), (0, -1), (2, 0.5), (-2, 3)):
        for ln in (1, 4, I):
            out.append(['Pseries', start, step, ln])
    for start, grow in ((1, 0.5), (2, 0), (0, 3), (-2, -2), (0.5, 2), (3, 1)):
        for ln in (1, 4, I):
            out.append(['Pgeom', start, grow, ln])
    # --- random patterns: pattern-valued and reversed bounds ---
    for seed in (SEED1, 7):
        out.append(['Pseed', seed, ['Pwhite', pseq([0, 1]), 3, I]])
        out.append(['Pseed', seed, ['Pwhite', 0, pseq([2, 3, 4]), I]])
        out.append(['Pseed', seed, ['Pwhite', pseq([0, 1], I), 3, 3]])
        out.append(['Pseed', seed, ['Pwhite', 3, 0, 2]])
        out.append(['Pseed', seed, ['Pwhite', 2, 2, 2]])
        out.append(['Pseed', seed, ['Pwhite', -2, 1, 4]])
        out.append(['Pseed', seed, ['Prand', [0, -1, 0.5], 4]])
        out.append(['Pseed', seed, ['Prand', [5], 2]])
        out.append(['Pseed', seed, ['Pshuffle', [0, -1, 0.5, 7], 2]])
        out.append(['Pseed', seed, ['Pshuffle', [1, 2, 3], I]])
    out.append(['Pseed', pseq([7, 8], 2), ['Pwhite', 0, 3, 2]])
    out.append(['Pseed', pseq([7, 7]), ['Pshuffle', [1, 2, 3], 1]])
    # --- operators over a constant-free operand: every selector ---
    for x in (pseq([1, 2, 3]), pseq([0, -2, 2.5])):
        for op in ('pos', 'invert'):
            out.append(['unop', op, x])
        for op in XBINOPS:
            for k in (2, -1):
                out.append(['binop', op, x, k])
                out.append(['binop', op, k, x])
    return out


# binary selectors beyond add / sub / mul / lt / min
XBINOPS = ('le', 'gt', 'ge', 'eq', 'ne', 'div', 'floordiv', 'mod', 'pow',
           'max')


# representative children (values 4.. so that they differ from parent leaves)
R = [
    ['Pseq', [4, 5], 1, 0],
    ['Pseq', [4, 5], 2, 1],
    ['Pseq', [4, 5], I, 0],
    ['Pser', [4, 5, 6], 4, 1],
    ['Place', [4, [5, 6]], 3, 0],
    ['Ptuple', [4, 5], 1],
    ['Pslide', [4, 5, 6], 2, 1, 0, True, 2],
    ['Pn', 4, 3],
    ['Plen', 4, 2],
    ['Plen', 4, 0],
    ['Pseries', 0, 1, 3],
    ['Pseries', 1, 2, I],
    ['Pgeom', 1, 2, 3],
    ['Pconst', 3, 7],
    ['Pclump', 4, 2],
    ['Pseed', SEED1, ['Pwhite', 0, 3, 2]],
    ['Pseed', SEED1, ['Prand', [4, 5, 6], 2]],
    ['Pseed', SEED1, ['Pshuffle', [4, 5, 6], 1]],
]
R2 = [R[0], R[2], R[9], R[10], R[7], R[15], R[4], R[3]]

NPAT = [['Pseq', [2, 0, 1], 1, 0], ['Pseq', [1, 2], I, 0]]
WHICH = [['Pseq', [0, 1], 1, 0], ['Pseq', [1, 0, 1], 1, 0],
         ['Pseq', [0, 1], I, 0], ['Pseries', 0, 1, 2]]
CONDS = [['Pseq', [True, False], I, 0],
         ['Pseq', [True, False, False, True], 1, 0],
         ['binop', 'lt', ['Pseq', [1, 2, 3], 2, 0], 2]]


# index alphabets of the switching constructors: out of range, negative,
# a counter that keeps growing / falling, mixed aliases of one position
WHICH_WIDE = [
    ['Pseq', [0, 2, 1, 3, 0], 1, 0],
    ['Pseq', [-1, 1, -2, 0, -3], 1, 0],
    ['Pseries', 0, 1, 10],
    ['Pseries', 3, -1, 8],
    ['Pseq', [2, 0], I, 0],
    ['Pseq', [5, -3, 4, -4, 1, 6], 1, 0],
    ['Pseq', [0, 3, 6, 1, 4, 9, -6], 1, 0],
    7, -1, 3,
]
SWITCH_LISTS = [
    [1, 2], [1, 2, 3],
    [['Pseq', [1, 2, 3, 4, 5, 6], 1, 0], ['Pseq', [10, 20, 30, 40, 50, 60], 1, 0]],
    [['Pseq', [1, 2, 3], 1, 0], 9],
    [9, ['Pseq', [1, 2], 2, 0]],
    [['Pseq', [1, 2], 1, 0], ['Pseq', [10, 20, 30], 1, 0],
     ['Pseries', 100, 1, I]],
    [['Pseq', [1, 2, 3], 1, 0], ['Pseq', [1, 2, 3], 1, 0]],
    [['Pseq', [1, 2], I, 0], ['Pn', 5, 2], 8],
]


def switch_space():
    """Pswitch / Pswitch1 over the widened index alphabets: at top level,
    under the embedding constructors (the item streams are made anew for
    every embedding) and under the single-child uses."""
    for h in ('Pswitch', 'Pswitch1'):
        for lst in SWITCH_LISTS:
            for wh in WHICH_WIDE:
                yield [h, lst, wh]
        for lst in SWITCH_LISTS[2:4] + SWITCH_LISTS[5:6]:
            for wh in WHICH_WIDE[:4]:
                x = [h, lst, wh]
                yield from embedders_over(x)
                yield ['Pseq', [x, x], 2, 0]
                yield from filters_over(x)


# list-valued sources whose values are nested 1, 2 and 3 levels deep (and
# mixed depths in one sequence), from nested Pclump and from literal items
_S8 = ['Pseq', [1, 2, 3, 4, 5, 6, 7, 8], 1, 0]
NESTED_SOURCES = [
    ['Pclump', _S8, 2],
    ['Pseq', [[1, 2], [3]], 1, 0],
    ['Pclump', ['Pclump', _S8, 2], 2],
    ['Pclump', ['Pclump', ['Pseq', [1, 2, 3, 4, 5, 6], 1, 0],
                ['Pseq', [1, 2], I, 0]], 2],
    ['Pseq', [[1, [2, 3]], [[4], [5, 6]]], 1, 0],
    ['Pclump', ['Pclump', ['Pclump', _S8, 2], 2], 2],
    ['Pseq', [[1, [2, [3]]], 5], 1, 0],
    ['Pseq', [1, [2], [[3, 4], 5], [[[6]], 7]], 1, 0],
    ['Pseq', [[1, [2, [3]]], 5, [[4]], []], 2, 1],
    ['Pstutter', ['Pseq', [[1, [2]], 3], 1, 0], 2],
    ['Pn', [1, [2, [3, 4]]], 2],
]
FLATTEN_N = [-1, 0, 1, 2, 3, ['Pseq', [1, 2], I, 0],
             ['Pseq', [2, 0, 1], 1, 0]]


def flatten_space():
    """Pflatten over values of depth 1-3 x level counts (negative, zero, up
    to beyond the depth, pattern-valued): at top level, under the embedding
    constructors, shared twice, flattened twice and re-clumped; the other
    single-child uses (Pclump, Pstutter, Pdrop ...) over the same
    sources."""
    for src in NESTED_SOURCES:
        yield src
        for n in FLATTEN_N:
            x = ['Pflatten', src, n]
            yield x
            yield from embedders_over(x)
            yield ['Pseq', [x, x], 2, 0]
            yield ['Pflatten', x, 1]
            yield ['Pclump', x, 2]
            yield ['Pstutter', x, 2]
        yield from filters_over(src)
        yield from embedders_over(src)


def filters_over(x):
    """Every single-child constructor applied to child x."""
    for r in (1, 2, I):
        yield ['Pn', x, r]
    for n in (0, 1, 2, 4):
        yield ['Plen', x, n]
    for n in (0, 1, 3):
        yield ['Pdrop', x, n]
    for n in [0, 1, 2] + NPAT:
        yield ['Pstutter', x, n]
    for n in [1, 2, 3] + NPAT:
        yield ['Pclump', x, n]
    for n in (1, 2):
        yield ['Pflatten', x, n]
    yield ['Pdiff', x]
    for s in (3, 5):
        yield ['Pconst', x, s]
    yield ['Pcollect', 'add10', x]
    yield ['Pselect', 'even', x]
    yield ['Pselect', 'gt1', x]
    yield ['Preject', 'even', x]
    for hi in (1, 2):
        yield ['Pwrap', x, 0, hi]
    yield ['Pseed', SEED1, x]
    yield ['unop', 'neg', x]
    yield ['unop', 'abs', x]
    for op in ('add', 'sub', 'mul', 'lt', 'min'):
        yield ['binop', op, x, 2]
        yield ['binop', op, 2, x]
    yield ['narop', 'clip', x, 2, 3]
    for ln in (3, I):
        yield ['Pseries', 0, x, ln]
        yield ['Pgeom', 1, x, ln]
    for r in (1, 2):
        for o in (0, 1, 2):
            yield ['Pseq', [1, x, 2], r, o]
    for lst in ([x, [8, 9]], [[8, 9], x]):
        for r in (2, 3):
            for o in (0, 1):
                yield ['Place', lst, r, o]
    yield ['Pswitch', [1, 2, 3], x]
    yield ['Pswitch1', [1, 2, 3], x]


def filters_wide(x):
    """Further single-child uses: widened parameter alphabets (zero repeats,
    omitted arguments, negative counts, bounds away from 0, float / zero
    sums, windows starting outside the list) and an integer Pseed seed."""
    yield ['Pn', x, 0]
    yield ['Pn', x]
    yield ['Pstutter', x, -2]
    yield ['Pdrop', x, 2]
    yield ['Plen', x, 3]
    for lo, hi in ((1, 3), (-1, 1)):
        yield ['Pwrap', x, lo, hi]
    for t in (0, 2.5):
        yield ['Pconst', x, t]
    yield ['Pcollect', 'double', x]
    yield ['Preject', 'gt1', x]
    yield ['Ptuple', [x, 9], I]
    yield ['Ptuple', [x]]
    yield ['Pseq', [x, 0], 0, 1]
    yield ['Pseq', [x, 0]]
    yield ['Pser', [x, 0]]
    yield ['Pser', [0, x], 2, 1]
    yield ['Place', [[0, x], x], 2]
    yield ['Pslide', [x, 8, 9]]
    yield ['Pslide', [x, 8, 9], 2, 1, -1, True, 2]
    yield ['Pslide', [8, x, 9], 2, -2, 1, False, 3]
    yield ['Pslide', [8, 9, x], 2, 1, 2, False, 2]
    yield ['Pseries', 0.5, x, 4]
    yield ['Pgeom', -1, x]
    yield ['Pswitch', [x, 0]]
    yield ['Pswitch1', [0, x], 1]
    yield ['Pseed', 7, x]
    yield ['narop', 'clip', x, -1, 1]


def ops_wide(x):
    """Every further operator selector with a scalar on either side."""
    for op in ('pos', 'invert'):
        yield ['unop', op, x]
    for op in XBINOPS:
        yield ['binop', op, x, 2]
        yield ['binop', op, 2, x]
    yield ['binop', 'max', x, x]
    yield ['binop', 'eq', x, x]


# children from the widened alphabets: empty by zero repeats, library
# defaults, zero / negative / float / chord items, windows starting outside
# the list, negative stutter, integer seed, bounds given by patterns, and the
# further operator selectors
EDGEKIDS = [
    ['Pseq', [4, 5], 0, 0],
    ['Pn', 4, 0],
    ['Pseq', [0, -1, 2]],
    ['Pseq', [0.5, -1.5, 0], 2, 1],
    ['Pseq', [4, [5, 6]], 1, 0],
    ['Pser', [4, 5, 6]],
    ['Pn', 4],
    ['Pseries'],
    ['Pgeom', 2, 0.5],
    ['Pslide', [4, 5, 6, 7]],
    ['Pslide', [4, 5, 6], 2, 1, -1, True, 2],
    ['Pslide', [4, 5, 6], 2, -2, 1, False, 3],
    ['Pstutter', ['Pseq', [4, 5], 1, 0], -2],
    ['Pseed', 7, ['Pwhite', 0, 3, 2]],
    ['Pseed', SEED1, ['Pwhite', ['Pseq', [0, 1], 1, 0], 3]],
    ['binop', 'div', ['Pseq', [4, 5, 6], 1, 0], 2],
    ['binop', 'eq', ['Pseq', [4, 5, 4], 1, 0], 4],
    ['unop', 'invert', ['Pseq', [4, 5], 1, 0]],
]

# function patterns with pattern operands (Pif is embedded through the
# stream its __stream__ builds from three fresh operand streams)
FUNKIDS = [
    ['Pif', ['Pseq', [True, False], I, 0], ['Pseq', [1, 2, 3], 1, 0],
     ['Pseq', [10, 20], 1, 0]],
    ['Pif', ['Pseq', [True, False, False, True], 1, 0],
     ['Pseq', [1, 2], I, 0], ['Pseries', 5, 1, 3]],
    ['Pif', ['binop', 'lt', ['Pseq', [1, 2, 3], 2, 0], 2], 4,
     ['Pseq', [5, 6, 7], 1, 0]],
]


def edgekids_space():
    for x in EDGEKIDS:
        yield x
        yield from embedders_over(x)
        yield ['Pseq', [x, x], 2, 0]
        yield ['Pswitch', [x, x], ['Pseq', [0, 1, 0], 1, 0]]
        yield from filters_over(x)
        yield from filters_wide(x)
        yield from ops_wide(x)


# unseeded random patterns, used only *inside* a Pseed (the seeded routine
# must also govern a random child that a filter pulls through its stream)
RANDKIDS = [['Pwhite', 0, 3, 3], ['Prand', [1, 2, 3], 3],
            ['Pshuffle', [1, 2, 3], 2], ['Pwhite', 0, 3]]


def randkids_space():
    for x in RANDKIDS:
        for seed in (SEED1, 7):
            for e in list(filters_over(x)) + list(filters_wide(x)) + \
                    list(embedders_over(x)):
                yield ['Pseed', seed, e]
        yield ['Pseed', ['Pseq', [7, 8], 1, 0], ['Pstutter', x, 2]]
        yield ['Pseed', SEED1, ['binop', 'add', x, x]]
        yield ['Pseed', SEED1, ['Ptuple', [x, x], 2]]


def inner_filters(x):
    """Single-child constructors used as the inner layer of depth 3."""
    yield ['Pstutter', x, 2]
    yield ['Pstutter', x, ['Pseq', [2, 0, 1], 1, 0]]
    yield ['Pclump', x, 2]
    yield ['Pdrop', x, 1]
    yield ['Plen', x, 3]
    yield ['Pdiff', x]
    yield ['Pconst', x, 5]
    yield ['Pcollect', 'add10', x]
    yield ['Pselect', 'even', x]
    yield ['Pn', x, 2]
    yield ['Pseq', [x, 9], 2, 1]
    yield ['Pwrap', x, 1, 3]
    yield ['binop', 'sub', 10, x]
    yield ['Pseries', 0, x, 4]


def filter_filter_space(pool):
    """Depth 3: every single-child use over every inner single-child
    constructor over the children of `pool`."""
    for x in pool:
        for y in inner_filters(x):
            yield from filters_over(y)
            yield from filters_wide(y)


def embedders_over(x):
    """The 8 constructors that embed / stream children, one child x."""
    for r in (2, I):
        yield ['Pseq', [x, 9], r, 0]
    yield ['Pseq', [9, x], 2, 1]
    yield ['Pser', [x, 9], 3, 0]
    yield ['Pser', [9, x], 3, 0]
    yield ['Pn', x, 2]
    yield ['Pswitch', [9, x], ['Pseq', [1, 0, 1], 1, 0]]
    yield ['Pswitch1', [9, x], ['Pseq', [1, 0, 1, 1], 1, 0]]
    yield ['Place', [[x, 9], 8], 3, 0]
    yield ['Pslide', [x, 8, 9], 2, 1, 0, True, 3]
    yield ['Ptuple', [x, 9], 2]


EMBED8 = ('Pseq', 'Pser', 'Pn', 'Pswitch', 'Pswitch1', 'Place', 'Pslide',
          'Ptuple')


def pairs_space(pool, small, full=True):
    """Constructors with two or three pattern slots: list patterns and binary
    operators over all pairs of `pool`, the others over pairs of `small`."""
    items = [1] + pool
    for a in items:
        for b in items:
            if not (is_node(a) or is_node(b)):
                continue
            for r in (1, 2, I):
                for o in (0, 1):
                    yield ['Pseq', [a, b], r, o]
            for r, o in ((3, 0), (3, 1), (I, 0)) + (((I, 1),) if full else ()):
                yield ['Pser', [a, b], r, o]
            for r in (1, 2) if full else (2,):
                yield ['Ptuple', [a, b], r]
            if is_node(a) and is_node(b):
                for op in ('add', 'sub'):
                    yield ['binop', op, a, b]
    small = [1] + small
    for a in small:
        for b in small:
            if not (is_node(a) or is_node(b)):
                continue
            for wh in WHICH + (WHICH_WIDE[:4] if full else []):
                yield ['Pswitch', [a, b], wh]
                yield ['Pswitch1', [a, b], wh]
            for c in CONDS:
                yield ['Pif', c, a, b]
            if is_node(a):
                yield ['narop', 'clip', a, b, 5]
                yield ['narop', 'clip', a, 1, b]
            yield ['Pwrap', a, 0, b] if is_node(a) else ['Pwrap', 5, a, b]
            yield ['Pstutter', a, b]
            yield ['Pclump', a, b]
            yield ['Place', [[a, 9], b], 3, 0]
            if full and is_node(a) and is_node(b):
                for op in ('mul', 'lt', 'eq', 'div', 'mod', 'max'):
                    yield ['binop', op, a, b]
            if full:
                yield ['Pseed', SEED1, ['Pwhite', a, b, 3]]
                yield ['Pslide', [a, b, 9], 2, 1, -1]


# operator patterns whose operands are finite, non-constant patterns of
# differing lengths (Punop/Pnarop have an __embed__ of their own, Pbinop is
# embedded through its stream: both paths must be element-wise and end with
# the shortest operand also when *embedded* by another pattern)
OPKIDS = [
    ['narop', 'clip', ['Pseq', [1, 5, 9, 13], 1, 0], ['Pseq', [2, 6, 10], 1, 0],
     ['Pseq', [3, 7, 11, 15, 19], 1, 0]],
    ['narop', 'clip', ['Pseq', [1, 5, 9], 1, 0], 2, ['Pseq', [6, 3], 1, 0]],
    ['narop', 'clip', ['Pseq', [1, 5, 9], I, 0], ['Pseq', [2, 6, 10], 1, 0],
     7],
    ['narop', 'clip', ['Pseries', 0, 3, 4], ['Pseq', [4, 1], 2, 0],
     ['Pseries', 5, 1, 3]],
    ['unop', 'neg', ['Pseq', [1, 2, 3], 1, 0]],
    ['unop', 'abs', ['Pseries', -1, 1, 3]],
    ['binop', 'sub', ['Pseq', [10, 20, 30], 1, 0], ['Pseq', [1, 2], 1, 0]],
    ['binop', 'sub', 10, ['Pseq', [1, 2, 3], 1, 0]],
    ['binop', 'mul', ['Pseq', [1, 2], I, 0], ['Pseries', 1, 1, 3]],
]


def opkids_space():
    """Every operator child at top level, under each of the 8 embedding
    constructors, used twice as one shared object, and under every
    single-child constructor."""
    for x in OPKIDS + FUNKIDS:
        yield x
        yield from embedders_over(x)
        yield ['Pseq', [x, x], 2, 0]
        yield ['Pser', [x, 9, x], 4, 1]
        yield ['Pswitch', [x, x], ['Pseq', [0, 1, 0], 1, 0]]
        yield from filters_over(x)


def extras_space():
    """Pattern-valued parameters and composites that do not fit the scheme."""
    for x in R:
        for n in (2, ['Pseq', [1, 2], 1, 0]):
            for m in (1, 2):
                yield ['Pflatten', ['Pclump', x, n], m]
        for ln in (2,):
            for st in (1, -1):
                for wrap in (True, False):
                    for r in (2, 3):
                        yield ['Pslide', [x, 8, 9], ln, st, 0, wrap, r]
    for ln in (['Pseq', [2, 1], 1, 0], ['Pseq', [1, 2], I, 0]):
        for st in (1, ['Pseq', [1, -1], 1, 0], ['Pseq', [2], I, 0]):
            for wrap in (True, False):
                for r in (3, I):
                    yield ['Pslide', [1, 2, 3], ln, st, 0, wrap, r]
    for x in R:
        yield ['Pseed', ['Pseq', [7, 8], 1, 0], x]
        yield ['Pseed', SEED1, ['Pseq', [x, ['Pwhite', 0, 3, 2]], 2, 0]]
        yield ['Pseed', SEED1, ['Pn', ['Pshuffle', [1, 2, 3], 2], 2]]


_CACHE = {}
QUICK_SLICES = 8    # quick explores 1/8 of the two widest new families


def generate(tier, slice_ix=0):
    key = (tier, slice_ix)
    if key not in _CACHE:
        _CACHE.clear()
        _CACHE[key] = _generate(tier, slice_ix)
    return _CACHE[key]


def _generate(tier, slice_ix=0):
    """All cases of a tier in canonical order (simplest first), deduplicated.
    Returns list of (bound label, expr).  `slice_ix` (from VERIF_SEED) only
    selects which 1/QUICK_SLICES of the two widest families of the thorough
    tier the quick tier runs in addition to its fixed space."""
    seen = set()
    out = []

    def add(label, e):
        k = core.canon(e)
        if k not in seen:
            seen.add(k)
            out.append((label, e))
    d1 = d1_space()
    for e in d1:
        add('depth1', e)
    d1w = d1_wide()
    for e in d1w:
        add('depth1-wide', e)
    # Pslide has 72 depth-1 variants; as a *child* the 18 with length 2 and
    # start 0 are used in the quick tier, all of them in the thorough tier.
    slim = [x for x in d1
            if not (x[0] == 'Pslide' and (x[2] == 3 or x[4] == 1))]
    for x in slim:
        for e in filters_over(x):
            add('depth2', e)
    for e in pairs_space(R, R2):
        add('depth2', e)
    for e in extras_space():
        add('depth2', e)
    for e in opkids_space():
        add('depth' + str(min(depth(e), 3)) + '-opchild', e)
    # --- widened alphabets at depth 2 ---
    for x in slim:
        for e in filters_wide(x):
            add('depth2-wide', e)
    for x in R:
        for e in ops_wide(x):
            add('depth2-wide', e)
    for e in edgekids_space():
        add('depth' + str(min(depth(e), 3)) + '-edgechild', e)
    for e in randkids_space():
        add('depth3-seeded-random', e)
    for e in switch_space():
        add('depth' + str(min(depth(e), 3)) + '-switch-index', e)
    for e in flatten_space():
        add('depth' + str(min(depth(e), 3)) + '-nested-values', e)
    # the two widest families: every single-child use over every widened
    # depth-1 expression, and filter over filter (depth 3)
    wide2 = [e for x in d1w
             for e in list(filters_over(x)) + list(filters_wide(x))]
    ff = list(filter_filter_space(R2 if tier == 'quick' else R))
    if tier == 'quick':
        wide2 = wide2[slice_ix % QUICK_SLICES::QUICK_SLICES]
        ff = ff[slice_ix % QUICK_SLICES::QUICK_SLICES]
    for e in wide2:
        add('depth2-wide-slice' if tier == 'quick' else 'depth2-wide', e)
    for e in ff:
        add('depth3-filter-over-filter', e)
    if tier == 'thorough':
        for x in d1:
            for e in filters_over(x):
                add('depth2', e)
            for e in filters_wide(x):
                add('depth2-wide', e)
        for e in pairs_space(slim, R, full=False):
            add('depth2-wide', e)
        d1e = [x for x in slim if x[0] in EMBED8]
        d2e = []
        for x in d1e + R:
            for e in embedders_over(x):
                d2e.append(e)
        for e in d2e:
            add('depth2', e)
        for x in d2e:
            for e in embedders_over(x):
                add('depth3-embed8', e)
            for e in filters_over(x):
                add('depth3-filter-over-embed8', e)
    return out


# ---------------------------------------------------------------------------
# engine glue
# ---------------------------------------------------------------------------

def work(job):
    acc = progenum.Acc()
    cases = generate(job['tier'], job.get('slice_ix', 0))
    for idx, (label, expr) in enumerate(cases):
        if idx % job['of'] != job['shard']:
            continue
        case = {'expr': expr}
        info = {}
        dis = check_case(case, info)
        for kind, exp, obs, detail in dis:
            acc.violation(kind, case, exp, obs, detail,
                          standalone=standalone(expr, CAP + 1))
        acc.case(case, nontrivial=depth(expr) >= 2,
                 outcome=info.get('outcome'),
                 steps=info.get('compared', 0) + 64)
        acc.count('status_' + info.get('status', '?'))
        acc.count('bound_' + label)
        acc.count('items_compared', info.get('compared', 0))
    return acc.result()


def main(ctx):
    ctx.rule = (
        'E1: every expression of the grammar is built with the public '
        'constructors/operators (equal sub-expressions share one object; '
        'trailing arguments may be omitted so that the library default '
        'applies). '
        'quick: all 177 depth-1 expressions (29 constructors over leaf '
        'arguments, parameter domains of 2-4 values incl. inf) plus 639 '
        'depth-1 expressions over widened alphabets (zero repeats/lengths, '
        'omitted arguments, one-element lists, zero/negative/float/boolean/'
        'list items, Pslide windows that are empty, longer than the list, '
        'motionless or start outside the list, negative stutter counts, '
        'Pwrap bounds away from 0, float and zero Pconst sums, float '
        'series, pattern-valued and reversed Pwhite bounds, integer seeds, '
        '10 further binary and 2 further unary selectors with a scalar on '
        'either side); every single-child use (65 variants: filters, '
        'operators, pattern-valued step/index, 3-item lists, Place; plus 28 '
        'variants over the widened alphabets) over 123 depth-1 children; '
        'two/three-child constructors (Pseq, Pser, Ptuple, 8 binary '
        'selectors, Pswitch, Pswitch1, Pif, narop, Pwrap, Pstutter, Pclump, '
        'Place, Pwhite bounds, Pslide) over pairs from an 18-element child '
        'pool; pattern-valued Pslide length/step, Pflatten(Pclump), nested '
        'Pseed; 9 operator patterns (clip/neg/abs/sub/mul) and 3 Pif '
        'patterns with finite, non-constant, differing-length pattern '
        'operands, and 18 children from the widened alphabets, each at top '
        'level, under each of the 8 embedding constructors, shared twice in '
        'one list, and under every single-child use; 4 unseeded random '
        'patterns under every single-child use and embedding constructor '
        'inside a Pseed; Pswitch/Pswitch1 over 8 item lists x 10 index '
        'sources that leave 0..len-1 (out of range, negative, growing and '
        'falling counters, mixed aliases of one position), also under the '
        'embedding constructors and single-child uses; Pflatten over 11 '
        'sources with values nested 1-3 levels (nested Pclump, literal '
        'nested items, mixed depths) x 7 level counts (-1..3, two '
        'pattern-valued), also under the embedding constructors, shared, '
        'flattened twice and re-clumped, and every single-child use over '
        'those sources; a seed-selected '
        '1/8 of (a) every single-child use '
        'over the 639 widened depth-1 expressions and (b) depth 3 = every '
        'single-child use over 14 inner single-child constructors over 8 '
        'children. thorough runs (a) and (b) completely ((b) over 18 '
        'children) and adds single-child uses '
        'over all 177 children, pairs over 123 children and depth 3 (8 '
        'embedding constructors applied twice, then every single-child use '
        'on top). Each expression is run via stream.next(inval), the '
        'iterator protocol, the stm.embed(p, inval) generator, list()/all() '
        'when finite; fresh streams of one pattern must give the identical '
        'sequence; two streams of one pattern run in all 16 interleavings '
        'of length 4 and in two long schedules (strict alternation and a '
        'block of one stream inside the other, 8 items each, streams made '
        'at first use); first 24 items + '
        'end position compared with the reference. Non-trivial = a pattern '
        'is nested inside a pattern (depth >= 2); cases are deduplicated, '
        'so every case is a distinct expression.')
    ctx.assumptions += [
        'reference semantics mc/oracles/patterns_ref.py written from the '
        'SuperCollider pattern help files and this library\'s comments; '
        "don't-cares: offsets outside the list, non-integer Pswitch/"
        'Pswitch1 indices (integer indices wrap around the list, aliases '
        'of one position share the item stream), Pflatten of values that contain tuples (each list value loses '
        'exactly n levels, its own list being the first: the reading under '
        'which Pflatten undoes n applications of Pclump; n <= 0 leaves '
        'values whole), operators on list '
        'values, structure depending on random values, endless non-yielding '
        'loops, Pconst within tolerance of the sum, behaviour after the end '
        'of a stream, container type (list/tuple) of Ptuple/Pclump values, '
        'numeric-kernel matters (clip of an integer/boolean value by '
        'non-integer bounds, modulo by a non-positive number, division by '
        'zero, powers outside 0..16, bitwise operators on non-integers, '
        'Pwrap of non-integers)',
        'random patterns (only under Pseed) are checked for membership in '
        'the documented value set, Pshuffle blocks for being one repeated '
        'permutation, and for repeatability (every fresh stream of the '
        'pattern gives the identical sequence); not for distribution',
        f'prefix of {CAP} items per run; every library run is guarded by a '
        f'deterministic budget of {BUDGET} events (function starts, '
        'generator resumes, jumps, branches via sys.monitoring)']
    ctx.extra['cap_items_per_run'] = CAP
    ctx.extra['step_budget_lines'] = BUDGET
    slice_ix = core.pick_slice(ctx.seed, QUICK_SLICES)
    ctx.extra['quick_slice'] = f'{slice_ix} of {QUICK_SLICES}'
    jobs = [{'shard': i, 'of': NSHARDS, 'tier': ctx.tier,
             'slice_ix': slice_ix}
            for i in range(NSHARDS)]
    progenum.run(ctx, MODNAME, 'work', jobs, mode='nrt',
                 bound='depth<=2' if ctx.tier == 'quick' else 'depth<=3')


def pred_expr_has(v, head=None, **params):
    """Known-finding predicate: the failing expression contains `head`."""
    return head in heads(v['case']['expr'])


def pred_pslide_nowrap_negative(v):
    """The minimal failing case is a Pslide with wrap=False whose position
    can become negative (negative step or pattern-valued step)."""
    for e in subexprs(v['case']['expr']):
        if e[0] != 'Pslide':
            continue
        step, wrap = slide_args(e)[1], slide_args(e)[3]
        if wrap is False and \
                (is_node(step) or (isinstance(step, int) and step < 0)):
            return True
    return False


PREDICATES = {'expr_has': pred_expr_has,
              'pslide_nowrap_negative': pred_pslide_nowrap_negative}
