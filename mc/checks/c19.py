"""C19 - envelopes encode to the server format and evaluate consistently.

E1 (progenum): every envelope specification of the bounded families below is
constructed through the real `Env` API, its `_envgen_format()` is compared
with the reference array of mc/oracles/env_ref.py, `_at(t)` is evaluated on a
time grid (multiples of 1/8 plus every breakpoint) against the constraints of
the property (levels at breakpoints, betweenness inside a segment, last level
afterwards) and - for the `def` sub-families - an `EnvGen` is built into a
SynthDef whose bytes are decoded by the strict SCgf v2 reader
mc/oracles/scgf.py; the unit's
trailing inputs must be the same array (as float32).

Audit widening: the synth-argument route (_as_control_input /
_embed_as_osc_arg), positional / keyword / omitted-argument call styles, a
backwards pass over the time grid, non-dyadic durations, negative levels,
zero and negative constructor parameters, the offset argument, objects changed
or copied after use (family env-derive), one envelope encoded after another
(family env-after-other, run first), two EnvGen units fed by one Env.
Mutations tried while auditing (all VIOLATION in the quick tier): breakpoint
test by elapsed time instead of end time (at-breakpoint-shape8 ...), exp
guard `<= 0.0` (at-inside-shape2), `attack_time or 0.01` in perc
(ctor-perc-duration), swapped `level`/`curve` in the signature of linen
(ctor-linen-positional-*), _as_control_input returning the IEnvGen layout
(array-control-input), `loop_node` keyword renamed (encode-raises-TypeError),
step dropping `offset` (reuse-array-interp-offset), `decay_time or 0.3` in
adsr (ctor-adsr-duration), value-keyed memo of the array shared by all objects
(after-other-array-release-node ...), `if not curves` in pairs
(ctor-pairs-shape-number), `loop_level or None` in step
(ctor-step-given-loop-node-encoded-absent), _env_at resuming from the last
stage found (at-differs-when-evaluated-again), the times default assigned without
wrap_extend (encode-length, encode-raises-IndexError, at-after-end ...;
family env-defaults), the duration setter scaling self.times in place so
that shallow copies change too (related-bystander-attributes-changed,
related-bystander-duration, related-bystander-at-* ...; family
env-related)."""

import copy
import itertools
import re
import struct

from mc import core
from mc.engines import progenum
from mc.oracles import env_ref as ref
from mc.oracles import scgf

MODE = 'nrt'
MODNAME = 'mc.checks.c19'

D = '<default>'      # sentinel: argument omitted (documented default applies)

NAMES = list(ref.DOCUMENTED_NAMES)
NUMS = [-4, 0, 2]
SCALAR_CURVES = NAMES + NUMS


def f32(x):
    return struct.unpack('>f', struct.pack('>f', x))[0]


# ---------------------------------------------------------------------------
# Case construction (worker side; the only place sc3 is touched)

def _exc(e):
    return f'{type(e).__name__}: {e}'[:200]


def _dflt(v, default):
    return default if v == D else v


EMPTY_TUPLE = '<empty tuple>'      # JSON stand-in for times=()
DEFAULT_LEVELS = [0, 1, 0]         # Env.new(levels: [0, 1, 0], times: [1, 1],
DEFAULT_TIMES = [1, 1]             #         curve: 'lin', nil, nil, 0)


def times_defaulted(t):
    """times omitted or None: the documented default [1, 1] (wrapped to the
    segment count like any other list); an EMPTY list / tuple cannot be
    wrapped: the default, or a refusal (exception), is accepted."""
    return t == D or t is None or t == [] or t == EMPTY_TUPLE


def expected_spec(case):
    if case['f'] == 'env':
        # documented defaults: levels [0, 1, 0], times [1, 1], curves 'lin'
        # ("linear segments (default)"), nodes absent, offset 0
        lv, tm = case['levels'], case['times']
        return {'levels': DEFAULT_LEVELS if lv == D or lv is None else lv,
                'times': DEFAULT_TIMES if times_defaulted(tm) else tm,
                'raise_ok': tm == [] or tm == EMPTY_TUPLE,
                'curves': _dflt(case['curves'], 'lin'),
                'rel': _dflt(case['rel'], None),
                'loop': _dflt(case['loop'], None),
                'offset': _dflt(case.get('offset', D), 0),
                'dontcare': set()}
    return ref.ctor_expected(case['name'], case['args'])


ENV_PARAMS = ['levels', 'times', 'curves', 'release_node', 'loop_node',
              'offset']
ENV_KEYS = ['levels', 'times', 'curves', 'rel', 'loop', 'offset']
POSITIONAL_ORDER = {
    'step': ['levels', 'times', 'release_level', 'loop_level', 'offset'],
    'pairs': ['pairs', 'curves'],
    'xyc': ['xyc'],
}


def ctor_order(name):
    if name in ref.CTOR_PARAMS:
        return [k for k, _ in ref.CTOR_PARAMS[name]]
    return POSITIONAL_ORDER[name]


def split_call(order, given):
    """Documented parameter order + explicitly given arguments -> (positional
    list = the longest prefix of the order that is given, keyword dict = the
    rest)."""
    pos = []
    for k in order:
        if k not in given:
            break
        pos.append(given[k])
    kw = {k: given[k] for k in order[len(pos):] if k in given}
    return pos, kw


def env_given(c):
    given = {}
    for key, par in zip(ENV_KEYS, ENV_PARAMS):
        if key in c and c[key] != D:
            given[par] = () if c[key] == EMPTY_TUPLE else c[key]
    return given


def make_env(case, style=None):
    """style None: the case's own call style (Env: positional as far as
    arguments are given, constructors: keywords); 'kw' / 'pos' force one."""
    from sc3.synth.envelope import Env
    c = copy.deepcopy(case)     # constructors may keep/alter their arguments
    style = style or c.get('style')
    if c['f'] == 'env':
        given = env_given(c)
        if style == 'kw':
            return Env(**given)
        pos, kw = split_call(ENV_PARAMS, given)
        return Env(*pos, **kw)
    if style == 'pos':
        pos, kw = split_call(ctor_order(c['name']), c['args'])
        return getattr(Env, c['name'])(*pos, **kw)
    return getattr(Env, c['name'])(**c['args'])


def positional_prefix(case):
    if case['f'] != 'ctor':
        return 0
    return len(split_call(ctor_order(case['name']), case['args'])[0])


def _plain(x):
    """Observation -> JSON-able."""
    if isinstance(x, (list, tuple)):
        return [_plain(i) for i in x]
    if isinstance(x, (int, float, str, bool)) or x is None:
        return x
    return repr(x)


SLOTS = ['initial-level', 'segment-count', 'release-node', 'loop-node']
SEG_SLOTS = ['target-level', 'duration', 'shape-number', 'curvature']


def slot_name(i):
    return SLOTS[i] if i < 4 else SEG_SLOTS[(i - 4) % 4]


def _num_eq(a, b):
    if isinstance(a, bool) or not isinstance(a, (int, float)):
        return False
    return a == b


def raise_kind(prefix, e, case):
    """Kind for an exception raised on a valid input.  A documented shape
    name that is rejected gets its own kind per name."""
    msg = str(e)
    if isinstance(e, ValueError) and 'invalid Env shape' in msg:
        for n in NAMES:
            if f"'{n}'" in msg:
                return f'shape-name-rejected-{n}'
    return f'{prefix}-raises-{type(e).__name__}'


ISLOTS = ['offset', 'initial-level', 'segment-count', 'total-duration']
ISEG_SLOTS = ['duration', 'shape-number', 'curvature', 'target-level']


def islot_name(i):
    return 'interp-' + (ISLOTS[i] if i < 4 else ISEG_SLOTS[(i - 4) % 4])


def _close(a, b, rel):
    if isinstance(a, bool) or not isinstance(a, (int, float)):
        return False
    return abs(a - b) <= rel * max(1.0, abs(b))


def cmp_array(prefix, exp, arr, dontcare, namefn, approx=(), rel=1e-9):
    """Slot-wise comparison -> disagreements (one per slot class)."""
    if len(arr) != len(exp):
        return [(f'{prefix}-{namefn(0).split("-")[0]}-length'
                 if namefn is islot_name else prefix + '-length',
                 exp, arr, '')]
    dis, bad = [], []
    for i, (x, y) in enumerate(zip(exp, arr)):
        if i in dontcare:
            continue
        ok = _close(y, x, rel) if i in approx else _num_eq(y, x)
        if not ok:
            s = namefn(i)
            if s not in bad:
                bad.append(s)
                dis.append((f'{prefix}-{s}', exp, arr,
                            f'first difference of this slot at index {i}'))
    return dis


def single_channel(obs):
    return isinstance(obs, list) and len(obs) == 1 and \
        isinstance(obs[0], list)


def interp_dontcare(spec):
    return {ref.interpolation_index(i) for i in spec['dontcare']} - {None}


def check_case(case):
    """-> (disagreements, outcome)"""
    if case['f'] == 'seq':
        return check_seq(case)
    dis, outcome = _check_case(case)
    if case.get('reuse'):
        # a defect that needs one object used twice gets kinds of its own
        out, seen = [], set()
        for d in dis:
            k = 'reuse-' + re.sub(r'-shape\w+$', '', d[0])
            if k not in seen:
                seen.add(k)
                out.append((k,) + tuple(d[1:]))
        dis = out
    return dis, outcome


def check_seq(case):
    """ANOTHER envelope object was built, encoded (both layouts) and
    evaluated just before: the second specification must encode and evaluate
    as if it were alone (kinds 'after-other-...')."""
    try:
        other = make_env(case['first'])
        other._envgen_format()
        other._interpolation_format()
        other._at(0.25)
        other._as_control_input()
    except Exception as e:
        return [], {'first-raised': _exc(e)}   # checked by other families
    dis, outcome = _check_case(case['second'])
    out, seen = [], set()
    for d in dis:
        k = 'after-other-' + re.sub(r'^(ctor-[a-z]+|encode)-', 'array-',
                                    re.sub(r'-shape\w+$', '', d[0]))
        if k not in seen:
            seen.add(k)
            out.append((k,) + tuple(d[1:]))
    return out, outcome


def _check_case(case):
    if case['f'] == 'derive':
        return check_derive(case)
    if case['f'] == 'related':
        return check_related(case)
    dis = []
    spec = expected_spec(case)
    exp = ref.encode(spec['levels'], spec['times'], spec['curves'],
                     spec['rel'], spec['loop'])
    prefix = 'encode' if case['f'] == 'env' else f"ctor-{case['name']}"
    outcome = {}
    reuse = case.get('reuse')
    if reuse:
        prefix = 'array'     # kinds 'reuse-array-<slot>', not per constructor

    # -- 1. construction + server array (reuse: the SAME object also
    #       produces its IEnvGen layout before / in between)
    first = interp = None
    try:
        env = make_env(case)
        if reuse == 'ie':
            interp = env._interpolation_format()
        elif reuse == 'eie':
            first = env._envgen_format()
            interp = env._interpolation_format()
        raw = env._envgen_format()
    except Exception as e:
        if spec.get('raise_ok'):
            return dis, {'refused': _exc(e)}
        dis.append((raise_kind(prefix, e, case), exp, _exc(e),
                    'constructing / encoding a valid specification raised'))
        return dis, {'raised': _exc(e)}
    obs = _plain(raw)
    outcome['array'] = obs
    if interp is not None:
        iobs = _plain(interp)
        outcome['interp'] = iobs
        iexp = ref.encode_interpolation(spec['levels'], spec['times'],
                                        spec['curves'], spec['offset'])
        if not single_channel(iobs):
            dis.append((prefix + '-interp-not-single-channel', [iexp], iobs,
                        ''))
        else:
            dis += cmp_array(prefix, iexp, iobs[0], interp_dontcare(spec),
                             islot_name, approx=(3,))
    if first is not None and _plain(first) != obs:
        dis.append((prefix + '-second-encoding-differs', _plain(first), obs,
                    '_envgen_format() before and after '
                    '_interpolation_format() on one object'))
    if not single_channel(obs):
        dis.append((prefix + '-not-single-channel', [exp], obs,
                    'expected one array for a single-channel envelope'))
        return dis, outcome
    arr = obs[0]
    dis += cmp_array(prefix, exp, arr, spec['dontcare'], slot_name)
    for i in sorted(spec.get('present', ())):
        # which node number a level index becomes is not decided, but a node
        # that is given is not encoded as absent
        if len(arr) == len(exp) and not (
                _num_eq(arr[i], arr[i]) and arr[i] != ref.ABSENT):
            dis.append((f'{prefix}-given-{slot_name(i)}-encoded-absent',
                        'a number other than -99', arr[i], f'array {arr}'))

    if not reuse:
        # -- 1b. the same constructor call written positionally (documented
        #        parameter order) gives the same array
        if positional_prefix(case):
            dis += check_positional(case, prefix, exp, spec, outcome)
        # -- 1c. the other routes by which the array reaches the server: as
        #        a synth argument (control input / OSC argument list)
        dis += check_control_input(env, 'array', exp, spec, outcome)

    # -- 2. client-side evaluation
    offsets = [spec['offset']] if spec['offset'] == 0 else [spec['offset'], 0]
    L, T, C = spec['levels'], spec['times'], spec['curves']
    if 4 in spec['dontcare']:
        # cutoff with an exponential curve: the end level is whatever the
        # implementation encoded (must be a number); evaluate against it
        if len(arr) > 4 and _num_eq(arr[4], arr[4]):
            L = [L[0], arr[4]]
    adis, ats = eval_at(env, L, T, C, offsets, exp)
    dis += adis
    outcome['at'] = ats

    # -- 3. EnvGen inputs in definition bytes
    if case.get('def'):
        dis += check_def(case, exp, spec, outcome)
    if reuse in ('def-ie', 'def-ei'):
        dis += check_def_reuse(case, exp, spec, outcome, reuse)
    if reuse == 'def-ee':
        dis += check_def_twice(case, exp, spec, outcome)
    return dis, outcome


def eval_at(env, L, T, C, offsets, exp, shape_kinds=True):
    """_at(t) over the time grid against the demands of the property; one
    disagreement per kind.  `offsets`: the acceptable readings of the
    envelope's offset (first = the nominal one)."""
    dis = []
    plans = [ref.Plan(L, T, C, off) for off in offsets]
    grid = set()
    for pl in plans:
        grid.update(ref.time_grid(L, T, pl.offset))
        grid.update(pl.offset + b for b in pl.bp)
    ats = []
    seen_kinds = set()
    plan_ok = [0] * len(plans)
    plan_bad = {}
    times = sorted(grid)
    # forward over the grid, then backwards (evaluation at a time does not
    # depend on what was evaluated before): a value of the second pass is
    # judged again only if it differs from the first one
    fwd = {}
    for t in times + times[::-1]:
        try:
            v = env._at(t)
        except Exception as e:
            v = _exc(e)
        pv = _plain(v)
        again = len(fwd) == len(times)
        if again:
            if pv == fwd[t] or (pv != pv and fwd[t] != fwd[t]):
                continue
        else:
            fwd[t] = pv
            ats.append(pv)
        ok = False
        for pi, pl in enumerate(plans):
            if ref.accepts(pl.demand(t), v):
                ok = True
                plan_ok[pi] += 1
            else:
                plan_bad.setdefault(pi, (t, pv))
        if ok:
            continue
        d = plans[0].demand(t)
        where, si = plans[0].where(t)
        segs = plans[0].segs
        shape = 'last' if si >= len(segs) else \
            ref.shape_and_curvature(segs[si][3])[0]
        sfx = f'-shape{shape}' if shape_kinds else ''
        if again:
            kind = 'at-differs-when-evaluated-again'
        elif isinstance(v, str):
            kind = f'at-raises-{v.split(":")[0]}{sfx}'
        elif where == 'after':
            kind = 'at-after-end'
        elif where == 'bp':
            kind = f'at-breakpoint{sfx}'
        else:
            kind = f'at-inside{sfx}'
        if kind not in seen_kinds:
            seen_kinds.add(kind)
            dis.append((kind, list(d), pv,
                        f'_at({t}); segment {si}; expected array {exp}'))
    # whether _at honours the offset is a don't-care, but it is ONE choice for
    # the envelope: some plan has to explain every evaluated time
    if len(plans) > 1 and not dis_has_at(dis) and \
            all(pi in plan_bad for pi in range(len(plans))):
        pi = max(range(len(plans)), key=lambda i: plan_ok[i])
        t, pv = plan_bad[pi]
        dis.append(('at-offset-handling-inconsistent',
                    list(plans[pi].demand(t)), pv,
                    f'_at({t}): no single reading of the offset '
                    f'({[pl.offset for pl in plans]}) explains all evaluated '
                    f'times; expected array {exp}'))
    return dis, ats


def check_positional(case, prefix, exp, spec, outcome):
    try:
        raw = make_env(case, 'pos')._envgen_format()
    except Exception as e:
        return [(f'{prefix}-positional-raises-{type(e).__name__}', exp,
                 _exc(e), 'the call with its leading arguments positional '
                 '(documented order) raised')]
    obs = _plain(raw)
    outcome['positional'] = obs
    if not single_channel(obs):
        return [(prefix + '-positional-not-single-channel', [exp], obs, '')]
    return cmp_array(prefix + '-positional', exp, obs[0], spec['dontcare'],
                     slot_name)


def _numbers_of(x):
    """OSC argument list of one array-valued synth argument -> the numbers
    (the '[' / ']' array marks are packaging the statement says nothing
    about)."""
    if not isinstance(x, (list, tuple)):
        return None
    x = list(x)
    if len(x) >= 2 and x[0] == '[' and x[-1] == ']':
        x = x[1:-1]
    return x


def check_control_input(env, prefix, exp, spec, outcome):
    dis = []
    try:
        ctl = env._as_control_input()
        lst = []
        env._embed_as_osc_arg(lst)
    except Exception as e:
        return [(f'{prefix}-control-input-raises-{type(e).__name__}', exp,
                 _exc(e), '_as_control_input / _embed_as_osc_arg raised')]
    for tag, got in (('control-input', _plain(ctl)),
                     ('osc-arg', _plain(_numbers_of(lst)))):
        outcome[tag] = got
        if not isinstance(got, list) or len(got) != len(exp) or any(
                not _num_eq(y, x) for i, (x, y) in enumerate(zip(exp, got))
                if i not in spec['dontcare']):
            dis.append((f'{prefix}-{tag}', exp, got,
                        'the array as a synth argument'))
    return dis


# ---------------------------------------------------------------------------
# Derived envelopes: an Env object that was already used (encoded / evaluated)
# is changed through the public API (duration setter) or copied with mapped
# levels (range / exprange / curverange).  Whatever the operation computes,
# the resulting object IS an envelope specification (its public attributes
# levels / times / curves / release_node / loop_node), and the statement
# binds its encoding and its evaluation to those.

def _plain_number(x):
    return isinstance(x, (int, float)) and not isinstance(x, bool) \
        and x == x and abs(x) != float('inf')


def attr_spec(env):
    """Specification read from the object's public attributes; None when it
    is not a plain single-channel specification (then nothing is demanded)."""
    L, T, C = env.levels, env.times, env.curves
    if not isinstance(L, list) or not isinstance(T, list) or len(L) < 2 \
            or len(T) != len(L) - 1:
        return None
    if not all(_plain_number(x) for x in L + T) or any(x < 0 for x in T):
        return None
    for c in ref.as_list(C):
        if not (_plain_number(c) or c in ref.SHAPE_NUMBERS):
            return None
    for nd in (env.release_node, env.loop_node):
        if nd is not None and not _plain_number(nd):
            return None
    if not _plain_number(env.offset):
        return None
    return {'levels': list(L), 'times': list(T),
            'curves': list(C) if isinstance(C, list) else C,
            'rel': env.release_node, 'loop': env.loop_node,
            'offset': env.offset, 'dontcare': set()}


PRE_USES = {'e': lambda env: env._envgen_format(),
            'i': lambda env: env._interpolation_format(),
            'a': lambda env: env._at(0.25),
            'c': lambda env: env._as_control_input()}


# ---------------------------------------------------------------------------
# Related envelopes: a chain e0 -> e1 (-> e2) in which each object is made
# from the previous one by range / exprange / curverange / copy.copy /
# copy.deepcopy; each object is used or not (encoded, evaluated, read as a
# control input); then ONE of them is changed through the public API (the
# duration setter is the only public mutator of a plain specification).
# Afterwards every object is an envelope specification of its own: the changed
# one must encode / evaluate as its public attributes say, the others as their
# attributes said BEFORE the change (nobody changed them).

def _link(env, link):
    if link[0] == 'copy':
        return copy.copy(env)
    if link[0] == 'deepcopy':
        return copy.deepcopy(env)
    return getattr(env, link[0])(*link[1:])


def _judge(obj, spec, prefix, note):
    """obj must encode and evaluate as `spec` -> (disagreements, outcome)"""
    dis = []
    exp = ref.encode(spec['levels'], spec['times'], spec['curves'],
                     spec['rel'], spec['loop'])
    try:
        obs = _plain(obj._envgen_format())
    except Exception as e:
        return [(f'{prefix}-raises-{type(e).__name__}', exp, _exc(e),
                 note)], None
    if not single_channel(obs):
        return [(prefix + '-not-single-channel', [exp], obs, note)], obs
    dis += [(k, e_, o_, f'{note}; {det}') for k, e_, o_, det in
            cmp_array(prefix, exp, obs[0], set(), slot_name)]
    dis += check_control_input(obj, prefix, exp, spec, {})[:1]
    offsets = [spec['offset']] if spec['offset'] == 0 \
        else [spec['offset'], 0]
    adis, ats = eval_at(obj, spec['levels'], spec['times'], spec['curves'],
                        offsets, exp, shape_kinds=False)
    dis += [(f'{prefix}-{k}', e_, o_, f'{note}; {det}')
            for k, e_, o_, det in adis]
    return dis, [obs, ats]


def check_related(case):
    dis, outcome = [], {}
    early = case['when'] == 'early'
    try:
        objs = [make_env(case['base'])]
        if early:
            for ch in case['pre'][0]:
                PRE_USES[ch](objs[0])
        for i, link in enumerate(case['links'], 1):
            objs.append(_link(objs[-1], link))
            if early:
                for ch in case['pre'][i]:
                    PRE_USES[ch](objs[i])
        if not early:
            for obj, uses in zip(objs, case['pre']):
                for ch in uses:
                    PRE_USES[ch](obj)
    except Exception as e:
        # base / mapping are judged by the other families
        return [], {'setup-raised': _exc(e)}
    before = [attr_spec(o) for o in objs]
    op, target = case['op'], case['target']
    try:
        if op[0] == 'duration':
            objs[target].duration = op[1]
    except Exception as e:
        return [], {'op-raised': _exc(e)}
    for i, obj in enumerate(objs):
        changed = op[0] != 'none' and i == target
        role = 'target' if changed else 'bystander'
        spec = attr_spec(obj) if changed else before[i]
        if spec is None:
            outcome[str(i)] = 'not-a-plain-specification'
            continue
        note = (f'object {i} of chain base{case["links"]} ({role}) after '
                f'{op} on object {target}; specification '
                f'{spec["levels"]} {spec["times"]} {spec["curves"]}')
        if not changed:
            now = attr_spec(obj)
            if now is None or any(now[k] != spec[k] for k in
                                  ('levels', 'times', 'curves', 'rel',
                                   'loop', 'offset')):
                dis.append(('related-bystander-attributes-changed',
                            [spec['levels'], spec['times'], spec['curves']],
                            None if now is None else
                            [now['levels'], now['times'], now['curves']],
                            note))
        d, out = _judge(obj, spec, 'related-' + role, note)
        dis += d
        outcome[str(i)] = out
    seen, uniq = set(), []
    for d in dis:
        if d[0] not in seen:
            seen.add(d[0])
            uniq.append(d)
    return uniq, outcome


def check_derive(case):
    dis, outcome = [], {}
    op = case['op']
    try:
        env = make_env(case['base'])
        for ch in case['pre']:
            PRE_USES[ch](env)
    except Exception as e:
        # the base specification is checked by the other families
        return [], {'base-raised': _exc(e)}
    try:
        if op[0] == 'duration':
            env.duration = op[1]
            objs = [('result', env)]
        else:
            objs = [('result', getattr(env, op[0])(*op[1:])),
                    ('source', env)]
    except Exception as e:
        # the mapping itself (e.g. constant levels: empty input range) is
        # outside the statement
        return [], {'op-raised': _exc(e)}
    for tag, obj in objs:
        spec = attr_spec(obj)
        if spec is None:
            outcome[tag] = 'not-a-plain-specification'
            continue
        exp = ref.encode(spec['levels'], spec['times'], spec['curves'],
                         spec['rel'], spec['loop'])
        prefix = 'derive' if tag == 'result' else 'derive-source'
        try:
            obs = _plain(obj._envgen_format())
        except Exception as e:
            dis.append((f'{prefix}-raises-{type(e).__name__}', exp, _exc(e),
                        f'{tag} of {op}: encoding raised'))
            continue
        outcome[tag] = [spec['levels'], spec['times'], obs]
        if not single_channel(obs):
            dis.append((prefix + '-not-single-channel', [exp], obs, ''))
            continue
        d = cmp_array(prefix, exp, obs[0], set(), slot_name)
        dis += [(k, e_, o_, f'{tag} of {op}; attributes {spec["levels"]} '
                 f'{spec["times"]}; {det}') for k, e_, o_, det in d]
        dis += check_control_input(obj, prefix, exp, spec, {})[:1]
        if tag == 'result':
            offsets = [spec['offset']] if spec['offset'] == 0 \
                else [spec['offset'], 0]
            adis, ats = eval_at(obj, spec['levels'], spec['times'],
                                spec['curves'], offsets, exp,
                                shape_kinds=False)
            dis += [('derive-' + k, e_, o_, f'{tag} of {op}; {det}')
                    for k, e_, o_, det in adis]
            outcome['at'] = ats
    return dis, outcome


def dis_has_at(dis):
    return any(d[0].startswith('at-') for d in dis)


GATE, LSCALE, LBIAS, TSCALE, DONE = 3, 5, 7, 11, 2


def _def_bytes(sd):
    """as_bytes() hands out a memoryview of a BytesIO that the SynthDef keeps;
    copy it and release the view, otherwise a worker that is finalised while
    such a definition is still alive dies noisily ("deallocated BytesIO
    object has exported buffers")."""
    view = sd.as_bytes()
    data = bytes(view)
    if isinstance(view, memoryview):
        view.release()
    return data


def check_def(case, exp, spec, outcome):
    from sc3.synth.synthdef import SynthDef
    from sc3.synth.ugens.envgen import EnvGen
    from sc3.synth.ugens import Out
    sel = case['def']

    def graph():
        env = make_env(case)
        if sel == 'ar':
            sig = EnvGen.ar(env, GATE, LSCALE, LBIAS, TSCALE, DONE)
            Out.ar(0, sig)
        elif sel == 'ar0':      # only the envelope given
            Out.ar(0, EnvGen.ar(env))
        elif sel == 'kr0':
            Out.kr(0, EnvGen.kr(env, done_action=DONE))
        else:
            sig = EnvGen.kr(env, GATE, LSCALE, LBIAS, TSCALE, DONE)
            Out.kr(0, sig)

    try:
        sd = SynthDef('c19', graph)
        data = _def_bytes(sd)
    except Exception as e:
        return [(raise_kind('def', e, case), exp, _exc(e),
                 'building a definition with EnvGen raised')]
    try:
        defs = scgf.decode(data)['defs']
    except Exception as e:
        return [('def-unreadable', 'SCgf v2', _exc(e), data.hex()[:400])]
    units = [u for d in defs for u in d['units'] if u['name'] == 'EnvGen']
    if len(defs) != 1 or len(units) != 1:
        return [('def-envgen-missing', 'one EnvGen unit',
                 [[u['name'] for u in d['units']] for d in defs], '')]
    u = units[0]
    consts = defs[0]['constants']
    vals = []
    for inp in u['inputs']:
        if inp[0] == 'c' and 0 <= inp[1] < len(consts):
            vals.append(consts[inp[1]])
        else:
            vals.append(list(inp))
    outcome['def_inputs'] = vals
    want = [f32(x) for x in exp]
    dis = []
    if len(vals) != 5 + len(want):
        dis.append(('def-input-count', 5 + len(want), len(vals),
                    f'inputs {vals}'))
        return dis
    tail = vals[5:]
    for i, (x, y) in enumerate(zip(want, tail)):
        if i in spec['dontcare']:
            continue
        if not _num_eq(y, x):
            dis.append(('def-trailing-inputs', want, tail,
                        f'index {i} ({slot_name(i)}) differs'))
            break
    return dis


INDEX = 0.75


def _unit_values(defs, name):
    units = [u for d in defs for u in d['units'] if u['name'] == name]
    if len(defs) != 1 or len(units) != 1:
        return None
    consts = defs[0]['constants']
    vals = []
    for inp in units[0]['inputs']:
        if inp[0] == 'c' and 0 <= inp[1] < len(consts):
            vals.append(consts[inp[1]])
        else:
            vals.append(list(inp))
    return vals


def check_def_reuse(case, exp, spec, outcome, order):
    """One definition in which ONE Env object feeds IEnvGen.kr and EnvGen.kr
    (order 'def-ie': IEnvGen first; 'def-ei': EnvGen first)."""
    from sc3.synth.synthdef import SynthDef
    from sc3.synth.ugens.envgen import EnvGen, IEnvGen
    from sc3.synth.ugens import Out

    def graph():
        env = make_env(case)
        if order == 'def-ie':
            a = IEnvGen.kr(env, INDEX)
            b = EnvGen.kr(env, GATE, LSCALE, LBIAS, TSCALE, DONE)
        else:
            b = EnvGen.kr(env, GATE, LSCALE, LBIAS, TSCALE, DONE)
            a = IEnvGen.kr(env, INDEX)
        Out.kr(0, a)
        Out.kr(1, b)

    try:
        sd = SynthDef('c19', graph)
        data = _def_bytes(sd)
    except Exception as e:
        return [(raise_kind('def', e, case), exp, _exc(e),
                 'building a definition with IEnvGen + EnvGen raised')]
    try:
        defs = scgf.decode(data)['defs']
    except Exception as e:
        return [('def-unreadable', 'SCgf v2', _exc(e), data.hex()[:400])]
    ev = _unit_values(defs, 'EnvGen')
    iv = _unit_values(defs, 'IEnvGen')
    if ev is None or iv is None:
        return [('def-units-missing', 'one EnvGen and one IEnvGen unit',
                 [[u['name'] for u in d['units']] for d in defs], '')]
    outcome['def_inputs'] = ev
    outcome['def_iinputs'] = iv
    dis = []
    want = [f32(x) for x in exp]
    if len(ev) != 5 + len(want):
        dis.append(('def-input-count', 5 + len(want), len(ev),
                    f'inputs {ev}'))
    else:
        tail = ev[5:]
        for i, (x, y) in enumerate(zip(want, tail)):
            if i in spec['dontcare']:
                continue
            if not _num_eq(y, x):
                dis.append(('def-trailing-inputs', want, tail,
                            f'index {i} ({slot_name(i)}) differs'))
                break
    iwant = [f32(x) for x in ref.encode_interpolation(
        spec['levels'], spec['times'], spec['curves'], spec['offset'])]
    if len(iv) != 1 + len(iwant):
        dis.append(('def-ienvgen-input-count', 1 + len(iwant), len(iv),
                    f'inputs {iv}'))
    else:
        d = cmp_array('def-ienvgen', iwant, iv[1:], interp_dontcare(spec),
                      islot_name, approx=(3,), rel=1e-6)
        dis += d[:1]
    return dis


def check_def_twice(case, exp, spec, outcome):
    """One definition in which ONE Env object feeds two EnvGen units (kr with
    all arguments, then ar with the envelope only)."""
    from sc3.synth.synthdef import SynthDef
    from sc3.synth.ugens.envgen import EnvGen
    from sc3.synth.ugens import Out

    def graph():
        env = make_env(case)
        a = EnvGen.kr(env, GATE, LSCALE, LBIAS, TSCALE, DONE)
        b = EnvGen.ar(env)
        Out.kr(0, a)
        Out.ar(0, b)

    try:
        sd = SynthDef('c19', graph)
        data = _def_bytes(sd)
    except Exception as e:
        return [(raise_kind('def', e, case), exp, _exc(e),
                 'building a definition with two EnvGen raised')]
    try:
        defs = scgf.decode(data)['defs']
    except Exception as e:
        return [('def-unreadable', 'SCgf v2', _exc(e), data.hex()[:400])]
    units = [u for d in defs for u in d['units'] if u['name'] == 'EnvGen']
    if len(defs) != 1 or len(units) != 2:
        return [('def-units-missing', 'two EnvGen units',
                 [[u['name'] for u in d['units']] for d in defs], '')]
    consts = defs[0]['constants']
    want = [f32(x) for x in exp]
    dis = []
    outcome['def_inputs'] = []
    for u in units:
        vals = [consts[inp[1]] if inp[0] == 'c' and 0 <= inp[1] < len(consts)
                else list(inp) for inp in u['inputs']]
        outcome['def_inputs'].append(vals)
        if len(vals) != 5 + len(want):
            dis.append(('def-input-count', 5 + len(want), len(vals),
                        f'inputs {vals}'))
            break
        tail = vals[5:]
        bad = [i for i, (x, y) in enumerate(zip(want, tail))
               if i not in spec['dontcare'] and not _num_eq(y, x)]
        if bad:
            dis.append(('def-trailing-inputs', want, tail,
                        f'index {bad[0]} ({slot_name(bad[0])}) differs'))
            break
    return dis


# ---------------------------------------------------------------------------
# Non-triviality (DESIGN 2.6, C19 row: the input lies on a boundary - wrapped
# list, shape-domain edge, node present - or mixes types)

def is_nontrivial(case):
    if case.get('reuse'):
        return True     # one object used for several encodings
    if case['f'] == 'derive':
        return bool(case['pre'])    # the object was used before it changed
    if case['f'] == 'seq':
        return True                 # another envelope was encoded just before
    if case['f'] == 'related':
        return case['op'][0] != 'none' and len(case['links']) > 0
    if case['f'] == 'env':
        if case['levels'] == D or case['levels'] is None or \
                times_defaulted(case['times']):
            return True     # a documented default of levels / times applies
        n = len(case['levels']) - 1
        t, c = case['times'], _dflt(case['curves'], 'lin')
        wrapped = (isinstance(t, list) and len(t) < n) or \
                  (isinstance(c, list) and len(c) < n)
        mixed = isinstance(c, list) and \
            len({isinstance(x, str) for x in c}) == 2
        node = _dflt(case['rel'], None) is not None or \
            _dflt(case['loop'], None) is not None or \
            _dflt(case.get('offset', D), 0) != 0
        edge = any(not ref.on_domain(a, b, cv)
                   for a, b, _, cv in ref.segments(case['levels'], t, c))
        edge = edge or any(x < 0 for x in case['levels'])
        zero = 0 in ref.as_list(t)
        numtypes = len({type(x) for x in case['levels']}) == 2
        return wrapped or mixed or node or edge or zero or numtypes
    name, a = case['name'], case['args']
    if name in ref.CTOR_PARAMS:
        return 0 < len(a) < len(ref.CTOR_PARAMS[name])   # defaults + explicit
    if name == 'step':
        return bool(a) and ('release_level' in a or 'loop_level' in a
                            or 'levels' in a or 'offset' in a)
    key = 'pairs' if name == 'pairs' else 'xyc'
    xs = [p[0] for p in a[key]]
    return xs != sorted(xs) or xs[0] != 0 or len(set(xs)) < len(xs) or \
        isinstance(a.get('curves'), list) or name == 'xyc'


# ---------------------------------------------------------------------------
# Families (deterministic canonical order, simplest first)

def seqs(alpha, lo, hi):
    for k in range(lo, hi + 1):
        for s in itertools.product(alpha, repeat=k):
            yield list(s)


def times_options(n, p):
    out = list(p.get('Tscalar', p['T']))
    out += list(seqs(p['T'], 1, min(n, p.get('Tmaxlen', n))))
    if 'Trequire' in p:      # keep the family disjoint from env-main
        out = [t for t in out if p['Trequire'] in ref.as_list(t)]
    return out


def curve_options(n, p):
    out = list(p['Cscalar'])
    if p.get('Clists') is not None:
        out += [list(x) for x in p['Clists'] if len(x) <= n]
    else:
        out += list(seqs(p['Clist'], 1, min(n, p.get('Cmaxlen', n))))
    return out


def node_options(n, p):
    if p['nodes'] == 'all':
        r = [None] + list(range(n + 1))
        return [[a, b] for a in r for b in r]
    return [x for x in p['nodes']
            if all(v is None or v == D or v <= n for v in x)]


def gen_env(p, shard, of):
    """Env(levels, times, curves, rel, loop) family; sharded on the
    (levels, times) index so that shards partition the space."""
    idx = 0
    defsel = p.get('def')
    for n in p['n']:
        topts = times_options(n, p)
        copts = curve_options(n, p)
        nopts = node_options(n, p)
        alpha = p['L'][str(n)] if isinstance(p['L'], dict) else p['L']
        for levels in itertools.product(alpha, repeat=n + 1):
            if 'Lrequire' in p and not any(x in p['Lrequire']
                                           for x in levels):
                continue    # keeps the family disjoint from env-main
            for t in topts:
                mine = idx % of == shard
                idx += 1
                if not mine:
                    continue
                for c in copts:
                    for rel, loop in nopts:
                        for off in p.get('offsets', [None]):
                            for style in p.get('styles', [None]):
                                if style == 'pos' and p.get('pos_omits') \
                                        and D not in (c, rel, loop):
                                    continue    # an ordinary call
                                case = {'f': 'env', 'levels': list(levels),
                                        'times': t, 'curves': c, 'rel': rel,
                                        'loop': loop}
                                if off is not None:
                                    case['offset'] = off
                                if style:
                                    case['style'] = style
                                if defsel:
                                    case['def'] = defsel
                                yield case


def gen_ctor_params(p, shard, of):
    """Parametric constructors: full product of per-parameter menus
    (D = leave the documented default)."""
    name = p['name']
    params = [k for k, _ in ref.CTOR_PARAMS[name]]
    menus = [p['menus'][k] for k in params]
    excl = p.get('exclude')
    for idx, combo in enumerate(itertools.product(*menus)):
        if idx % of != shard:
            continue
        if excl and all(v in excl[k] for k, v in zip(params, combo)):
            continue        # a case of the main family of this constructor
        args = {k: v for k, v in zip(params, combo) if v != D}
        case = {'f': 'ctor', 'name': name, 'args': args}
        if p.get('def'):
            case['def'] = p['def']
        yield case


def gen_step(p, shard, of):
    idx = 0
    cases = [{}]                                     # all defaults
    for k in range(1, p['maxlen'] + 1):
        for lv in itertools.product(p['L'], repeat=k):
            tms = list(itertools.product(p['T'], repeat=k))
            for tm in tms:
                base = {'levels': list(lv), 'times': list(tm)}
                for rel in [D] + list(range(k + 1)):
                    for loop in [D] + list(range(k + 1)):
                        a = dict(base)
                        if rel != D:
                            a['release_level'] = rel
                        if loop != D:
                            a['loop_level'] = loop
                        cases.append(a)
            if k == 2:          # times left to the documented default [1, 1]
                cases.append({'levels': list(lv)})
                cases.append({'levels': list(lv), 'release_level': 1})
                for off in p.get('offsets', ()):
                    cases.append({'levels': list(lv), 'offset': off})
                    cases.append({'levels': list(lv), 'times': [0.5, 1],
                                  'loop_level': 0, 'offset': off})
    for a in cases:
        mine = idx % of == shard
        idx += 1
        if mine:
            case = {'f': 'ctor', 'name': 'step', 'args': a}
            if p.get('def'):
                case['def'] = p['def']
            yield case


def gen_points(p, shard, of):
    """pairs / xyc: all orderings of k distinct x positions (or, with
    `ties`, every x sequence in which at least two points share their time,
    in every input order and both level orders), all y lists, curve menus."""
    name = p['name']
    idx = 0
    for k in range(2, p['maxpts'] + 1):
        if p.get('ties'):
            xseqs = [xs for xs in itertools.product(p['X'], repeat=k)
                     if len(set(xs)) < k]
        else:
            xseqs = itertools.permutations(p['X'], k)
        for xs in xseqs:
            for ys in itertools.product(p['Y'], repeat=k):
                mine = idx % of == shard
                idx += 1
                if not mine:
                    continue
                if name == 'pairs':
                    copts = [D] + list(p['Cscalar']) + \
                        [list(c) for c in
                         itertools.product(p['Clist'], repeat=k)]
                    for c in copts:
                        a = {'pairs': [[x, y] for x, y in zip(xs, ys)]}
                        if c != D:
                            a['curves'] = c
                        case = {'f': 'ctor', 'name': 'pairs', 'args': a}
                        if p.get('def'):
                            case['def'] = p['def']
                        yield case
                else:
                    for cs in itertools.product(p['Clist'], repeat=k):
                        a = {'xyc': [[x, y, c]
                                     for x, y, c in zip(xs, ys, cs)]}
                        case = {'f': 'ctor', 'name': 'xyc', 'args': a}
                        if p.get('def'):
                            case['def'] = p['def']
                        yield case


def gen_defaults(p, shard, of):
    """Env.__init__ with every subset of its arguments left to the documented
    default: full product of per-argument menus (D = omitted; None / [] / ()
    = the explicit spellings of "default" for levels and times), both call
    styles."""
    keys = ['levels', 'times', 'curves', 'rel', 'loop', 'offset']
    menus = [p['menus'][k] for k in keys]
    for idx, combo in enumerate(itertools.product(*menus)):
        if idx % of != shard:
            continue
        for style in p['styles']:
            case = {'f': 'env', 'style': style}
            case.update(zip(keys, copy.deepcopy(list(combo))))
            yield case


def derive_bases(p):
    bases = []
    for n in p['n']:
        for levels in itertools.product(p['L'], repeat=n + 1):
            for t in p['times']:
                if isinstance(t, list) and len(t) > n:
                    continue
                for c in p['curves']:
                    if isinstance(c, list) and len(c) > n:
                        continue
                    for rel, loop in p['nodes']:
                        if any(v is not None and v > n for v in (rel, loop)):
                            continue
                        bases.append({'f': 'env', 'levels': list(levels),
                                      'times': t, 'curves': c, 'rel': rel,
                                      'loop': loop})
    for name, args in p['ctors']:
        bases.append({'f': 'ctor', 'name': name, 'args': args})
    return bases


def gen_derive(p, shard, of):
    """Every base envelope x every earlier use of the object ('' none, e
    EnvGen array, i IEnvGen array, a evaluation, c control input) x every
    changing operation."""
    for idx, base in enumerate(derive_bases(p)):
        if idx % of != shard:
            continue
        for op in p['ops']:
            for pre in p['pre']:
                yield {'f': 'derive', 'base': base, 'pre': pre, 'op': op}


def _subst(x, u):
    if isinstance(x, list):
        return [_subst(i, u) for i in x]
    if isinstance(x, dict):
        return {k: _subst(v, u) for k, v in x.items()}
    return u if x == 'U' else x


def gen_related(p, shard, of):
    """bases x chains of links x per-object earlier uses (early = right after
    the object was made, late = after the whole chain was made) x the object
    that is changed x the change."""
    idx = 0
    for base in derive_bases(p):
        for links in p['chains']:
            nobj = len(links) + 1
            mine = idx % of == shard
            idx += 1
            if not mine:
                continue
            alpha = p['pre'] if nobj == 2 else p['pre3']
            for pre in itertools.product(alpha, repeat=nobj):
                for when in ('early', 'late'):
                    if when == 'late' and not any(pre):
                        continue        # same as early
                    for op in p['ops']:
                        for target in ([0] if op[0] == 'none'
                                       else range(nobj)):
                            yield {'f': 'related', 'base': base,
                                   'links': links, 'pre': list(pre),
                                   'when': when, 'op': op, 'target': target}


def gen_seq(p, shard, of):
    """All ordered pairs of different specifications of a small set.  The
    top level 'U' of both specifications is a value that no other pair uses
    (2 + k/8192, exact), so that whatever a violation of the second one
    depends on was done by the first one of the SAME case and the case
    replays on its own."""
    specs = [sp for sp in derive_bases(p) if "'U'" in repr(sp)]
    idx = 0
    for a in specs:
        for b in specs:
            if a == b:
                continue
            mine = idx % of == shard
            idx += 1
            if mine:
                u = 2 + idx / 8192
                yield {'f': 'seq', 'first': _subst(a, u),
                       'second': _subst(b, u)}


GENS = {'env': gen_env, 'ctor': gen_ctor_params, 'step': gen_step,
        'points': gen_points, 'derive': gen_derive, 'seq': gen_seq,
        'defaults': gen_defaults, 'related': gen_related}


def families(tier):
    q = tier == 'quick'
    T3 = [0.5, 1, 2]
    fams = []
    # 1. main encode + evaluate space (no nodes)
    if q:
        fams.append(('env-main', 'env', {
            'n': [1, 2, 3],
            'L': {'1': [0, 0.5, 1, 2], '2': [0, 0.5, 1, 2], '3': [0, 0.5, 2]},
            'T': T3,
            'Cscalar': SCALAR_CURVES, 'Clist': ['exp', -4, 'hold'],
            'nodes': [[None, None]]}, 64))
    else:
        fams.append(('env-main', 'env', {
            'n': [1, 2, 3],
            'L': {'1': [0, 0.5, 1, 2, -1], '2': [0, 0.5, 1, 2, -1],
                  '3': [0, 0.5, 2, -1]},
            'T': T3,
            'Cscalar': SCALAR_CURVES,
            'Clist': ['exp', -4, 'hold', 'sqr'],
            'nodes': [[None, None]]}, 256))
        fams.append(('env-main-4seg', 'env', {
            'n': [4], 'L': [0, 1, 2], 'T': [0.5, 2], 'Tscalar': T3,
            'Cscalar': SCALAR_CURVES, 'Clist': ['exp', -4, 'hold'],
            'nodes': [[None, None]]}, 256))
    # 2. release / loop nodes, all pairs, also through EnvGen
    fams.append(('env-nodes', 'env', {
        'n': [1, 2, 3] if q else [1, 2, 3, 4],
        'L': [0, 1],
        'T': [0.5, 2], 'Tscalar': [1], 'Tmaxlen': 2,
        'Cscalar': ['lin', -4], 'Clists': [['sin', 2]],
        'nodes': 'all', 'def': 'kr'}, 32 if q else 128))
    # 3. every shape through EnvGen into definition bytes
    fams.append(('env-def', 'env', {
        'n': [1, 2, 3], 'L': [0, 0.5, 2] if q else [0, 0.5, 2, -1],
        'T': [], 'Tscalar': [2], 'Tmaxlen': 0,
        'Cscalar': SCALAR_CURVES,
        'Clists': [['wel', 2], ['cub', 'step', -4]],
        'nodes': [[None, None], [1, 0]], 'def': 'kr'}, 32 if q else 64))
    fams.append(('env-def-wrap', 'env', {
        'n': [2, 3], 'L': [0, 0.5, 2],
        'T': [0.5, 1], 'Tscalar': [], 'Tmaxlen': 2,
        'Cscalar': ['sqr', 2] if q else SCALAR_CURVES,
        'Clists': [['wel', 2], ['cub', 'step', -4]],
        'nodes': [[None, None]], 'def': 'ar'}, 32))
    # 4. zero durations (coincident breakpoints) and the scalar 0
    fams.append(('env-zero', 'env', {
        'n': [1, 2] if q else [1, 2, 3], 'L': [0, 1, 2],
        'T': [0, 0.5], 'Tscalar': [0], 'Trequire': 0,
        'Cscalar': SCALAR_CURVES, 'Clists': [],
        'nodes': [[None, None]]}, 16))
    # 5. constructors
    tm = [D, 0.5, 2] if q else [D, 0.5, 2, 1]
    lv = [D, 0.5, 2] if q else [D, 0.5, 2, 1]
    cv = [D, 'sin', 2] if q else [D, 'sin', 2, 'exp']
    fams.append(('ctor-triangle', 'ctor', {
        'name': 'triangle', 'def': 'kr0',
        'menus': {'dur': [D, 0.5, 2, 1, 0.25], 'level': [D, 0.5, 2, 0, -1]}},
        4))
    fams.append(('ctor-sine', 'ctor', {
        'name': 'sine', 'def': 'ar0',
        'menus': {'dur': [D, 0.5, 2, 1, 0.25], 'level': [D, 0.5, 2, 0, -1]}},
        4))
    fams.append(('ctor-perc', 'ctor', {
        'name': 'perc', 'def': 'kr',
        'menus': {'attack_time': tm, 'release_time': tm, 'level': lv,
                  'curve': [D] + SCALAR_CURVES + [['sin', 2]]}}, 8))
    fams.append(('ctor-linen', 'ctor', {
        'name': 'linen', 'def': 'kr',
        'menus': {'attack_time': tm, 'sustain_time': tm, 'release_time': tm,
                  'level': lv,
                  'curve': [D] + SCALAR_CURVES + [['sin', 2]]}}, 16))
    fams.append(('ctor-cutoff', 'ctor', {
        'name': 'cutoff', 'def': 'kr',
        'menus': {'release_time': tm, 'level': lv,
                  'curve': [D] + SCALAR_CURVES}}, 4))
    fams.append(('ctor-asr', 'ctor', {
        'name': 'asr', 'def': 'kr',
        'menus': {'attack_time': tm, 'sustain_level': lv, 'release_time': tm,
                  'curve': [D] + SCALAR_CURVES}}, 8))
    sus = [D, 0.25, 1] if q else [D, 0.25, 1, 0]
    bias = [D, 0.5, -1] if q else [D, 0.5, -1, 2]
    fams.append(('ctor-adsr', 'ctor', {
        'name': 'adsr', 'def': 'kr',
        'menus': {'attack_time': tm, 'decay_time': tm, 'sustain_level': sus,
                  'release_time': tm, 'peak_level': lv, 'curve': cv,
                  'bias': bias}}, 32))
    fams.append(('ctor-dadsr', 'ctor', {
        'name': 'dadsr', 'def': 'kr' if q else None,
        'menus': {'delay_time': tm, 'attack_time': tm, 'decay_time': tm,
                  'sustain_level': sus, 'release_time': tm, 'peak_level': lv,
                  'curve': cv, 'bias': bias}}, 64))
    fams.append(('ctor-step', 'step', {
        'name': 'step', 'def': 'kr', 'L': [0, 1, 2], 'T': [0.5, 1],
        'maxlen': 2 if q else 3, 'offsets': [0.5, 3]}, 8))
    fams.append(('ctor-pairs', 'points', {
        'name': 'pairs', 'def': 'kr', 'X': [0, 0.5, 1, 2], 'Y': [0, 1, 2],
        'maxpts': 3 if q else 4, 'Cscalar': ['sin', -4, 'exp', 0],
        'Clist': ['lin', -4] if q else ['lin', -4, 'exp']}, 16))
    fams.append(('ctor-xyc', 'points', {
        'name': 'xyc', 'def': None, 'X': [0, 0.5, 1, 2], 'Y': [0, 1, 2],
        'maxpts': 3 if q else 4,
        'Clist': ['lin', -4, 'exp'] if q else ['lin', -4, 'exp']}, 32))
    # equal-time points (vertical jumps): the documented order is "sorted
    # regarding their point in time", i.e. ties keep their input order
    fams.append(('ctor-pairs-ties', 'points', {
        'name': 'pairs', 'def': 'kr', 'ties': True,
        'X': [0, 1, 2] if q else [0, 0.5, 1, 2], 'Y': [0, 1, 2],
        'maxpts': 3, 'Cscalar': ['sin', -4, 'exp'],
        'Clist': ['lin', -4] if q else ['lin', -4, 'exp']}, 16))
    # envelopes that start late (first point well after 0, offset larger
    # than the last segments): whichever way _at reads the offset, it is one
    # reading for all times
    fams.append(('ctor-pairs-late', 'points', {
        'name': 'pairs', 'def': None, 'X': [1, 1.5, 2, 3], 'Y': [0, 1, 2],
        'maxpts': 3, 'Cscalar': [], 'Clist': ['lin']}, 16))
    fams.append(('ctor-xyc-late', 'points', {
        'name': 'xyc', 'def': None, 'X': [1, 1.5, 2, 3], 'Y': [0, 1, 2],
        'maxpts': 3, 'Clist': ['lin']}, 16))
    fams.append(('ctor-xyc-ties', 'points', {
        'name': 'xyc', 'def': None, 'ties': True,
        'X': [0, 1, 2] if q else [0, 0.5, 1, 2], 'Y': [0, 1, 2],
        'maxpts': 3, 'Clist': ['lin', -4, 'exp']}, 32))
    # 6. same object, several uses: IEnvGen layout then EnvGen array then
    #    _at; EnvGen, IEnvGen, EnvGen again, _at; one definition in which the
    #    same Env feeds IEnvGen.kr and EnvGen.kr (both orders)
    fams.append(('env-reuse', 'env', {
        'n': [1, 2, 3],
        'L': {'1': [0, 1, 2], '2': [0, 1, 2], '3': [0, 2]},
        'T': [0.5], 'Tscalar': [2], 'Tmaxlen': 2,
        'Cscalar': SCALAR_CURVES, 'Clists': [['sin', 2]],
        'nodes': [[None, None], [1, 0]], 'reuse': REUSE_MODES}, 32))
    fams.append(('ctor-perc-reuse', 'ctor', {
        'name': 'perc', 'reuse': REUSE_MODES,
        'menus': {'attack_time': [D, 0.5], 'release_time': [D, 2],
                  'level': [D, 2], 'curve': [D, 'sin', 'sqr', 2]}}, 4))
    fams.append(('ctor-adsr-reuse', 'ctor', {
        'name': 'adsr', 'reuse': REUSE_MODES,
        'menus': {'attack_time': [D, 0.5], 'decay_time': [D],
                  'sustain_level': [D, 0.25], 'release_time': [D],
                  'peak_level': [D, 2], 'curve': [D, 'sin'],
                  'bias': [D, 0.5]}}, 4))
    fams.append(('ctor-cutoff-reuse', 'ctor', {
        'name': 'cutoff', 'reuse': REUSE_MODES,
        'menus': {'release_time': [D, 2], 'level': [D, 2],
                  'curve': [D] + SCALAR_CURVES}}, 4))
    fams.append(('ctor-step-reuse', 'step', {
        'name': 'step', 'L': [0, 1], 'T': [0.5, 1], 'maxlen': 2,
        'offsets': [0.5], 'reuse': REUSE_MODES}, 4))
    fams.append(('ctor-pairs-reuse', 'points', {
        'name': 'pairs', 'X': [0.5, 1, 2], 'Y': [0, 1], 'maxpts': 3,
        'Cscalar': ['sin'], 'Clist': ['lin', -4], 'reuse': REUSE_MODES}, 8))
    # 7. durations that are not dyadic fractions: breakpoint times are
    #    rounded sums, `_at` exactly on them must still give the level
    ND = [0.1, 0.2, 0.3, 0.7]
    fams.append(('env-nondyadic', 'env', {
        'n': [1, 2, 3],
        'L': {'1': [0, 1, 2], '2': [0, 1, 2], '3': [0, 2] if q else [0, 1, 2]},
        'T': ND,
        'Cscalar': ['lin', 'hold', 'step', 'sin', 'wel', -4],
        'Clists': [['hold', 'lin'], ['lin', 'hold', 'step']],
        'nodes': [[None, None]]}, 32))
    fams.append(('ctor-pairs-nondyadic', 'points', {
        'name': 'pairs', 'def': None, 'X': [0.1, 0.3, 0.4, 1.1],
        'Y': [0, 1, 2], 'maxpts': 3, 'Cscalar': ['hold'],
        'Clist': ['lin', 'hold']}, 16))
    fams.append(('ctor-xyc-nondyadic', 'points', {
        'name': 'xyc', 'def': None, 'X': [-0.5, 0.1, 0.3, 1.1],
        'Y': [0, 1], 'maxpts': 3, 'Clist': ['lin', 'hold', 'step']}, 16))
    # 8. negative levels, larger and fractional curvatures
    fams.append(('env-negative', 'env', {
        'n': [1, 2], 'L': [-2, -1, 1] if q else [-2, -1, 0, 1],
        'Lrequire': [-2, -1] if q else [-2], 'T': [0.5, 1],
        'Cscalar': SCALAR_CURVES + [-20, 8.5, 0.5],
        'Clists': [['exp', 0.5], [-20, 'cub']],
        'nodes': [[None, None]]}, 16))
    # 9. arguments left out (documented defaults) / given by keyword; the
    #    offset argument
    fams.append(('env-call-styles', 'env', {
        'n': [1, 2] if q else [1, 2, 3], 'L': [0, 1] if q else [0, 1, 2],
        'T': [0.5], 'Tscalar': [2],
        'Cscalar': [D, 'sin', -4], 'Clists': [['sin', 2]],
        'nodes': [[D, D], [None, None], [1, D], [D, 0], [1, 0], [0, 1]],
        'styles': ['pos', 'kw'], 'pos_omits': True, 'def': 'kr'}, 8))
    fams.append(('env-offset', 'env', {
        'n': [1, 2], 'L': [0, 1, 2], 'T': [0.5, 1], 'Tscalar': [2],
        'Cscalar': ['lin', 'hold', -4], 'Clists': [['sin', 2]],
        'nodes': [[None, None], [1, 0]], 'offsets': [0.5, 3, -0.5],
        'styles': ['pos', 'kw']}, 16))
    fams.append(('env-offset-reuse', 'env', {
        'n': [1, 2], 'L': [0, 2], 'T': [0.5], 'Tscalar': [2],
        'Cscalar': ['lin', -4], 'Clists': [['sin', 2]],
        'nodes': [[None, None], [1, 0]], 'offsets': [0.5, -0.5],
        'reuse': REUSE_MODES}, 8))
    # 9b. every argument of Env.__init__ left to its documented default, one
    #     at a time and in every combination; 2..6 levels with times
    #     omitted / None / [] / () (default [1, 1] wrapped to 1..5 segments)
    LA, LB = [0, 1, 0.5, 0, 2, 1], [0.25, 1, 0, 2, 0.5, 0]
    fams.append(('env-defaults', 'defaults', {
        'menus': {
            'levels': [D, None] + [x[:k] for k in range(2, 7)
                                   for x in (LA, LB)],
            'times': [D, None, [], EMPTY_TUPLE, 0.5, [0.5, 2]],
            'curves': [D, 'sin', [-4]],
            'rel': [D, None, 1], 'loop': [D, None, 0],
            'offset': [D, 0.5] if q else [D, 0, 0.5]},
        'styles': ['pos', 'kw']}, 16))
    # 10. zero / negative constructor parameters (instant attack, silent
    #     peak, inverted envelope) with the shapes that are sensitive to a
    #     zero-length segment
    z_t, z_l = ([D, 0], [D, 0, -1]) if q else ([D, 0, 0.5], [D, 0, -1, 2])
    z_t5 = z_t if 0.5 in z_t else z_t + [0.5]
    z_c = [D, 'hold', 'step', 2]
    main_menus = {f[2]['name']: f[2]['menus'] for f in fams
                  if f[1] == 'ctor' and f[0] == 'ctor-' + f[2]['name']}
    fams.append(('ctor-perc-zero', 'ctor', {
        'name': 'perc', 'def': 'kr',
        'exclude': main_menus['perc'],
        'menus': {'attack_time': z_t5, 'release_time': z_t5,
                  'level': z_l, 'curve': z_c}}, 8))
    fams.append(('ctor-linen-zero', 'ctor', {
        'name': 'linen', 'def': 'kr',
        'exclude': main_menus['linen'],
        'menus': {'attack_time': z_t, 'sustain_time': z_t5,
                  'release_time': z_t, 'level': z_l, 'curve': z_c}}, 8))
    fams.append(('ctor-cutoff-zero', 'ctor', {
        'name': 'cutoff', 'def': 'kr',
        'exclude': main_menus['cutoff'],
        'menus': {'release_time': z_t, 'level': z_l,
                  'curve': [D] + SCALAR_CURVES}}, 4))
    fams.append(('ctor-asr-zero', 'ctor', {
        'name': 'asr', 'def': 'kr',
        'exclude': main_menus['asr'],
        'menus': {'attack_time': z_t5, 'sustain_level': z_l,
                  'release_time': z_t5, 'curve': z_c}}, 8))
    fams.append(('ctor-adsr-zero', 'ctor', {
        'name': 'adsr', 'def': 'kr',
        'exclude': main_menus['adsr'],
        'menus': {'attack_time': z_t, 'decay_time': z_t,
                  'sustain_level': [D, 0, 1], 'release_time': z_t,
                  'peak_level': z_l, 'curve': [D, 'hold', 0],
                  'bias': [D, 0, -1]}}, 16))
    fams.append(('ctor-dadsr-zero', 'ctor', {
        'name': 'dadsr', 'def': None,
        'exclude': main_menus['dadsr'],
        'menus': {'delay_time': z_t, 'attack_time': z_t, 'decay_time': z_t,
                  'sustain_level': [D, 0, 1], 'release_time': z_t,
                  'peak_level': z_l, 'curve': [D, 'hold', 2],
                  'bias': [D, 0, -1]}}, 16))
    # 11. an object that was already used is changed (duration setter) or
    #     copied with mapped levels (range / exprange / curverange)
    fams.append(('env-derive', 'derive', {
        'n': [1, 2] if q else [1, 2, 3],
        'L': [0, 1, 2] if q else [0, 1, 2, -1],
        'times': [0.5, [1, 2]],
        'curves': ['lin', -4, ['sin', 'hold']],
        'nodes': [[None, None], [1, 0]],
        'ctors': [['perc', {}], ['adsr', {}], ['linen', {'level': 2}],
                  ['step', {}],
                  ['pairs', {'pairs': [[0.5, 0], [1, 2], [2, 1]]}]],
        'ops': [['range'], ['range', -1, 3], ['exprange'],
                ['exprange', 0.5, 2], ['curverange'],
                ['curverange', 0, 4, 2], ['duration', 3],
                ['duration', 0.75]],
        'pre': ['', 'e', 'i', 'a', 'c', 'ei']}, 16))
    # 11b. envelopes related by copying (range / exprange / curverange /
    #      copy.copy / copy.deepcopy, chains of one or two links), each used
    #      or not, then one of them changed: every object still encodes and
    #      evaluates as its own specification, the others are unchanged
    one = [[['range']], [['range', -1, 3]], [['exprange']], [['curverange']],
           [['copy']], [['deepcopy']]]
    two = [[['range'], ['exprange']], [['copy'], ['range']],
           [['range'], ['copy']], [['deepcopy'], ['curverange']]]
    if not q:
        names = [['range'], ['exprange'], ['curverange'], ['copy'],
                 ['deepcopy']]
        two = [[a, b] for a in names for b in names]
    fams.append(('env-related', 'related', {
        'n': [2], 'L': [0, 2] if q else [0, 1, 2],
        'times': [[1, 2]], 'curves': [['sin', 'hold']],
        'nodes': [[None, None]] if q else [[1, 0]],
        'ctors': [['perc', {}], ['adsr', {}],
                  ['pairs', {'pairs': [[0.5, 0], [1, 2], [2, 1]]}]],
        'chains': one + two,
        'pre': ['', 'e', 'a'] if q else ['', 'e', 'a', 'c', 'i'],
        'pre3': ['', 'e'] if q else ['', 'e', 'a'],
        'ops': [['none'], ['duration', 3]] if q
        else [['none'], ['duration', 3], ['duration', 0.75]]}, 16))
    # 12. another envelope was encoded just before (all ordered pairs of a
    #     small set of specifications that differ in one or more fields)
    fams.append(('env-after-other', 'seq', {
        'n': [1] if q else [1, 2], 'L': [0, 'U'], 'times': [1, [0.5]],
        'curves': ['lin', 'sin', -4],
        'nodes': [[None, None], [1, 0], [0, None]],
        'ctors': [['perc', {'level': 'U'}],
                  ['perc', {'level': 'U', 'curve': 'sin'}],
                  ['adsr', {'peak_level': 'U'}],
                  ['adsr', {'peak_level': 'U', 'bias': 0.5}],
                  ['asr', {'sustain_level': 'U'}], ['cutoff', {'level': 'U'}],
                  ['cutoff', {'level': 'U', 'curve': 'exp'}],
                  ['step', {'levels': [0, 'U'], 'times': [1, 1]}],
                  ['step', {'levels': [0, 'U'], 'times': [1, 1],
                            'loop_level': 0}],
                  ['pairs', {'pairs': [[0.5, 0], [1, 'U'], [2, 1]]}],
                  ['pairs', {'pairs': [[0, 0], [1, 'U'], [2, 1]]}]]}, 16))
    return fams


# ---------------------------------------------------------------------------

REUSE_MODES = ['ie', 'eie', 'def-ie', 'def-ei', 'def-ee']


def with_reuse(cases, modes):
    """Each case once per 'same object, several uses' scenario."""
    if not modes:
        yield from cases
        return
    for case in cases:
        for m in modes:
            c = dict(case)
            c.pop('def', None)
            c['reuse'] = m
            yield c


def work(job):
    acc = progenum.Acc(max_samples=1)
    gen = GENS[job['gen']]
    for case in with_reuse(gen(job['params'], job['shard'], job['of']),
                           job['params'].get('reuse')):
        dis, outcome = check_case(case)
        for kind, exp, obs, detail in dis:
            acc.violation(kind, case, _plain(exp), obs, detail,
                          standalone=standalone(case))
        nat = len(outcome.get('at', ()))
        acc.case(case, nontrivial=is_nontrivial(case), outcome=outcome,
                 steps=1 + nat + (1 if case.get('def') else 0))
        acc.count('at_evaluations', nat)
        if case.get('def') or str(case.get('reuse')).startswith('def'):
            acc.count('definitions_decoded')
    acc.count('cases_' + job['family'], acc.ev)
    res = acc.result()
    res['family'] = job['family']
    return res


def call_text(case):
    def args_text(pos, kw):
        return ', '.join([repr(v) for v in pos] +
                         [f'{k}={v!r}' for k, v in kw.items()])
    if case['f'] == 'env':
        given = env_given(case)
        if case.get('style') == 'kw':
            return f'Env({args_text([], given)})'
        return f'Env({args_text(*split_call(ENV_PARAMS, given))})'
    if case.get('style') == 'pos':
        return (f"Env.{case['name']}("
                f"{args_text(*split_call(ctor_order(case['name']), case['args']))})")
    return f"Env.{case['name']}({args_text([], case['args'])})"


def related_text(head, case):
    uses = {'e': '{}._envgen_format()', 'i': '{}._interpolation_format()',
            'a': '{}._at(0.25)', 'c': '{}._as_control_input()'}

    def use(i):
        return ''.join(uses[ch].format(f'e{i}') + '\n'
                       for ch in case['pre'][i])
    early = case['when'] == 'early'
    txt = head + f"import copy\ne0 = {call_text(case['base'])}\n"
    txt += use(0) if early else ''
    for i, ln in enumerate(case['links'], 1):
        if ln[0] in ('copy', 'deepcopy'):
            txt += f'e{i} = copy.{ln[0]}(e{i - 1})\n'
        else:
            txt += (f"e{i} = e{i - 1}.{ln[0]}("
                    f"{', '.join(repr(x) for x in ln[1:])})\n")
        txt += use(i) if early else ''
    if not early:
        txt += ''.join(use(i) for i in range(len(case['links']) + 1))
    if case['op'][0] == 'duration':
        txt += f"e{case['target']}.duration = {case['op'][1]!r}\n"
    for i in range(len(case['links']) + 1):
        txt += (f'print(e{i}.levels, e{i}.times, e{i}._envgen_format(), '
                f'[e{i}._at(k / 8) for k in range(0, 33)])\n')
    return txt


def standalone(case):
    head = ("import sc3; sc3.init('nrt')\n"
            "from sc3.synth.envelope import Env\n")
    if case['f'] == 'seq':
        return (head + f"o = {call_text(case['first'])}\n"
                "o._envgen_format(); o._interpolation_format(); o._at(0.25)\n"
                f"e = {call_text(case['second'])}\n"
                "print(e._envgen_format())\n"
                "print([e._at(k / 8) for k in range(0, 33)])\n")
    if case['f'] == 'related':
        return related_text(head, case)
    if case['f'] == 'derive':
        uses = {'e': 'e._envgen_format()', 'i': 'e._interpolation_format()',
                'a': 'e._at(0.25)', 'c': 'e._as_control_input()'}
        op = case['op']
        txt = head + f"e = {call_text(case['base'])}\n"
        txt += ''.join(uses[ch] + '\n' for ch in case['pre'])
        if op[0] == 'duration':
            txt += f'e.duration = {op[1]!r}\nd = e\n'
        else:
            txt += (f"d = e.{op[0]}({', '.join(repr(x) for x in op[1:])})\n")
        return txt + ("print(d.levels, d.times, d.curves)\n"
                      "print(d._envgen_format())\n"
                      "print([d._at(k / 8) for k in range(0, 33)])\n")
    return (head + f"e = {call_text(case)}\n"
            "print(e._envgen_format())\n"
            "print(e._as_control_input())\n"
            "print([e._at(k / 8) for k in range(0, 33)])\n")


def replay(job):
    dis, outcome = check_case(job['case'])
    return {'violates': any(d[0] == job['kind'] or job['kind'] == ANY_KIND
                            for d in dis),
            'disagreements': [[d[0], repr(d[1]), repr(d[2]), d[3]]
                              for d in dis],
            'outcome': outcome}


def main(ctx):
    ctx.rule = (
        'E1: every envelope specification of the listed families (full '
        'products of small alphabets: level lists, scalar / short / full '
        'time lists, each documented shape name, numbers and mixed curve '
        'lists, release/loop nodes, constructor parameter menus including '
        'all defaults) is built through the real Env API; the server array, '
        '_at(t) on multiples of 1/8 plus every breakpoint over '
        '[-0.5, total+1], and (def sub-families) the EnvGen inputs decoded '
        'from the definition bytes are compared with the reference. Every '
        'array is also read through _as_control_input / _embed_as_osc_arg '
        '(synth argument route); constructor calls are repeated with their '
        'leading arguments positional (documented order); Env(...) also '
        'with omitted arguments and by keyword (family env-defaults: every '
        'subset of the arguments of Env.__init__ left to the documented '
        'default - levels [0, 1, 0], times [1, 1] wrapped to 1..5 segments, '
        'curves lin, no nodes, offset 0 - with levels / times also given '
        'as None, times as [] / ()); the grid is evaluated '
        'forwards and then backwards. Further families: durations that are '
        'not dyadic (0.1 0.2 0.3 0.7), negative levels, curvatures -20 / '
        '0.5 / 8.5, the offset argument, zero and negative constructor '
        'parameters, an already used object changed by the duration setter '
        'or copied by range/exprange/curverange (encoding and evaluation '
        'must follow the object\'s own levels/times/curves), chains of one '
        'or two copies (range / exprange / curverange / copy.copy / '
        'copy.deepcopy; family env-related) with each object used or not '
        'and then ONE object\'s duration set: the changed object follows its '
        'own attributes, every other object still encodes and evaluates as '
        'before and its attributes are unchanged, every ordered '
        'pair of a small set of specifications (second one checked after '
        'the first was encoded), one Env feeding two EnvGen units. '
        'Non-trivial = a time/curve list is wrapped, names and numbers are '
        'mixed, a node or offset is given, a segment is on the edge of its '
        'shape domain or a level is negative, a duration is 0, int and '
        'float levels are mixed; for constructors: defaults and explicit '
        'arguments are mixed, points are unsorted / offset, or a level '
        'index is given; derived / sequence cases: the object (another '
        'object) was used before.')
    ctx.assumptions += [
        'reference mc/oracles/env_ref.py: EnvGen array layout, server shape '
        'numbers and constructor breakpoints typed from the Env/EnvGen '
        'documentation',
        'mc/oracles/scgf.py: strict SCgf v2 reader (file-format reference)',
        'don\'t-cares: value before time 0; value inside/at the start of a '
        'segment outside its shape\'s documented domain (exp: same sign, '
        'non-zero; sqr/cub: non-negative); node numbers of Env.step when a '
        'level index is given; end level of Env.cutoff with an exponential '
        'curve; whether _at honours the offset of pairs/xyc; a step segment '
        'may show either neighbour at its starting breakpoint; the \'[\' '
        '\']\' marks around the OSC argument list; what range / exprange / '
        'curverange / the duration setter compute (only that the resulting '
        'object encodes and evaluates as its own attributes say); a level '
        'index given to Env.step only has to be encoded as a number other '
        'than -99; an EMPTY times list / tuple: the default [1, 1] '
        'wrapped, or a refusal (exception)',
        'multichannel envelopes, UGen-valued levels, IEnvGen format and '
        'circle/cyclic are outside the statement and not enumerated']
    ctx.bounds['time_grid'] = 'multiples of 0.125 in [-0.5, total+1] + breakpoints'
    fams = families(ctx.tier)
    # the history family first, in fresh workers: if one envelope disturbs
    # the next one, the case-by-case families below would report violations
    # that depend on what their worker did before and do not replay
    def jobs_of(fam):
        fname, gen, params, nshards = fam
        return [{'family': fname, 'gen': gen, 'params': params, 'shard': i,
                 'of': nshards} for i in range(nshards)]

    for fam in [f for f in fams if f[1] == 'seq']:
        progenum.run(ctx, MODNAME, 'work', jobs_of(fam), mode='nrt',
                     bound=fam[0])
    if ctx.violations and history_dependent(ctx):
        ctx.caps.append('an envelope encoded after another one is '
                        'wrong: remaining families not run')
        print('C19: envelopes are not independent of each other; '
              'remaining families skipped', flush=True)
        return
    # all other families as one pool of shard jobs (no barrier between
    # families); evaluations are still booked per family
    jobs = [j for f in fams if f[1] != 'seq' for j in jobs_of(f)]
    order = core.shard_order(len(jobs), ctx.seed)
    for res in ctx.map('nrt', MODNAME, 'work', [jobs[i] for i in order]):
        ctx.violation_count += res.get('nviol', 0) - len(res.get('viol', ()))
        ctx.absorb(res, res['family'])


ANY_KIND = '*any*'


def history_dependent(ctx):
    """Is some violation of the sequence family absent when its second
    specification is checked alone in a brand new process?  (Otherwise the
    defect is an ordinary one and every family is run as usual.)"""
    import sys
    module = sys.modules[__name__]
    for kind in sorted(ctx.violations):
        case = ctx.violations[kind]['case']
        if case.get('f') != 'seq':
            continue
        alone = core._replay_once(module, {'kind': ANY_KIND,
                                           'case': case['second']})
        if not alone.get('violates'):
            return True
    return False


# ---------------------------------------------------------------------------
# Known-finding predicates

def _shape_name_is(v, name):
    return v['kind'] == f'shape-name-rejected-{name}'


def _step_defaults(v):
    a = v['case'].get('args', {})
    return v['case'].get('name') == 'step' and 'release_level' not in a


def _scalar_zero_times(v):
    return v['case'].get('f') == 'env' and v['case'].get('times') == 0


def _derived_after_use(v):
    """The object had produced an array (directly, or through _at /
    _as_control_input, which read it) before it was changed or copied."""
    c = v['case']
    return c.get('f') == 'derive' and bool(c.get('pre'))


PREDICATES = {'shape_name_is': _shape_name_is,
              'step_without_release_level': _step_defaults,
              'scalar_zero_times': _scalar_zero_times,
              'derived_after_use': _derived_after_use}
