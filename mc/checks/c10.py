"""C10 - real-time and non-real-time modes run the same program identically;
seeded runs are deterministic; random streams are per routine.

E1: every program of a bounded grammar is executed once under NrtMain (NRT
worker pool) and once under RtMain on virtual threads/time (RT-virtual pool,
default schedule; thorough: also every single lateness/preemption deviation
for programs without AppClock); the two traces must agree per routine and
per bundle.  Determinism: the NRT result of every program is recomputed in
pools with other PYTHONHASHSEED values and compared; the random values a
seeded routine logs must not change when the other routine's draws are
removed."""

from mc import core
from mc.engines import progenum
from mc.oracles import osc10
from mc.checks import c05, c07

MODE = 'nrt'
MODNAME = 'mc.checks.c10'


def REPLAY_MODE(v):
    return 'nrt'


# ---------------------------------------------------------------------------
# Program grammar
# ---------------------------------------------------------------------------

def full_alphabet(cA, cB):
    A = [[['yield', 0.25]], [['yield', 0.5]], [['yield', 1.0]],
         [['log']],
         [['send', 0.25, 'TAG']], [['send', None, 'TAG']],
         [['sendb', 0.25, 0.5, 'TAG']], [['sendb', 0, 0.25, 'TAG']],
         # the very same bundle twice at one logical time (B body 8 sends it
         # as well): every copy is a bundle of its own in both modes
         [['send', 0.25, 90], ['send', 0.25, 90]],
         [['play', 'B', cB, 0]],
         [['pause', 'B']], [['resume', 'B']], [['stop', 'B']],
         [['wait', 'c0']],
         [['set', 'c0', True], ['signal', 'c0']],
         [['rand', 'rrand']], [['rand', 'choice']], [['rand', 'rand']],
         [['seed', 3]]]
    if 't2' in (cA, cB):
        A.append([['tempo', 't2', 4.0]])
    if cA == 't2':
        # the routine re-bases the clock it is running on
        # (only backwards: moving beats forward puts pending tasks into the
        # logical past, below time zero in NRT, which has no meaning there)
        A.append([['beats', 't2', 0.0]])
    if cA != cB:
        # routines on different clocks run on different threads in RT: the
        # order of their actions at one logical instant is not defined, so
        # programs in which A acts on B (or on B's clock) are generated only
        # for routines sharing a clock
        A = [it for it in A if it[0][0] not in (
            'play', 'pause', 'resume', 'stop', 'wait', 'set', 'tempo')
             or (it[0][0] == 'beats' and cB != 't2')]
    return A


B_BODIES = [
    [],
    [['yield', 0.25], ['log']],
    [['yield', 0.5], ['send', 0, 'TAG']],
    [['rand', 'rrand'], ['yield', 0.25], ['rand', 'rrand']],
    [['wait', 'c0'], ['log']],
    [['yield', 0.25], ['set', 'c0', True], ['signal', 'c0']],
    [['yield', 0.25], ['yield', 0.25], ['log']],
    [['log'], ['yield', 0.5], ['yield', 0.5], ['rand', 'choice']],
    [['send', 0.25, 90], ['yield', 0.5], ['send', 0, 90]],
]

CLOCK_PAIRS = [('s', 's'), ('s', 't2'), ('t2', 'a'), ('a', 's'),
               ('t2', 't2')]


def build_prog(cA, cB, items, bbody, b_by_main):
    tag = [20]

    def fix(st):
        st = list(st)
        if 'TAG' in st:
            tag[0] += 1
            st[st.index('TAG')] = tag[0]
        return st
    a = [['seed', 7]]
    for it in items:
        a += [fix(st) for st in it]
    b = [['seed', 9]] + [fix(st) for st in bbody]
    main = [['play', 'A', cA, 0]]
    if b_by_main:
        main.append(['play', 'B', cB, 0])
    clocks = {'s': ['system']}
    for c in (cA, cB):
        clocks[c] = c05.CLOCKSPEC[c]
    return {'clocks': clocks, 'routines': {'A': a, 'B': b}, 'funcs': {},
            'conds': ['c0'], 'actors': {'main': main}, 'horizon': 8.0}


def programs(tier, seed):
    """Yield (index, program).  Quick: A of <=2 statements exhaustively, plus
    a seed-selected 1/8 slice of the 3-statement bodies; thorough: all."""
    idx = 0
    for cA, cB in CLOCK_PAIRS:
        alpha = full_alphabet(cA, cB)
        bodies = [[]] + [[a] for a in alpha] + \
            [[a, b] for a in alpha for b in alpha]
        three = [[a, b, c] for a in alpha for b in alpha for c in alpha]
        for bi, bbody in enumerate(B_BODIES):
            if cA != cB and bi in (4, 5):
                continue
            for b_by_main in (True, False):
                if cA != cB and not b_by_main:
                    continue
                for items in bodies:
                    yield idx, build_prog(cA, cB, items, bbody, b_by_main)
                    idx += 1
                if bi in (1, 3, 4) and b_by_main:
                    for k, items in enumerate(three):
                        if tier == 'quick' and k % 8 != seed % 8:
                            continue
                        yield idx, build_prog(cA, cB, items, bbody,
                                              b_by_main)
                        idx += 1
    for p in two_clock_programs() + spawn_programs():
        yield idx, p
        idx += 1


def spawn_programs():
    """A seeded routine A creates a child C inside its body (the child
    inherits A's generator object); the child gives itself its own seed and
    draws k values; A draws before and after.  A's values must be those of
    A alone (the independence pass removes the spawn)."""
    out = []
    for c in ('s', 't2', 'a'):
        for k in (0, 1, 3):
            for child_seed in (3, 7):
                clocks = {'s': ['system']}
                clocks[c] = c05.CLOCKSPEC[c]
                out.append({
                    'clocks': clocks,
                    'routines': {
                        'A': [['seed', 7], ['rand', 'rrand'],
                              ['spawn', 'C', c], ['yield', 0.25],
                              ['rand', 'rrand'], ['rand', 'choice'],
                              ['yield', 0.25], ['rand', 'rand']],
                        'B': [['seed', 9]]},
                    'spawned': {'C': [['seed', child_seed]] +
                                [['rand', 'rrand']] * k +
                                [['yield', 0.125], ['rand', 'rrand']]},
                    'funcs': {}, 'conds': ['c0'], 'spawn': True,
                    'actors': {'main': [['play', 'A', c, 0]]},
                    'horizon': 8.0})
    return out


def two_clock_programs():
    """A routine left pending on one clock and scheduled again on another
    clock (resume(clock) / stop-reset-play(clock) / one function scheduled on
    two clocks).  RT keeps one queue per clock, so the task stays pending on
    both; delays are chosen so that no two wake-ups of different clocks fall
    on the same instant (their order would be undefined in RT)."""
    out = []
    for other, spec in (('t2', ['tempo', 2.0]), ('a', ['app'])):
        for d in (0.125, 0.375):
            for how in ('resume', 'replay'):
                if how == 'resume':
                    act = [['pause', 'B'], ['resume', 'B', other, 0]]
                else:
                    act = [['stop', 'B'], ['reset', 'B'],
                           ['play', 'B', other, 0]]
                out.append({
                    'clocks': {'s': ['system'], other: spec},
                    'routines': {
                        'A': [['seed', 7], ['yield', d]] + act +
                             [['yield', 1.0], ['log']],
                        'B': [['seed', 9], ['yield', 0.5], ['log'],
                              ['send', 0.25, 31], ['yield', 0.5], ['log'],
                              ['rand', 'rrand'], ['yield', 0.5], ['log']]},
                    'funcs': {}, 'conds': ['c0'], 'twoclock': True,
                    'actors': {'main': [['play', 'A', 's', 0],
                                        ['play', 'B', 's', 0]]},
                    'horizon': 8.0})
    return out


# ---------------------------------------------------------------------------
# Canonical observation of one run (mode independent)
# ---------------------------------------------------------------------------

def observe(prog, res, mode):
    """-> dict(per={routine: [event, ...]}, sends={tag: time}, status)"""
    per = {}
    sendlog = {}
    for e in res['trace']:
        k = e[0]
        if k == 'res':
            per.setdefault(e[1], []).append(['res', e[2], e[4], e[5]])
        elif k == 'log':
            per.setdefault(e[1], []).append(['log', e[3], e[4]])
        elif k == 'rand':
            per.setdefault(e[1], []).append(['rand', e[2]])
        elif k == 'raises':
            per.setdefault(e[1], []).append(['raises', e[2][0], e[3]])
        elif k == 'send':
            per.setdefault(e[1], []).append(['send', e[3]])
            sendlog[e[3]] = e[5]
    sends = {}
    counts = {}

    def key(addr, tag):
        k = str(tag) if addr == '/t' else f'{addr}{tag}'
        counts[k] = counts.get(k, 0) + 1
        return k
    if mode == 'rt':
        for now, hexd in res['sent']:
            pkt = osc10.decode(bytes.fromhex(hexd))
            for tt, addr, args in osc10.flatten(pkt):
                tag = args[0][1]
                if tt is None or tt == 1:
                    t = sendlog.get(tag)
                else:
                    t = (tt - c07.ntp(0.0)) / 2 ** 32
                sends.setdefault(key(addr, tag), []).append(t)
        return {'per': per, 'sends': sends, 'counts': counts,
                'status': res['status']}
    # NRT: what is rendered is the binary score - every message of every
    # (nested) bundle of it, with the time tag of its enclosing bundle
    raw = bytes.fromhex(res['raw'])
    i = 0
    try:
        while i < len(raw):
            n = int.from_bytes(raw[i:i + 4], 'big')
            pkt = osc10.decode(raw[i + 4:i + 4 + n])
            i += 4 + n
            for tt, addr, args in osc10.flatten(pkt):
                if addr in ('/t', '/u'):
                    sends.setdefault(key(addr, args[0][1]), []).append(
                        tt / 2 ** 32)
    except Exception as e:      # an unreadable score is a difference as well
        sends['unreadable-score'] = repr(e)[:100]
    lst = {}
    for b in res['score']:
        if b[1][0] == '/t':
            lst.setdefault(str(b[1][1]), []).append(b[0])
    return {'per': per, 'sends': sends, 'sends_list': lst, 'counts': counts,
            'status': res['status']}


def compare(o_nrt, o_rt):
    dis = []
    if o_rt['status'] != 'ok':
        return [('rt-' + o_rt['status'], 'completes', o_rt['status'], '')]
    for who in sorted(set(o_nrt['per']) | set(o_rt['per'])):
        a = o_nrt['per'].get(who, [])
        b = o_rt['per'].get(who, [])
        if a != b:
            n = 0
            while n < min(len(a), len(b)) and a[n] == b[n]:
                n += 1
            ea = a[n] if n < len(a) else None
            eb = b[n] if n < len(b) else None
            what = (ea or eb)[0]
            kind = f'modes-differ-{what}'
            if ea is None or eb is None:
                kind = 'modes-differ-length-' + \
                    ('nrt-longer' if eb is None else 'rt-longer')
            dis.append((kind, {'nrt': ea}, {'rt': eb},
                        f'{who} event {n}: nrt {a} / rt {b}'))
    if not dis:
        def differ(ta, tb):
            if ta is None or tb is None or len(ta) != len(tb):
                return True
            if any(x is None for x in ta + tb):
                return True
            return any(abs(x - y) > 2.0 ** -31
                       for x, y in zip(sorted(ta), sorted(tb)))
        sl = o_nrt.get('sends_list', {})
        for tag, t in sl.items():
            tr = o_rt['sends'].get(tag)
            if differ(t, tr):
                dis.append(('modes-differ-bundle-time', t, tr,
                            f'tag {tag} (score list)'))
        if o_nrt.get('counts') != o_rt.get('counts'):
            dis.append(('modes-differ-bundle-count', o_nrt.get('counts'),
                        o_rt.get('counts'), 'messages per tag'))
        sa, sb = o_nrt['sends'], o_rt['sends']
        if set(sa) != set(sb):
            dis.append(('modes-differ-bundles-sent', sorted(sa), sorted(sb),
                        ''))
        else:
            for tag in sa:
                if differ(sa[tag], sb[tag]):
                    dis.append(('modes-differ-bundle-time', sa[tag], sb[tag],
                                f'tag {tag}'))
    return dis


# ---------------------------------------------------------------------------
# Workers
# ---------------------------------------------------------------------------

def work_nrt(job):
    """NRT observations (and raw score digest) of a batch of programs."""
    from mc import rtprog
    out = []
    for idx, prog in job['progs']:
        res = rtprog.run_nrt(prog)
        o = observe(prog, res, 'nrt')
        o['raw'] = core.digest(res['raw'])
        out.append((idx, o))
    return {'obs': out}


def work_rt(job):
    from mc import rtprog
    out = []
    for idx, prog in job['progs']:
        _, ch, res = rtprog.run_rt(prog, job.get('prefix', []))
        out.append((idx, observe(prog, res, 'rt'), res['steps']))
    return {'obs': out}


def work_rt_dev(job):
    """Every single deviation (one preemption or one late timer)."""
    from mc import rtprog
    from mc.engines import schedx
    out = []
    for idx, prog in job['progs']:
        runs = []

        def run(prefix, prog=prog):
            return rtprog.run_rt(prog, prefix)

        def on_result(choices, points, res, prog=prog):
            runs.append((list(choices), observe(prog, res, 'rt')))
        schedx.explore(run, job['max_pre'], job['max_late'], on_result)
        out.append((idx, runs))
    return {'obs': out}


def silence_others(prog):
    """Same program with B's random draws removed."""
    p = dict(prog)
    r = dict(p['routines'])
    r['B'] = [st for st in r['B'] if st[0] not in ('rand',)]
    # a child that seeds itself is an "other routine" too: drop it entirely
    r['A'] = [st for st in r['A'] if st[0] != 'spawn']
    p['routines'] = r
    return p


def work_indep(job):
    from mc import rtprog
    acc = progenum.Acc(max_samples=1)
    for idx, prog in job['progs']:
        a = observe(prog, rtprog.run_nrt(prog), 'nrt')
        b = observe(silence_others(prog),
                    rtprog.run_nrt(silence_others(prog)), 'nrt')
        ra = [e for e in a['per'].get('A', []) if e[0] == 'rand']
        rb = [e for e in b['per'].get('A', []) if e[0] == 'rand']
        case = {'prog': prog, 'part': 'independence'}
        # only comparable when A's control flow is the same in both runs
        fa = [e[:2] for e in a['per'].get('A', []) if e[0] != 'rand']
        fb = [e[:2] for e in b['per'].get('A', []) if e[0] != 'rand']
        if fa == fb and ra != rb:
            acc.violation('random-stream-depends-on-other-routine', case,
                          ra, rb,
                          'values logged by A with / without B drawing')
        acc.case(case, bool(ra), ra)
    return acc.result()


def replay(job):
    from mc import rtprog
    case = job['case']
    prog = case['prog']
    if case.get('part') == 'independence':
        a = observe(prog, rtprog.run_nrt(prog), 'nrt')
        b = observe(silence_others(prog),
                    rtprog.run_nrt(silence_others(prog)), 'nrt')
        ra = [e for e in a['per'].get('A', []) if e[0] == 'rand']
        rb = [e for e in b['per'].get('A', []) if e[0] == 'rand']
        return {'violates': ra != rb, 'with': ra, 'without': rb}
    if case.get('part') == 'hashseed':
        # needs processes with different hash seeds: re-run both here
        import subprocess
        import sys
        import json
        outs = []
        for hs in ('0', case.get('hashseed', '1')):
            code = ('import sys, json; sys.path[:0] = [%r, %r];'
                    'import sc3; sc3.init("nrt", verbosity="CRITICAL");'
                    'from mc import rtprog;'
                    'from mc.checks import c10;'
                    'p = json.loads(sys.argv[1]);'
                    'r = rtprog.run_nrt(p);'
                    'print(json.dumps([r["raw"], '
                    'c10.observe(p, r, "nrt")["per"]]))') % (core.REPO,
                                                             core.VERIF)
            env = dict(__import__('os').environ, PYTHONHASHSEED=hs)
            p = subprocess.run([sys.executable, '-W', 'ignore', '-c', code,
                                json.dumps(prog)], capture_output=True,
                               text=True, env=env, timeout=120)
            outs.append(p.stdout.strip().splitlines()[-1]
                        if p.stdout.strip() else p.stderr[-300:])
        return {'violates': outs[0] != outs[1],
                'raw': [o[-200:] for o in outs]}
    # mode difference: NRT here, RT in a sub-process worker of mode rt
    o_nrt = observe(prog, rtprog.run_nrt(prog), 'nrt')
    o_rt = _rt_in_subprocess(prog, case.get('choices', []))
    dis = compare(o_nrt, o_rt)
    want = job['kind'].replace('-under-deviation', '')
    return {'violates': any(d[0] == want for d in dis),
            'disagreements': [[d[0], repr(d[1])[:300], repr(d[2])[:300]]
                              for d in dis],
            'nrt': o_nrt['per'], 'rt': o_rt['per'],
            'nrt_sends': o_nrt['sends'], 'rt_sends': o_rt['sends']}


def _rt_in_subprocess(prog, choices):
    import subprocess
    import sys
    import json
    code = ('import sys, json; sys.path[:0] = [%r, %r];'
            'from mc import seams; seams.init_rt_virtual();'
            'from mc import rtprog; from mc.checks import c10;'
            'p = json.loads(sys.argv[1]);'
            '_, _, r = rtprog.run_rt(p, json.loads(sys.argv[2]));'
            'print(json.dumps(c10.observe(p, r, "rt")))') % (core.REPO,
                                                             core.VERIF)
    env = dict(__import__('os').environ, PYTHONHASHSEED='0')
    p = subprocess.run([sys.executable, '-W', 'ignore', '-c', code,
                        json.dumps(prog), json.dumps(choices)],
                       capture_output=True, text=True, env=env, timeout=300)
    if p.returncode != 0:
        raise core.HarnessError('RT sub-process failed: ' + p.stderr[-1500:])
    return json.loads(p.stdout.strip().splitlines()[-1])


def replay_equal(v, a, b):
    """The property itself is about determinism: when the library draws
    from an unseeded generator two replays legitimately differ in the values
    they observe; it is enough that both replays violate."""
    return bool(a.get('violates')) and bool(b.get('violates'))


def chunked(items, n):
    items = list(items)
    return [items[i:i + n] for i in range(0, len(items), n)]


def main(ctx):
    ctx.rule = (
        'Programs: routine A (seeded) of <=2 statements (quick: plus a 1/8 '
        'slice of the 3-statement bodies chosen by the seed; thorough: all) '
        'over yield/log/send/play/pause/resume/stop/tempo/wait/signal/rand/'
        'seed, an interferer B from 8 bodies, 5 clock pairs over SystemClock,'
        ' TempoClock(2), AppClock, B started by main or by A. Each is run in '
        'NRT and in RT-virtual; per-routine event sequences (resumption '
        'times/beats, logs, random values, exceptions) and bundle times must '
        'be equal. Non-trivial = the program makes both routines run.')
    ctx.assumptions += [
        'RT runs use the default schedule (no deviation); thorough adds every '
        'combination of <=2 late timers for all programs without AppClock '
        '(quick: <=1 late timer on a seed-selected 1/16 of them)',
        'events of different routines at the same logical instant are not '
        'ordered against each other (RT uses one thread per clock)',
        'every routine that draws random numbers seeds itself first']
    progs = list(programs(ctx.tier, ctx.seed))
    byidx = dict(progs)
    batches = chunked(progs, 200)
    # NRT pass (hash seed 0) and RT pass
    nrt = {}
    for res in ctx.map('nrt', MODNAME, 'work_nrt',
                       [{'progs': b} for b in batches]):
        for idx, o in res['obs']:
            nrt[idx] = o
    steps = 0
    for res in ctx.map('rt', MODNAME, 'work_rt',
                       [{'progs': b} for b in batches]):
        for idx, o, st in res['obs']:
            steps += st
            prog = byidx[idx]
            case = {'prog': prog, 'choices': []}
            for kind, exp, obs, detail in compare(nrt[idx], o):
                ctx.violation({'kind': kind, 'case': case, 'expected': exp,
                               'observed': obs, 'detail': detail,
                               'size': len(core.canon(prog))})
            ctx.evaluations += 1
            ctx.states += 1
            ctx.traces += 2
            both = len(o['per']) > 1
            if both:
                ctx.nontrivial += 1
                if len(ctx.samples) < 4:
                    ctx.samples.append(prog)
            ctx.outcomes.add(core.digest(o['per']))
    ctx.transitions += steps
    ctx.bounds['nrt-vs-rt default schedule'] = {'programs': len(progs)}
    # determinism across hash seeds
    for hs in ('1', str(1000 + ctx.seed)):
        pool = ctx.pool('nrt', hashseed=hs)
        args = [(MODNAME, 'work_nrt', {'progs': b}) for b in batches]
        n = 0
        for res in pool.imap_unordered(core._call, args):
            if 'harness_error' in res:
                raise core.HarnessError(res['harness_error'])
            for idx, o in res['obs']:
                n += 1
                if o['raw'] != nrt[idx]['raw'] or o['per'] != nrt[idx]['per']:
                    ctx.violation({
                        'kind': 'nrt-score-depends-on-hash-seed',
                        'case': {'prog': byidx[idx], 'part': 'hashseed',
                                 'hashseed': hs},
                        'expected': nrt[idx]['raw'], 'observed': o['raw'],
                        'detail': f'PYTHONHASHSEED=0 vs {hs}',
                        'size': len(core.canon(byidx[idx]))})
        ctx.bounds[f'nrt determinism hashseed {hs}'] = {'programs': n}
        ctx.evaluations += n
    # random stream independence
    rnd = [(i, p) for i, p in progs if p.get('spawn')] + \
          [(i, p) for i, p in progs
           if len(p['routines']['A']) < 8 and not p.get('spawn') and any(st[0] == 'rand' for st in p['routines']['A'])
           and any(st[0] == 'rand' for st in p['routines']['B'])]
    progenum.run(ctx, MODNAME, 'work_indep',
                 [{'progs': b} for b in chunked(rnd, 200)], mode='nrt',
                 bound='random independence')
    if True:
        noapp = [(i, p) for i, p in progs if 'a' not in p['clocks']
                 and not p.get('twoclock')]
        if ctx.tier == 'thorough':
            sel, ml = noapp, 2
        else:
            sel, ml = noapp[core.pick_slice(ctx.seed, 16)::16], 1
        n = 0
        for res in ctx.map('rt', MODNAME, 'work_rt_dev',
                           [{'progs': b, 'max_pre': 0, 'max_late': ml}
                            for b in chunked(sel, 20)]):
            for idx, runs in res['obs']:
                for choices, o in runs:
                    n += 1
                    case = {'prog': byidx[idx], 'choices': choices}
                    for kind, exp, obs, detail in compare(nrt[idx], o):
                        ctx.violation({
                            'kind': kind + '-under-deviation', 'case': case,
                            'expected': exp, 'observed': obs,
                            'detail': detail,
                            'size': 10 ** 6 + len(core.canon(byidx[idx]))})
        ctx.evaluations += n
        ctx.bounds[f'rt under <={ml} late timers (no preemption: preempting '
                   'the main thread between its set-up calls changes the '
                   'program)'] = {
            'programs': len(sel), 'executions': n}
    ctx.extra['programs'] = len(progs)
