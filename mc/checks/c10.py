"""C10 - real-time and non-real-time modes run the same program identically;
seeded runs are deterministic; random streams are per routine.

E1: every program of a bounded grammar is executed once under NrtMain (NRT
worker pool) and once under RtMain on virtual threads/time (RT-virtual pool,
default schedule; thorough: also every single lateness/preemption deviation
for programs without AppClock); the two traces must agree per routine and
per bundle.  Determinism: the NRT result of every program is recomputed in
pools with other PYTHONHASHSEED values and compared; the random values a
seeded routine logs must not change when the other routine's draws are
removed.

Audit widening: statements the grammar did not have (zero / int / bool
yields, send_msg, negative / zero / None latencies, completion bundles in
blobs, rich message arguments, functions and awakeables scheduled with
sched / sched_abs incl. infinite times, raise, reset, next, unhang, FlowVar,
rand_state, slower tempo, etempo, meter and bar queries, play with inherited
clock / default quant / phase, clear, TempoClock.stop), both routines on
AppClock, every builtin random function, seed values, inherited generators,
main-thread actions before the start; the clock that resumes a routine, the
arguments of every message and (single clock) the order of the packets are
compared as well.  The extra statement kinds live in Run10 below.  Genuine
differences found: known_findings.d/C10.json, fixes/C10-*.patch."""

from mc import core
from mc import rtprog
from mc.engines import progenum
from mc.oracles import osc10
from mc.checks import c05, c07

MODE = 'nrt'
MODNAME = 'mc.checks.c10'


def REPLAY_MODE(v):
    return 'nrt'


# ---------------------------------------------------------------------------
# Statement kinds only this check needs (mc/rtprog.py is shared and is not
# edited): a subclass of the interpreter that is put in place of rtprog.Run
# for the duration of one run.
#   ['rand', kind]            kind in X_RAND: the other builtin random functions
#   ['rstate', 'save'|'restore']   routine.rand_state getter / setter
#   ['etempo', cid, v]        TempoClock.etempo(v)
#   ['tstop', cid]            TempoClock.stop() (the public method)
#   ['sendc', L, l, tag]      send_bundle(L, ['/t', tag, [l, ['/u', tag]]]):
#                             a completion *bundle* carried as a blob argument
#   ['fwait', var]            v = yield from flowvar.value ; logs v
#   ['fset', var, v]          flowvar.value = v
#   ['sendx', L, tag]         send_bundle(L, ['/t', tag, None, True, 1.5, 'x',
#                             [], ['/u', tag], b'ab']): every kind of argument
#   ['sched'|'sched_abs', cid, 'inf', fid]   delta / time float('inf')
#   ['qlog', cid]             logs bar(), beat_in_bar(), next_bar(),
#                             time_to_next_beat(), next_time_on_grid(2, 0.5),
#                             tempo, beat_dur, beats_per_bar (not
#                             elapsed_beats(): physical time in RT)
#   ['bpb', cid, v]           clock.beats_per_bar = v
#   ['playnb', rid, cid]      clock.play_next_bar(routine)
#   ['make', rid]             Routine(body of prog['spawned'][rid]) is created
#                             by the current thread and stored, NOT played
#   ['schedplay', cid, d, rid]  clock.sched(d, f) with a plain function f
#                             that does routine.play(clock, 0)
#   program key 'flowvars': [names]; 'unseeded': [rids] routines whose
#   generator is the main thread's unseeded one (values are not observed)
# ---------------------------------------------------------------------------

X_RAND = {
    'rand_f': lambda bi: bi.rand(1000.0),
    'rand_neg': lambda bi: bi.rand(-1000),
    'rand2': lambda bi: bi.rand2(1000),
    'rand2_f': lambda bi: bi.rand2(1000.0),
    'rand2_neg': lambda bi: bi.rand2(-1000),
    'linrand': lambda bi: bi.linrand(1000),
    'linrand_f': lambda bi: bi.linrand(1000.0),
    'linrand_neg': lambda bi: bi.linrand(-1000),
    'bilinrand': lambda bi: bi.bilinrand(1000),
    'bilinrand_f': lambda bi: bi.bilinrand(1000.0),
    'bilinrand_neg': lambda bi: bi.bilinrand(-1000),
    'sum3rand': lambda bi: bi.sum3rand(1000.0),
    'coin': lambda bi: bi.coin(0.5),
    'rrand_f': lambda bi: bi.rrand(0.0, 1000.0),
    'rrand_desc': lambda bi: bi.rrand(1000, 0),
    'rrand_mixed': lambda bi: bi.rrand(0, 1000.0),
    'exprand': lambda bi: bi.exprand(1.0, 1000.0),
    'xrand': lambda bi: bi.xrand(1000, 3),
    'xrand2': lambda bi: bi.xrand2(1000, 3),
    'xrand2_f': lambda bi: bi.xrand2(1000.0),
    'choices': lambda bi: bi.choices([1, 2, 3, 4, 5, 6, 7, 8], k=3),
    'wchoices': lambda bi: bi.choices([1, 2, 3], [1, 2, 3]),
    'scramble': lambda bi: bi.scramble(list(range(8))),
    'table_rand': lambda bi: bi.table_rand([0.0, 1.0, 4.0, 9.0]),
    'shuffle': None,          # in place, see Run10.do
}
X_OPS = ('rstate', 'etempo', 'tstop', 'sendc', 'fset', 'sendx', 'qlog', 'bpb',
         'playnb', 'make', 'schedplay')


class Run10(rtprog.Run):
    def setup(self):
        self.flowvars = {}
        self.saved_rstate = {}
        super().setup()
        from sc3.base.stream import FlowVar
        for name in self.prog.get('flowvars', []):
            self.flowvars[name] = FlowVar()

    def _body(self, rid, stmts):
        if not any(st[0] == 'fwait' for st in stmts):
            return super()._body(rid, stmts)
        run = self

        # the interpreter's routine body (rtprog.Run._body) plus 'fwait'
        def body(inval):
            clock = inval[1] if isinstance(inval, tuple) else None
            k = 0

            def res():
                nonlocal k
                if clock is not None:
                    run.ev('res', rid, k, run.now(), clock.seconds,
                           clock.beats, run.late(), run.clockname(clock))
                else:
                    from sc3.base.main import main
                    run.ev('res', rid, k, run.now(),
                           main.current_tt._seconds, None, run.late(), None)
                k += 1
            res()
            for st in stmts:
                op = st[0]
                if op == 'yield':
                    back = yield st[1]
                    if isinstance(back, tuple):
                        clock = back[1]
                    res()
                elif op == 'yieldv':
                    yield st[1]
                    res()
                elif op == 'wait':
                    yield from run.conds[st[1]].wait()
                    res()
                elif op == 'fwait':
                    v = yield from run.flowvars[st[1]].value
                    res()
                    run.ev('fval', rid, v if isinstance(
                        v, (int, float, str, type(None))) else repr(v))
                elif op == 'raise':
                    raise ValueError(f'routine {rid}')
                else:
                    run.do(st, rid, clock)
        body.__qualname__ = rid
        return body

    def do(self, st, who, clock=None):
        op = st[0]
        if op in ('sched', 'sched_abs') and st[2] == 'inf':
            st = [op, st[1], float('inf'), st[3]]
        if not (op in X_OPS or (op == 'rand' and st[1] in X_RAND)):
            return super().do(st, who, clock)
        from sc3.base.main import main
        from sc3.base import builtins as bi
        try:
            if op == 'rand':
                if st[1] == 'shuffle':
                    v = list(range(8))
                    bi.shuffle(v)
                else:
                    v = X_RAND[st[1]](bi)
                self.ev('rand', who, v)
            elif op == 'rstate':
                if st[1] == 'save':
                    self.saved_rstate[who] = main.current_tt.rand_state
                else:
                    main.current_tt.rand_state = self.saved_rstate[who]
            elif op == 'etempo':
                self.clocks[st[1]].etempo(st[2])
            elif op == 'tstop':
                self.clocks[st[1]].stop()
            elif op == 'sendc':
                self.ev('send', who, 'completion', st[3], self.now(),
                        main.current_tt._seconds)
                self._addr().send_bundle(
                    st[1], ['/t', st[3], [st[2], ['/u', st[3]]]])
            elif op == 'fset':
                self.flowvars[st[1]].value = st[2]
            elif op == 'sendx':
                self.ev('send', who, 'rich', st[2], self.now(),
                        main.current_tt._seconds)
                self._addr().send_bundle(
                    st[1], ['/t', st[2], None, True, 1.5, 'x', [],
                            ['/u', st[2]], b'ab'])
            elif op == 'qlog':
                c = self.clocks[st[1]]
                self.ev('qlog', who, [
                    c.bar(), c.beat_in_bar(), c.next_bar(),
                    c.time_to_next_beat(), c.next_time_on_grid(2, 0.5),
                    c.tempo, c.beat_dur, c.beats_per_bar])
            elif op == 'bpb':
                self.clocks[st[1]].beats_per_bar = st[2]
            elif op == 'playnb':
                self.clocks[st[2]].play_next_bar(self.routines[st[1]])
            elif op == 'make':
                from sc3.base.stream import Routine
                r = Routine(self._body(st[1], self.prog['spawned'][st[1]]))
                self.routines[st[1]] = r
                self.names[id(r)] = st[1]
            elif op == 'schedplay':
                c = self.clocks[st[1]]
                r = self.routines[st[3]]

                def f():
                    r.play(c, 0)
                self.clocks[st[1]].sched(st[2], f)
        except Exception as e:
            if type(e).__name__ in ('Abort',):
                raise
            self.ev('raises', who, st, type(e).__name__, str(e)[:200])
            if who in self.routines:
                raise


class _Swapped:
    def __enter__(self):
        self.old = rtprog.Run
        rtprog.Run = Run10

    def __exit__(self, *a):
        rtprog.Run = self.old


def run_nrt(prog):
    """rtprog.run_nrt with the extended interpreter; an exception that
    escapes main.process() is an observation, not a harness error."""
    with _Swapped():
        try:
            return rtprog.run_nrt(prog)
        except Exception as e:
            return {'status': 'raises-' + type(e).__name__,
                    'detail': str(e)[:200], 'trace': [], 'score': [],
                    'raw': ''}


def run_rt(prog, prefix):
    with _Swapped():
        return rtprog.run_rt(prog, prefix)


# ---------------------------------------------------------------------------
# Program grammar
# ---------------------------------------------------------------------------

def full_alphabet(cA, cB):
    A = [[['yield', 0.25]], [['yield', 0.5]], [['yield', 1.0]],
         [['log']],
         [['send', 0.25, 'TAG']], [['send', None, 'TAG']],
         [['sendb', 0.25, 0.5, 'TAG']], [['sendb', 0, 0.25, 'TAG']],
         # the very same bundle twice at one logical time (B body 8 sends it
         # as well): every copy is a bundle of its own in both modes
         [['send', 0.25, 90], ['send', 0.25, 90]],
         [['play', 'B', cB, 0]],
         [['pause', 'B']], [['resume', 'B']], [['stop', 'B']],
         [['wait', 'c0']],
         [['set', 'c0', True], ['signal', 'c0']],
         [['rand', 'rrand']], [['rand', 'choice']], [['rand', 'rand']],
         [['seed', 3]]]
    if 't2' in (cA, cB):
        A.append([['tempo', 't2', 4.0]])
    if cA == 't2':
        # the routine re-bases the clock it is running on
        # (only backwards: moving beats forward puts pending tasks into the
        # logical past, below time zero in NRT, which has no meaning there)
        A.append([['beats', 't2', 0.0]])
    if cA != cB:
        # routines on different clocks run on different threads in RT: the
        # order of their actions at one logical instant is not defined, so
        # programs in which A acts on B (or on B's clock) are generated only
        # for routines sharing a clock
        A = [it for it in A if it[0][0] not in (
            'play', 'pause', 'resume', 'stop', 'wait', 'set', 'tempo')
             or (it[0][0] == 'beats' and cB != 't2')]
    return A


B_BODIES = [
    [],
    [['yield', 0.25], ['log']],
    [['yield', 0.5], ['send', 0, 'TAG']],
    [['rand', 'rrand'], ['yield', 0.25], ['rand', 'rrand']],
    [['wait', 'c0'], ['log']],
    [['yield', 0.25], ['set', 'c0', True], ['signal', 'c0']],
    [['yield', 0.25], ['yield', 0.25], ['log']],
    [['log'], ['yield', 0.5], ['yield', 0.5], ['rand', 'choice']],
    [['send', 0.25, 90], ['yield', 0.5], ['send', 0, 90]],
]

B_BODIES += [
    # 9, 10: FlowVar waiter / setter (same-clock pairs only, like 4 and 5)
    [['fwait', 'v0'], ['log']],
    [['yield', 0.25], ['fset', 'v0', 5]],
]

CLOCK_PAIRS = [('s', 's'), ('s', 't2'), ('t2', 'a'), ('a', 's'),
               ('t2', 't2')]
# pairs added by the audit: both routines on AppClock (A acts on B there)
MORE_PAIRS = [('a', 'a')]

X_FUNCS = {
    'f0': {'returns': [0.25, None]},                    # re-schedules once
    'f1': {'returns': [None]},
    'f2': {'returns': [None], 'raises': [0], 'kind': 'awakeable'},
}


def ext_alphabet(cA, cB):
    """Statements added by the audit (every item is used in bodies of <=2
    statements together with the full alphabet)."""
    E = [[['yield', 0]], [['yield', 1]], [['yieldv', True]],
         [['sendm', 'TAG']], [['send', -1, 'TAG']], [['send', 0, 'TAG']],
         [['sendb', None, 0.25, 'TAG']],
         # nested time before the enclosing one: refused in both modes
         [['sendb', 0.5, 0.25, 'TAG']],
         [['sendc', 0.25, 0.5, 'TAG']], [['sendx', 0.25, 'TAG']],
         [['raise']],
         # plain functions / awakeables on the routine's own clock
         [['sched', cA, 0.25, 'f0']], [['sched', cA, 0, 'f2']],
         [['sched', cA, 'inf', 'f1']],         # never
         [['rstate', 'save']], [['rstate', 'restore']]]
    if cA != 'a':
        E += [[['sched_abs', cA, 1.0, 'f1']], [['sched_abs', cA, 'inf', 'f1']]]
    if cA == 't2':
        # slower (pending tasks move later), and the elapsed-time variant
        E += [[['tempo', 't2', 0.5]], [['etempo', 't2', 4.0]],
              # bars: queries, a new meter, start at the next bar line
              [['qlog', 't2']], [['bpb', 't2', 3]]]
    if cA == cB:
        E += [[['play', 'B', None, 0]],          # inherits A's clock
              [['play', 'B', cB, None]],         # default quant
              [['play', 'B', cB, [2, 0.5]]],     # quant and phase
              [['play', 'B', cB, [2, -0.5]]],    # negative phase
              [['reset', 'B']], [['next', 'B']],
              [['unhang', 'c0']], [['signal', 'c0']], [['set', 'c0', True]],
              [['fwait', 'v0']], [['fset', 'v0', 5]],
              [['clear', cA]]]
        if cB == 't2':
            E += [[['playnb', 'B', 't2']]]
    else:
        # starting a routine on another clock is ordered (it cannot run
        # before it is played); only used when main does not start B
        E += [[['play', 'B', cB, 0]]]
        if cA == 't2':
            # A changes the tempo of its own clock while B is pending on a
            # different one (the NRT queue is shared by all clocks)
            E += [[['tempo', 't2', 4.0]]]
    return E


# in the quick tier every 2-statement body that pairs an added statement
# with one of these is run; the other pairs are a seed-selected 1/8 slice
def _is_context(item):
    return item in ([['yield', 0.25]], [['yield', 0.5]], [['log']],
                    [['rand', 'rrand']], [['pause', 'B']],
                    [['play', 'B', 's', 0]], [['play', 'B', 't2', 0]],
                    [['play', 'B', 'a', 0]], [['send', 0.25, 'TAG']])


XB_MAIN = (1, 3, 4, 5, 8, 9, 10)      # B bodies used with added statements
XB_BY_A = (1, 4, 8)


def build_prog(cA, cB, items, bbody, b_by_main, ext=False):
    tag = [20]

    def fix(st):
        st = list(st)
        if 'TAG' in st:
            tag[0] += 1
            st[st.index('TAG')] = tag[0]
        return st
    a = [['seed', 7]]
    for it in items:
        a += [fix(st) for st in it]
    b = [['seed', 9]] + [fix(st) for st in bbody]
    main = [['play', 'A', cA, 0]]
    if b_by_main:
        main.append(['play', 'B', cB, 0])
    clocks = {'s': ['system']}
    for c in (cA, cB):
        clocks[c] = c05.CLOCKSPEC[c]
    p = {'clocks': clocks, 'routines': {'A': a, 'B': b}, 'funcs': {},
         'conds': ['c0'], 'actors': {'main': main}, 'horizon': 8.0}
    if ext:
        p['funcs'] = X_FUNCS
        p['flowvars'] = ['v0']
        p['ext'] = True
    return p


def programs(tier, seed):
    """Yield (index, program).  Quick: A of <=2 statements exhaustively, plus
    a seed-selected 1/8 slice of the 3-statement bodies; thorough: all."""
    idx = 0
    for cA, cB in CLOCK_PAIRS + MORE_PAIRS:
        alpha = full_alphabet(cA, cB)
        bodies = [[]] + [[a] for a in alpha] + \
            [[a, b] for a in alpha for b in alpha]
        three = [[a, b, c] for a in alpha for b in alpha for c in alpha]
        for bi, bbody in enumerate(B_BODIES[:9]):
            if cA != cB and bi in (4, 5):
                continue
            for b_by_main in (True, False):
                if cA != cB and not b_by_main:
                    continue
                for items in bodies:
                    yield idx, build_prog(cA, cB, items, bbody, b_by_main)
                    idx += 1
                if bi in (1, 3, 4) and b_by_main:
                    for k, items in enumerate(three):
                        if tier == 'quick' and k % 8 != seed % 8:
                            continue
                        yield idx, build_prog(cA, cB, items, bbody,
                                              b_by_main)
                        idx += 1
    # bodies of <=2 statements with at least one statement of ext_alphabet
    for cA, cB in CLOCK_PAIRS + MORE_PAIRS:
        alpha = full_alphabet(cA, cB)
        ext = ext_alphabet(cA, cB)
        both = alpha + ext
        bodies = [(True, [x]) for x in ext]
        for x in ext:
            for y in both:
                bodies.append((_is_context(y), [x, y]))
                if y not in ext:
                    bodies.append((_is_context(y), [y, x]))
        for bi, bbody in enumerate(B_BODIES):
            if cA != cB and bi in (4, 5, 9, 10):
                continue
            for b_by_main in (True, False):
                if tier == 'quick' and bi not in (
                        XB_MAIN if b_by_main else XB_BY_A):
                    continue
                k = 0
                for always, items in bodies:
                    if cA != cB and (not b_by_main) != any(
                            st[0] == 'play' for it in items for st in it):
                        # another clock: A plays B iff main did not
                        continue
                    if not always:
                        k += 1
                        if tier == 'quick' and k % 8 != seed % 8:
                            continue
                    yield idx, build_prog(cA, cB, items, bbody, b_by_main,
                                          ext=True)
                    idx += 1
    for p in two_clock_programs() + spawn_programs() + rand_programs() + \
            main_programs() + stop_programs() + multiwait_programs() + \
            moved_programs() + created_programs():
        yield idx, p
        idx += 1


RAND_KINDS = ['rrand', 'choice', 'rand'] + sorted(X_RAND)
SEEDS = [0, -1, 2.5, 'abc', 2 ** 40]


def rand_programs():
    """Every builtin random function, drawn by two seeded routines in turn
    (A's values must be those of A alone), every kind of seed value, the
    rand_state setter, and children that inherit the generator of the routine
    that creates them (no seed of their own)."""
    out = []

    def prog(c, a, b, **kw):
        clocks = {'s': ['system']}
        clocks[c] = c05.CLOCKSPEC[c]
        p = {'clocks': clocks, 'routines': {'A': a, 'B': b}, 'funcs': {},
             'conds': ['c0'], 'randfam': True,
             'actors': {'main': [['play', 'A', c, 0], ['play', 'B', c, 0]]},
             'horizon': 8.0}
        p.update(kw)
        return p
    for i, kind in enumerate(RAND_KINDS):
        other = RAND_KINDS[(i + 5) % len(RAND_KINDS)]
        for c in ('s', 't2', 'a'):
            out.append(prog(
                c,
                [['seed', 7]] + [['rand', kind]] * 4 + [['yield', 0.25]] +
                [['rand', kind]] * 4,
                [['seed', 9]] + [['rand', other]] * 4 + [['rand', kind]] * 2 +
                [['yield', 0.25]] + [['rand', kind]] * 4))
    for sd in SEEDS:
        for sdb in (9, sd):
            out.append(prog(
                's',
                [['seed', sd], ['rand', 'rrand'], ['rand', 'rand_f'],
                 ['yield', 0.25], ['seed', sd], ['rand', 'rrand']],
                [['seed', sdb], ['rand', 'rrand'], ['yield', 0.25],
                 ['rand', 'choice']]))
    # rand_state: save, draw, (B draws), restore, draw again
    for c in ('s', 'a'):
        out.append(prog(
            c,
            [['seed', 7], ['rand', 'rrand'], ['rstate', 'save'],
             ['rand', 'rrand'], ['yield', 0.25], ['rand', 'rrand'],
             ['rstate', 'restore'], ['rand', 'rrand'], ['rand', 'rrand']],
            [['seed', 9], ['rstate', 'save'], ['rand', 'rrand'],
             ['yield', 0.25], ['rstate', 'restore'], ['rand', 'rrand']]))
    # inherited generators: A (seeded) creates C, which never seeds itself
    # and so draws from A's generator; C creates D the same way.  NRT and RT
    # must agree and fresh runs must agree; A's own values are not compared
    # with a run without C (one shared stream: the statement's "inherited
    # seed" case)
    for c in ('s', 't2', 'a'):
        for k in (1, 2):
            for grand in (False, True):
                cbody = [['rand', 'rrand']] * k + \
                    ([['spawn', 'D', c]] if grand else []) + \
                    [['yield', 0.125], ['rand', 'choice']]
                clocks = {'s': ['system']}
                clocks[c] = c05.CLOCKSPEC[c]
                out.append({
                    'clocks': clocks,
                    'routines': {
                        'A': [['seed', 7], ['rand', 'rrand'],
                              ['spawn', 'C', c], ['yield', 0.25],
                              ['rand', 'rrand'], ['yield', 0.25],
                              ['rand', 'rand']],
                        'B': [['seed', 9]]},
                    'spawned': {'C': cbody,
                                'D': [['rand', 'rrand'], ['yield', 0.25],
                                      ['rand', 'rrand']]},
                    'funcs': {}, 'conds': ['c0'], 'inherit': True,
                    'actors': {'main': [['play', 'A', c, 0]]},
                    'horizon': 8.0})
    return out


def multiwait_programs():
    """3, 5 or 8 routines wait on ONE Condition / FlowVar and are released
    by one signal() / unhang() / value assignment.  They started to wait in
    an order that differs from the order in which they were created; once
    released each one logs, draws a random value and sends a bundle for the
    same time tag, so the order in which the library hands them back to the
    clock is visible in the score, in the values drawn from a generator
    they share (children of one seeded routine) and in the run order.  That
    order must be the same in every fresh process and in both modes."""
    out = []
    for c in ('s', 't2', 'a'):
        for n in (3, 5, 8):
            perms = [list(range(n))[::-1],
                     [(3 * i + 1) % n for i in range(n)] if n % 3 else
                     [(2 * i + 1) % n for i in range(n)]]
            for pi, perm in enumerate(perms):
                for how in ('signal', 'unhang', 'flowvar'):
                    for nested in (True, False):
                        names = [f'W{i}' for i in range(n)]
                        bodies = {}
                        for i, w in enumerate(names):
                            wait = ['fwait', 'v0'] if how == 'flowvar' \
                                else ['wait', 'c0']
                            b = [['yield', 0.125 * (perm[i] + 1)], wait,
                                 ['log'], ['rand', 'rrand'],
                                 ['send', 0.25, 50 + i], ['yield', 0.25],
                                 ['rand', 'choice'], ['sendm', 70 + i]]
                            if not nested:
                                b = [['seed', 11]] + b
                            bodies[w] = b
                        release = {
                            'signal': [['set', 'c0', True],
                                       ['signal', 'c0']],
                            'unhang': [['unhang', 'c0']],
                            'flowvar': [['fset', 'v0', 5]]}[how]
                        a = [['seed', 7], ['rand', 'rrand']]
                        if nested:
                            a += [['spawn', w, c] for w in names]
                        a += [['yield', 2.0]] + release + \
                            [['yield', 0.5], ['rand', 'rrand']]
                        clocks = {'s': ['system']}
                        clocks[c] = c05.CLOCKSPEC[c]
                        prog = {
                            'clocks': clocks, 'funcs': {}, 'conds': ['c0'],
                            'flowvars': ['v0'], 'multiwait': True,
                            'horizon': 8.0}
                        if nested:
                            prog['routines'] = {'A': a, 'B': [['seed', 9]]}
                            prog['spawned'] = bodies
                            prog['actors'] = {'main': [['play', 'A', c, 0]]}
                        else:
                            r = dict(bodies)
                            r['A'] = a
                            prog['routines'] = r
                            # played in yet another order
                            prog['actors'] = {'main': [
                                ['play', w, c, 0] for w in names[1::2] +
                                names[0::2]] + [['play', 'A', c, 0]]}
                        out.append(prog)
    return out


def moved_programs():
    """2 or 3 routines of one TempoClock are due at one beat; the first one
    is scheduled AGAIN for that beat while it is pending (pause / resume,
    pause / play, stop / reset / play, clock.sched), which moves it behind
    the others; then, while all are pending, the tempo or the beats of the
    clock change (NRT re-times the pending tasks; RT leaves its queue in
    beats alone).  The routines keep meeting at common beats, where each
    logs, draws from the generator they share (children of one seeded
    routine) and sends a bundle for one time tag: run order, order of the
    equal-time bundles and the draws must be the same in both modes."""
    out = []
    clocks = {'s': ['system'], 't2': ['tempo', 2.0]}

    def body(i):
        return [['yield', 1.0], ['log'], ['rand', 'rrand'],
                ['send', 0.25, 50 + i], ['yield', 1.0], ['log'],
                ['rand', 'rrand'], ['send', 0.25, 60 + i], ['yield', 1.0],
                ['rand', 'choice']]
    routes = [
        [['pause', 'X'], ['resume', 'X']],              # default quant: beat 1
        [['pause', 'X'], ['play', 'X', 't2', 1]],
        [['stop', 'X'], ['reset', 'X'], ['play', 'X', 't2', 1]],
        [['sched', 't2', 0.5, 'X']]]
    changes = [[['tempo', 't2', 4.0]], [['tempo', 't2', 0.5]],
               [['etempo', 't2', 4.0]], [['beats', 't2', 0.25]]]
    for n in (2, 3):
        names = ['X', 'Y', 'Z'][:n]
        for route in routes:
            for change in changes:
                for when in ('same', 'later', 'other'):
                    a = [['seed', 7], ['rand', 'rrand']] + \
                        [['spawn', w, 't2'] for w in names] + \
                        [['yield', 0.5]] + route
                    if when == 'same':
                        a += change
                    elif when == 'later':
                        a += [['yield', 0.25]] + change
                    a += [['yield', 2.0], ['rand', 'rrand']]
                    r = {'A': a, 'B': [['seed', 9]]}
                    main = [['play', 'A', 't2', 0]]
                    if when == 'other':
                        r['K'] = [['seed', 13], ['yield', 0.75]] + change + \
                            [['log']]
                        main = [['play', 'K', 't2', 0]] + main
                    out.append({
                        'clocks': clocks, 'routines': r,
                        'spawned': {w: body(i)
                                    for i, w in enumerate(names)},
                        'funcs': {}, 'conds': ['c0'], 'moved': True,
                        'actors': {'main': main}, 'horizon': 12.0})
        # the main thread does all of it before anything runs
        for route in ([['pause', 'X'], ['resume', 'X', 't2', 0]],
                      [['stop', 'X'], ['reset', 'X'],
                       ['play', 'X', 't2', 0]]):
            for change in changes:
                r = {w: [['seed', 11]] + [['log'], ['send', 0.25, 40 + i]] +
                     body(i) for i, w in enumerate(names)}
                out.append({
                    'clocks': clocks, 'routines': r, 'funcs': {},
                    'conds': ['c0'], 'moved': True,
                    'actors': {'main': [['play', w, 't2', 0]
                                        for w in names] + route + change},
                    'horizon': 12.0})
    return out


def created_programs():
    """The generator a routine inherits is fixed when the routine is
    CREATED, not when it is played.  Forward: C is created inside seeded A
    (after A drew twice; A never draws again), stored, and started by
    somebody else - routine B with another seed (play / next), a plain
    function task on the clock, the main thread: A's draws followed by C's
    must be the first values of A's stream ('ref': A draws them all).
    Reverse: C is created at top level (main thread's unseeded generator)
    and played / nexted by seeded A: A's stream must be what it is when C
    draws nothing."""
    out = []
    cbody = [['rand', 'rrand'], ['rand', 'rrand'], ['yield', 0.125],
             ['rand', 'rrand']]
    for c in ('s', 't2', 'a'):
        clocks = {'s': ['system']}
        clocks[c] = c05.CLOCKSPEC[c]

        def prog(routines, main, seq, ref_a, spawned=None, **kw):
            p = {'clocks': clocks, 'routines': routines, 'funcs': {},
                 'conds': ['c0'], 'created': True, 'seq': seq,
                 'actors': {'main': main}, 'horizon': 8.0}
            if spawned:
                p['spawned'] = spawned
            p.update(kw)
            p['ref'] = {'clocks': clocks, 'funcs': {}, 'conds': ['c0'],
                        'routines': {'A': ref_a, 'B': [['seed', 9]]},
                        'actors': {'main': [['play', 'A', c, 0]]},
                        'horizon': 8.0}
            return p
        head = [['seed', 7], ['rand', 'rrand'], ['rand', 'rrand']]
        ref5 = head + [['rand', 'rrand']] * 3
        both = [['play', 'A', c, 0], ['play', 'B', c, 0]]
        sp = {'C': cbody}
        # forward
        out.append(prog(
            {'A': head + [['make', 'C'], ['yield', 1.0]],
             'B': [['seed', 9], ['rand', 'rrand'], ['yield', 0.25],
                   ['play', 'C', c, 0], ['yield', 0.25],
                   ['rand', 'rrand']]},
            both, ['A', 'C'], ref5, sp))
        out.append(prog(
            {'A': head + [['make', 'C'], ['yield', 1.0]],
             'B': [['seed', 9], ['rand', 'rrand'], ['yield', 0.25],
                   ['next', 'C'], ['rand', 'rrand']]},
            both, ['A', 'C'], ref5, sp))
        out.append(prog(
            {'A': head + [['make', 'C'], ['schedplay', c, 0.25, 'C'],
                          ['yield', 1.0]],
             'B': [['seed', 9]]},
            [['play', 'A', c, 0]], ['A', 'C'], ref5, sp))
        out.append(prog(
            {'A': head + [['make', 'C'], ['yield', 1.0]],
             'B': [['seed', 9]]},
            [['next', 'A'], ['play', 'C', c, 0]], ['A', 'C'], ref5, sp))
        # reverse
        tail = [['yield', 0.5], ['rand', 'rrand'], ['rand', 'rrand']]
        ref4 = head + [['rand', 'rrand']] * 2
        for start in ([['play', 'C', c, 0]], [['next', 'C']]):
            out.append(prog(
                {'A': head + start + tail, 'B': [['seed', 9]],
                 'C': cbody},
                [['play', 'A', c, 0]], ['A'], ref4, unseeded=['C']))
    return out


def stop_programs():
    """A routine stops the TempoClock it (or the other routine) runs on
    with the public TempoClock.stop(); nothing else is due at the instant of
    the call (RT stops from a helper thread)."""
    out = []
    for cA, cB in (('t2', 't2'), ('s', 't2'), ('t2', 's')):
        for d in (0.5, 1.5):
            for after in ([['log']], [['yield', 1.0], ['log']],
                          [['sched', 't2', 0.25, 'f0'], ['yield', 1.0]]):
                clocks = {'s': ['system'], 't2': ['tempo', 2.0]}
                out.append({
                    'clocks': clocks,
                    'routines': {
                        'A': [['seed', 7], ['yield', d], ['tstop', 't2']] +
                             after,
                        'B': [['seed', 9], ['yield', 0.375], ['log'],
                              ['yield', 1.0], ['log'], ['yield', 1.0],
                              ['log']]},
                    'funcs': X_FUNCS, 'conds': ['c0'], 'ext': True,
                    'actors': {'main': [['play', 'A', cA, 0],
                                        ['play', 'B', cB, 0]]},
                    'horizon': 8.0})
    return out


def main_programs():
    """The main thread itself sends bundles / re-bases or re-tempos the clock
    before it starts the routines (NRT: times outside routines are absolute
    from the start of the score; RT: the start is physical time 0)."""
    out = []
    pres = [[['send', 0.25, 40]], [['send', None, 41]], [['sendm', 42]],
            [['sendb', 0.25, 0.5, 43]], [['sendc', 0, 0.25, 44]],
            [['tempo', 't2', 4.0]], [['tempo', 't2', 0.5]],
            [['beats', 't2', 2.0]], [['beats', 't2', -1.0]],
            [['etempo', 't2', 4.0]],
            [['beats', 't2', 2.0], ['tempo', 't2', 4.0]],
            [['sched', 's', 0.25, 'f0']], [['sched', 't2', 0.5, 'f0']],
            [['sched', 'a', 0.25, 'f0']],
            [['sched_abs', 's', 0.5, 'f1']], [['sched_abs', 't2', 1.5, 'f1']]]
    for pre in pres:
        for cA, cB in (('t2', 't2'), ('s', 't2'), ('t2', 'a')):
            for quant in (0, None, [2, 0.5], [2, -0.5]):
                clocks = {'s': ['system'], 't2': ['tempo', 2.0]}
                for c in (cA, cB):
                    clocks[c] = c05.CLOCKSPEC[c]
                if any(st[1] == 'a' for st in pre if st[0] == 'sched'):
                    clocks['a'] = ['app']
                out.append({
                    'clocks': clocks,
                    'routines': {
                        'A': [['seed', 7], ['log'], ['yield', 0.5],
                              ['send', 0.25, 31], ['log'], ['yield', 0.25],
                              ['log']],
                        'B': [['seed', 9], ['yield', 0.25], ['log'],
                              ['sendb', 0, 0.25, 32], ['yield', 1.0],
                              ['log']]},
                    'funcs': X_FUNCS, 'conds': ['c0'], 'ext': True,
                    'actors': {'main': pre + [['play', 'A', cA, quant],
                                              ['play', 'B', cB, quant]]},
                    'horizon': 8.0})
    return out


def spawn_programs():
    """A seeded routine A creates a child C inside its body (the child
    inherits A's generator object); the child gives itself its own seed and
    draws k values; A draws before and after.  A's values must be those of
    A alone (the independence pass removes the spawn)."""
    out = []
    for c in ('s', 't2', 'a'):
        for k in (0, 1, 3):
            for child_seed in (3, 7):
                clocks = {'s': ['system']}
                clocks[c] = c05.CLOCKSPEC[c]
                out.append({
                    'clocks': clocks,
                    'routines': {
                        'A': [['seed', 7], ['rand', 'rrand'],
                              ['spawn', 'C', c], ['yield', 0.25],
                              ['rand', 'rrand'], ['rand', 'choice'],
                              ['yield', 0.25], ['rand', 'rand']],
                        'B': [['seed', 9]]},
                    'spawned': {'C': [['seed', child_seed]] +
                                [['rand', 'rrand']] * k +
                                [['yield', 0.125], ['rand', 'rrand']]},
                    'funcs': {}, 'conds': ['c0'], 'spawn': True,
                    'actors': {'main': [['play', 'A', c, 0]]},
                    'horizon': 8.0})
    return out


def two_clock_programs():
    """A routine left pending on one clock and scheduled again on another
    clock (resume(clock) / stop-reset-play(clock) / one function scheduled on
    two clocks).  RT keeps one queue per clock, so the task stays pending on
    both; delays are chosen so that no two wake-ups of different clocks fall
    on the same instant (their order would be undefined in RT)."""
    out = []
    for other, spec in (('t2', ['tempo', 2.0]), ('a', ['app'])):
        for d in (0.125, 0.375):
            for how in ('resume', 'replay'):
                if how == 'resume':
                    act = [['pause', 'B'], ['resume', 'B', other, 0]]
                else:
                    act = [['stop', 'B'], ['reset', 'B'],
                           ['play', 'B', other, 0]]
                out.append({
                    'clocks': {'s': ['system'], other: spec},
                    'routines': {
                        'A': [['seed', 7], ['yield', d]] + act +
                             [['yield', 1.0], ['log']],
                        'B': [['seed', 9], ['yield', 0.5], ['log'],
                              ['send', 0.25, 31], ['yield', 0.5], ['log'],
                              ['rand', 'rrand'], ['yield', 0.5], ['log']]},
                    'funcs': {}, 'conds': ['c0'], 'twoclock': True,
                    'actors': {'main': [['play', 'A', 's', 0],
                                        ['play', 'B', 's', 0]]},
                    'horizon': 8.0})
    return out


# ---------------------------------------------------------------------------
# Canonical observation of one run (mode independent)
# ---------------------------------------------------------------------------

def _is_packet(val):
    try:
        osc10.decode(val)
        return True
    except osc10.OscError:
        return False


def _with_blobs(msgs):
    """flatten()ed messages plus the messages of every packet carried as a
    blob argument (completion message / bundle): (timetag, address, args,
    inside_blob).  A blob that is not an OSC packet is plain data."""
    out = []
    for tt, addr, args in msgs:
        out.append((tt, addr, args, False))
        for tag, val in args:
            if tag == 'b':
                try:
                    inner = osc10.flatten(osc10.decode(val))
                except osc10.OscError:
                    continue
                out += [(t2, 'blob' + a2, g2, True)
                        for t2, a2, g2, _ in _with_blobs(inner)]
    return out


def observe(prog, res, mode):
    """-> dict(per={routine: [event, ...]}, sends={tag: time}, status)"""
    per = {}
    sendlog = {}
    for e in res['trace']:
        k = e[0]
        if k == 'res':
            # resumption number, logical seconds / beats and the clock that
            # resumed the routine (the clock the routine is handed)
            per.setdefault(e[1], []).append(['res', e[2], e[4], e[5], e[7]])
        elif k == 'wake':
            # call of a scheduled plain function / awakeable
            per.setdefault(e[1], []).append(['wake', e[2], e[4], e[5], e[7]])
        elif k == 'next':
            per.setdefault(e[1], []).append(['next', e[2], e[3]])
        elif k == 'fval':
            per.setdefault(e[1], []).append(['fval', e[2]])
        elif k == 'qlog':
            per.setdefault(e[1], []).append(['qlog', e[2]])
        elif k == 'log':
            per.setdefault(e[1], []).append(['log', e[3], e[4]])
        elif k == 'rand':
            # a routine that holds the main thread's unseeded generator:
            # the draw is observed, its value is not decided
            per.setdefault(e[1], []).append(
                ['rand', None if e[1] in prog.get('unseeded', ()) else e[2]])
        elif k == 'raises':
            per.setdefault(e[1], []).append(['raises', e[2][0], e[3]])
        elif k == 'send':
            per.setdefault(e[1], []).append(['send', e[3]])
            sendlog[e[3]] = e[5]
    sends = {}
    counts = {}
    contents = {}
    # which routine / function ran, in run order
    resorder = [e[1] for e in res['trace'] if e[0] in ('res', 'wake')]

    def key(addr, tag, args):
        k = str(tag) if addr == '/t' else f'{addr}{tag}'
        counts[k] = counts.get(k, 0) + 1
        # the arguments as they are on the wire; a blob that carries an OSC
        # packet is compared through its own messages (its time tags have a
        # different epoch in the two modes)
        contents.setdefault(k, []).append(core.canon([
            [t, 'packet' if t == 'b' and _is_packet(v) else
             (v.hex() if t == 'b' else v)] for t, v in args]))
        contents[k].sort()
        return k
    order = []      # [time of the packet, tag of its first message]
    if mode == 'rt':
        for now, hexd in res['sent']:
            pkt = osc10.decode(bytes.fromhex(hexd))
            first = True
            for tt, addr, args, blob in _with_blobs(osc10.flatten(pkt)):
                tag = args[0][1]
                k = key(addr, tag, args)
                if blob and tt is None:
                    continue        # a message inside a blob has no time
                if tt is None or tt == 1:
                    # no time on the wire: the logical time of the send
                    # (NRT: every message is a bundle at the current time)
                    t = sendlog.get(tag)
                else:
                    t = (tt - c07.ntp(0.0)) / 2 ** 32
                sends.setdefault(k, []).append(t)
                if first:
                    order.append([t, k])
                first = False
        # the score is ordered by time, packets of one time in the order
        # in which they were sent
        if all(t is not None for t, _ in order):
            order.sort(key=lambda x: round(x[0] * 2 ** 20))
        return {'per': per, 'sends': sends, 'counts': counts,
                'contents': contents, 'order': [k for _, k in order],
                'resorder': resorder, 'status': res['status']}
    if res['status'] != 'ok':
        return {'per': per, 'sends': {}, 'sends_list': {}, 'counts': {},
                'contents': {}, 'order': [], 'resorder': resorder,
                'status': res['status']}
    # NRT: what is rendered is the binary score - every message of every
    # (nested) bundle of it, with the time tag of its enclosing bundle
    raw = bytes.fromhex(res['raw'])
    i = 0
    try:
        while i < len(raw):
            n = int.from_bytes(raw[i:i + 4], 'big')
            pkt = osc10.decode(raw[i + 4:i + 4 + n])
            i += 4 + n
            first = True
            for tt, addr, args, blob in _with_blobs(osc10.flatten(pkt)):
                if addr in ('/t', '/u', 'blob/u'):
                    k = key(addr, args[0][1], args)
                    if blob and tt is None:
                        continue
                    sends.setdefault(k, []).append(tt / 2 ** 32)
                    if first:
                        order.append(k)
                    first = False
    except Exception as e:      # an unreadable score is a difference as well
        sends['unreadable-score'] = repr(e)[:100]
    lst = {}
    for b in res['score']:
        if b[1][0] == '/t':
            lst.setdefault(str(b[1][1]), []).append(b[0])
    return {'per': per, 'sends': sends, 'sends_list': lst, 'counts': counts,
            'contents': contents, 'order': order, 'resorder': resorder,
            'status': res['status']}


def one_thread(prog):
    """Every routine and function of the program runs on one clock (one RT
    thread): the order of all its sends is defined."""
    used = set()
    for b in list(prog.get('routines', {}).values()) + \
            list(prog.get('spawned', {}).values()) + \
            list(prog.get('actors', {}).values()):
        for st in b:
            if st[0] in ('play', 'spawn', 'resume') and len(st) > 2:
                used.add(st[2])
            elif st[0] in ('sched', 'sched_abs', 'playnb', 'schedplay'):
                used.add(st[1] if st[0] != 'playnb' else st[2])
    used.discard(None)
    return len(used) == 1


def compare(o_nrt, o_rt, ordered=False):
    dis = []
    if o_rt['status'] != 'ok':
        return [('rt-' + o_rt['status'], 'completes', o_rt['status'], '')]
    if o_nrt['status'] != 'ok':
        return [('nrt-' + o_nrt['status'], 'completes', o_nrt['status'], '')]
    for who in sorted(set(o_nrt['per']) | set(o_rt['per'])):
        a = o_nrt['per'].get(who, [])
        b = o_rt['per'].get(who, [])
        if a != b:
            n = 0
            while n < min(len(a), len(b)) and a[n] == b[n]:
                n += 1
            ea = a[n] if n < len(a) else None
            eb = b[n] if n < len(b) else None
            what = (ea or eb)[0]
            kind = f'modes-differ-{what}'
            if ea is None or eb is None:
                kind = 'modes-differ-length-' + \
                    ('nrt-longer' if eb is None else 'rt-longer')
            dis.append((kind, {'nrt': ea}, {'rt': eb},
                        f'{who} event {n}: nrt {a} / rt {b}'))
    if ordered and not dis and 'resorder' in o_nrt and \
            o_nrt.get('resorder') != o_rt.get('resorder'):
        dis.append(('modes-differ-run-order', o_nrt.get('resorder'),
                    o_rt.get('resorder'),
                    'routines / functions in the order in which they ran '
                    '(all on one clock)'))
    if not dis:
        def differ(ta, tb):
            if ta is None or tb is None or len(ta) != len(tb):
                return True
            if any(x is None for x in ta + tb):
                return True
            return any(abs(x - y) > 2.0 ** -31
                       for x, y in zip(sorted(ta), sorted(tb)))
        sl = o_nrt.get('sends_list', {})
        for tag, t in sl.items():
            tr = o_rt['sends'].get(tag)
            if differ(t, tr):
                dis.append(('modes-differ-bundle-time', t, tr,
                            f'tag {tag} (score list)'))
        if o_nrt.get('counts') != o_rt.get('counts'):
            dis.append(('modes-differ-bundle-count', o_nrt.get('counts'),
                        o_rt.get('counts'), 'messages per tag'))
        if o_nrt.get('contents') != o_rt.get('contents'):
            ca, cb = o_nrt.get('contents', {}), o_rt.get('contents', {})
            bad = sorted(k for k in set(ca) | set(cb)
                         if ca.get(k) != cb.get(k))
            dis.append(('modes-differ-bundle-content',
                        {k: ca.get(k) for k in bad[:3]},
                        {k: cb.get(k) for k in bad[:3]},
                        'arguments of the messages per tag'))
        if ordered and not dis and o_nrt.get('order') != o_rt.get('order'):
            dis.append(('modes-differ-bundle-order', o_nrt.get('order'),
                        o_rt.get('order'),
                        'packets in score order / in wire order sorted by '
                        'time (first tag of each packet)'))
        sa, sb = o_nrt['sends'], o_rt['sends']
        if set(sa) != set(sb):
            dis.append(('modes-differ-bundles-sent', sorted(sa), sorted(sb),
                        ''))
        else:
            for tag in sa:
                if differ(sa[tag], sb[tag]):
                    dis.append(('modes-differ-bundle-time', sa[tag], sb[tag],
                                f'tag {tag}'))
    return dis


# ---------------------------------------------------------------------------
# Workers
# ---------------------------------------------------------------------------

def work_nrt(job):
    """NRT observations (and raw score digest) of a batch of programs."""
    out = []
    for idx, prog in job['progs']:
        res = run_nrt(prog)
        o = observe(prog, res, 'nrt')
        o['raw'] = core.digest(res['raw'])
        out.append((idx, o))
    return {'obs': out}


def work_rt(job):
    out = []
    for idx, prog in job['progs']:
        _, ch, res = run_rt(prog, job.get('prefix', []))
        out.append((idx, observe(prog, res, 'rt'), res['steps']))
    return {'obs': out}


def work_rt_dev(job):
    """Every single deviation (one preemption or one late timer)."""
    from mc.engines import schedx
    out = []
    for idx, prog in job['progs']:
        runs = []

        def run(prefix, prog=prog):
            return run_rt(prog, prefix)

        def on_result(choices, points, res, prog=prog):
            runs.append((list(choices), observe(prog, res, 'rt')))
        schedx.explore(run, job['max_pre'], job['max_late'], on_result)
        out.append((idx, runs))
    return {'obs': out}


def silence_others(prog):
    """Same program with B's random draws removed."""
    p = dict(prog)
    r = dict(p['routines'])
    r['B'] = [st for st in r['B'] if st[0] not in ('rand',)]
    # a child that seeds itself is an "other routine" too: drop it entirely
    r['A'] = [st for st in r['A'] if st[0] != 'spawn']
    p['routines'] = r
    return p


def work_indep(job):
    acc = progenum.Acc(max_samples=1)
    for idx, prog in job['progs']:
        a = observe(prog, run_nrt(prog), 'nrt')
        b = observe(silence_others(prog),
                    run_nrt(silence_others(prog)), 'nrt')
        ra = [e for e in a['per'].get('A', []) if e[0] == 'rand']
        rb = [e for e in b['per'].get('A', []) if e[0] == 'rand']
        case = {'prog': prog, 'part': 'independence'}
        # only comparable when A's control flow is the same in both runs
        fa = [e[:2] for e in a['per'].get('A', []) if e[0] != 'rand']
        fb = [e[:2] for e in b['per'].get('A', []) if e[0] != 'rand']
        if fa == fb and ra != rb:
            acc.violation('random-stream-depends-on-other-routine', case,
                          ra, rb,
                          'values logged by A with / without B drawing')
        acc.case(case, bool(ra), ra)
    return acc.result()


def check_created(prog):
    a = observe(prog, run_nrt(prog), 'nrt')
    b = observe(prog['ref'], run_nrt(prog['ref']), 'nrt')
    got = [e[1] for w in prog['seq'] for e in a['per'].get(w, [])
           if e[0] == 'rand']
    want = [e[1] for e in b['per'].get('A', []) if e[0] == 'rand']
    if got != want[:max(len(got), 1)] or not got:
        return [('child-generator-not-the-one-inherited-at-creation',
                 want, got,
                 'values drawn by ' + '+'.join(prog['seq']) + ' / by a '
                 'routine A that draws them all itself')], got
    return [], got


def work_created(job):
    acc = progenum.Acc(max_samples=1)
    for idx, prog in job['progs']:
        case = {'prog': prog, 'part': 'created'}
        dis, got = check_created(prog)
        for kind, exp, obs, detail in dis:
            acc.violation(kind, case, exp, obs, detail)
        acc.case(case, bool(got), got)
    return acc.result()


def replay(job):
    case = job['case']
    prog = case['prog']
    if case.get('part') == 'created':
        dis, got = check_created(prog)
        return {'violates': bool(dis), 'drawn': got,
                'expected': dis[0][1] if dis else None}
    if case.get('part') == 'independence':
        a = observe(prog, run_nrt(prog), 'nrt')
        b = observe(silence_others(prog),
                    run_nrt(silence_others(prog)), 'nrt')
        ra = [e for e in a['per'].get('A', []) if e[0] == 'rand']
        rb = [e for e in b['per'].get('A', []) if e[0] == 'rand']
        return {'violates': ra != rb, 'with': ra, 'without': rb}
    if case.get('part') == 'hashseed':
        # needs processes with different hash seeds: re-run both here
        import subprocess
        import sys
        import json
        outs = []
        for hs in ('0', case.get('hashseed', '1')) * 6:
            if len(outs) >= 2 and len(outs) % 2 == 0 and \
                    outs[-1] != outs[-2]:
                break
            code = ('import sys, json; sys.path[:0] = [%r, %r];'
                    'import sc3; sc3.init("nrt", verbosity="CRITICAL");'
                    'from mc.checks import c10;'
                    'p = json.loads(sys.argv[1]);'
                    'r = c10.run_nrt(p);'
                    'o = c10.observe(p, r, "nrt");'
                    'print(json.dumps([r["raw"], o["per"], '
                    'o["resorder"]]))') % (core.REPO,
                                                             core.VERIF)
            env = dict(__import__('os').environ, PYTHONHASHSEED=hs)
            p = subprocess.run([sys.executable, '-W', 'ignore', '-c', code,
                                json.dumps(prog)], capture_output=True,
                               text=True, env=env, timeout=120)
            outs.append(p.stdout.strip().splitlines()[-1]
                        if p.stdout.strip() else p.stderr[-300:])
        return {'violates': outs[-1] != outs[-2],
                'raw': [o[-200:] for o in outs[-2:]]}
    # mode difference: NRT here, RT in a sub-process worker of mode rt.
    # A difference caused by an unseeded generator may by chance not show
    # in one pair of runs (a coin has two values): any differing pair of
    # runs is a witness, so a few pairs are tried.
    want = base_kind(job['kind'])
    for attempt in range(6):
        o_nrt = observe(prog, run_nrt(prog), 'nrt')
        o_rt = _rt_in_subprocess(prog, case.get('choices', []))
        dis = compare(o_nrt, o_rt, one_thread(prog))
        if any(d[0] == want for d in dis):
            break
    return {'violates': any(d[0] == want for d in dis),
            'disagreements': [[d[0], repr(d[1])[:300], repr(d[2])[:300]]
                              for d in dis],
            'nrt': o_nrt['per'], 'rt': o_rt['per'],
            'nrt_sends': o_nrt['sends'], 'rt_sends': o_rt['sends']}


def _rt_in_subprocess(prog, choices):
    import subprocess
    import sys
    import json
    code = ('import sys, json; sys.path[:0] = [%r, %r];'
            'from mc import seams; seams.init_rt_virtual();'
            'from mc.checks import c10;'
            'p = json.loads(sys.argv[1]);'
            '_, _, r = c10.run_rt(p, json.loads(sys.argv[2]));'
            'print(json.dumps(c10.observe(p, r, "rt")))') % (core.REPO,
                                                             core.VERIF)
    env = dict(__import__('os').environ, PYTHONHASHSEED='0')
    p = subprocess.run([sys.executable, '-W', 'ignore', '-c', code,
                        json.dumps(prog), json.dumps(choices)],
                       capture_output=True, text=True, env=env, timeout=300)
    if p.returncode != 0:
        raise core.HarnessError('RT sub-process failed: ' + p.stderr[-1500:])
    return json.loads(p.stdout.strip().splitlines()[-1])


def replay_equal(v, a, b):
    """The property itself is about determinism: when the library draws
    from an unseeded generator two replays legitimately differ in the values
    they observe; it is enough that both replays violate."""
    return bool(a.get('violates')) and bool(b.get('violates'))


def chunked(items, n):
    items = list(items)
    return [items[i:i + n] for i in range(0, len(items), n)]


def _nrt_differs(a, b):
    return a['raw'] != b['raw'] or a['per'] != b['per'] or \
        a.get('resorder') != b.get('resorder')


def has_stmt(prog, *ops):
    bodies = list(prog.get('routines', {}).values()) + \
        list(prog.get('spawned', {}).values()) + \
        list(prog.get('actors', {}).values())
    return any(st[0] in ops for b in bodies for st in b)


def family(prog):
    """Suffix of the violation kind for programs that use a part of the API
    with a recorded finding of its own, so that such a finding never hides
    (or is hidden by) a difference of ordinary programs."""
    if has_stmt(prog, 'clear'):
        return '@clear'
    if has_stmt(prog, 'tstop'):
        return '@tstop'
    if app_resched(prog):
        return '@app-resched'
    return ''


def app_resched(prog):
    """Both routines on AppClock and A pauses / resets B and later resumes /
    plays it again (B is scheduled once more while it may be pending)."""
    plays = [st for b in list(prog['routines'].values()) +
             list(prog['actors'].values()) for st in b if st[0] == 'play']
    if not plays or any(len(st) < 3 or st[2] not in ('a', None)
                        for st in plays):
        return False
    a = prog['routines'].get('A', [])
    for i, st in enumerate(a):
        if st[0] in ('pause', 'reset') and st[1] == 'B' and any(
                t[0] in ('resume', 'play') and t[1] == 'B'
                for t in a[i + 1:]):
            return True
    return False


def _pred_b_waits(v):
    b = v['case']['prog']['routines'].get('B', [])
    return len(b) > 1 and b[1][0] in ('wait', 'fwait')


PREDICATES = {
    'has_clear': lambda v: has_stmt(v['case']['prog'], 'clear'),
    'has_tstop': lambda v: has_stmt(v['case']['prog'], 'tstop'),
    'app_resched_waiter': lambda v: app_resched(v['case']['prog']) and
    _pred_b_waits(v),
}


def base_kind(kind):
    return kind.split('@')[0].replace('-under-deviation', '')


def n_routines(o):
    return len([w for w in o['per'] if w not in X_FUNCS])


def main(ctx):
    ctx.rule = (
        'Programs: routine A (seeded) of <=2 statements (quick: plus a 1/8 '
        'slice of the 3-statement bodies chosen by the seed; thorough: all) '
        'over yield/log/send/play/pause/resume/stop/tempo/wait/signal/rand/'
        'seed, an interferer B from 9 bodies, 6 clock pairs over SystemClock,'
        ' TempoClock(2), AppClock, B started by main or by A; plus every '
        'body of <=2 statements that contains one of the added statements '
        '(zero/int/bool yields, send_msg, negative/zero/None latencies, '
        'refused nested bundle, completion bundle in a blob, raise, '
        'sched/sched_abs of functions and awakeables, rand_state, slower '
        'tempo, etempo, play with inherited clock / default quant / quant '
        'and phase, reset, next, unhang, bare signal/set, FlowVar, clear) '
        '(quick: all with one of 9 context statements, 1/8 slice of the '
        'others, 7+3 of the 11 B bodies); plus families: every builtin '
        'random function x 3 clocks, seed values, rand_state, inherited '
        'generators, main-thread actions before the start x quants, a task '
        'pending on two clocks. Each is run in '
        'NRT and in RT-virtual; per-routine event sequences (resumption '
        'times/beats/clock, logs, random values, exceptions, function '
        'calls, clock queries), the time and the arguments of every message '
        '(also inside blobs) per tag, the number of copies and, when all '
        'tasks share one clock, the order of the packets must '
        'be equal. Non-trivial = the program makes two routines run.')
    ctx.assumptions += [
        'RT runs use the default schedule (no deviation); thorough adds every '
        'combination of <=2 late timers for the programs of the original '
        'grammar without AppClock and <=1 for the added ones '
        '(quick: <=1 late timer on a seed-selected 1/16 of them)',
        'events of different routines at the same logical instant are not '
        'ordered against each other (RT uses one thread per clock)',
        'every routine that draws random numbers seeds itself first or is '
        'created inside a seeded routine']
    progs = list(programs(ctx.tier, ctx.seed))
    byidx = dict(progs)
    fam = {i: family(p) for i, p in progs}
    batches = chunked(progs, 200)
    # NRT pass (hash seed 0) and RT pass
    nrt = {}
    for res in ctx.map('nrt', MODNAME, 'work_nrt',
                       [{'progs': b} for b in batches]):
        for idx, o in res['obs']:
            nrt[idx] = o
    steps = 0
    for res in ctx.map('rt', MODNAME, 'work_rt',
                       [{'progs': b} for b in batches]):
        for idx, o, st in res['obs']:
            steps += st
            prog = byidx[idx]
            case = {'prog': prog, 'choices': []}
            for kind, exp, obs, detail in compare(nrt[idx], o, one_thread(byidx[idx])):
                ctx.violation({'kind': kind + fam[idx], 'case': case,
                               'expected': exp,
                               'observed': obs, 'detail': detail,
                               'size': len(core.canon(prog))})
            ctx.evaluations += 1
            ctx.states += 1
            ctx.traces += 2
            both = n_routines(o) > 1
            if both:
                ctx.nontrivial += 1
                if len(ctx.samples) < 4:
                    ctx.samples.append(prog)
            ctx.outcomes.add(core.digest(o['per']))
    ctx.transitions += steps
    ctx.bounds['nrt-vs-rt default schedule'] = {
        'programs': len(progs),
        'with added statements': len([1 for _, p in progs if p.get('ext')]),
        'random / seed / inheritance families': len(
            [1 for _, p in progs if p.get('randfam') or p.get('inherit')])}
    # determinism across hash seeds
    for hs in ('1', str(1000 + ctx.seed)):
        pool = ctx.pool('nrt', hashseed=hs)
        args = [(MODNAME, 'work_nrt', {'progs': b}) for b in batches]
        n = 0
        for res in pool.imap_unordered(core._call, args):
            if 'harness_error' in res:
                raise core.HarnessError(res['harness_error'])
            for idx, o in res['obs']:
                n += 1
                if _nrt_differs(o, nrt[idx]):
                    ctx.violation({
                        'kind': 'nrt-score-depends-on-hash-seed' + fam[idx],
                        'case': {'prog': byidx[idx], 'part': 'hashseed',
                                 'hashseed': hs},
                        'expected': nrt[idx]['raw'], 'observed': o['raw'],
                        'detail': f'PYTHONHASHSEED=0 vs {hs}',
                        'size': len(core.canon(byidx[idx]))})
        ctx.bounds[f'nrt determinism hashseed {hs}'] = {'programs': n}
        ctx.evaluations += n
    # the same in fresh processes with ONE hash seed (object addresses, and
    # with them the hashes of objects hashed by identity, differ from process
    # to process): every job of this pool runs in a process of its own
    fresh = [(i, p) for i, p in progs if p.get('multiwait')
             or p.get('inherit') or p.get('twoclock')]
    n = 0
    for rnd_no in range(3):
        for res in ctx.map('nrt', MODNAME, 'work_nrt',
                           [{'progs': b, 'round': rnd_no}
                            for b in chunked(fresh, 24)], maxtasks=1):
            for idx, o in res['obs']:
                n += 1
                if _nrt_differs(o, nrt[idx]):
                    ctx.violation({
                        'kind': 'nrt-score-differs-between-fresh-processes'
                        + fam[idx],
                        'case': {'prog': byidx[idx], 'part': 'hashseed',
                                 'hashseed': '0'},
                        'expected': nrt[idx]['raw'], 'observed': o['raw'],
                        'detail': 'two processes, both PYTHONHASHSEED=0',
                        'size': len(core.canon(byidx[idx]))})
    ctx.bounds['nrt determinism, 3 more fresh processes per program '
               '(one hash seed)'] = {'programs': len(fresh), 'runs': n}
    ctx.evaluations += n
    # random stream independence
    rnd = [(i, p) for i, p in progs if p.get('spawn') or p.get('randfam')] + \
          [(i, p) for i, p in progs
           if len(p['routines'].get('A', ())) < 8 and not p.get('spawn')
           and not p.get('randfam') and not p.get('inherit')
           and not p.get('multiwait') and not p.get('moved')
           and not p.get('created')
           and any(st[0] == 'rand' for st in p['routines'].get('A', ()))
           and any(st[0] == 'rand' for st in p['routines'].get('B', ()))]
    progenum.run(ctx, MODNAME, 'work_created',
                 [{'progs': b} for b in chunked(
                     [(i, p) for i, p in progs if p.get('created')], 6)],
                 mode='nrt', bound='generator inherited at creation')
    progenum.run(ctx, MODNAME, 'work_indep',
                 [{'progs': b} for b in chunked(rnd, 200)], mode='nrt',
                 bound='random independence')
    # RT under late timers.  Not for AppClock (documented drift), tasks
    # pending on two clocks, etempo (defined at the *physical* time of
    # the call, so lateness legitimately changes the result) and
    # TempoClock.stop() (RT stops the clock from a helper thread: what is
    # still awakened around the call depends on the schedule).
    noapp = [(i, p) for i, p in progs if 'a' not in p['clocks']
             and not p.get('twoclock')
             and not has_stmt(p, 'etempo', 'tstop')]
    old = [(i, p) for i, p in noapp if not p.get('ext')]
    new = [(i, p) for i, p in noapp if p.get('ext')]
    if ctx.tier == 'thorough':
        plan = [(old, 2), (new, 1)]
    else:
        k = core.pick_slice(ctx.seed, 16)
        plan = [(old[k::16] + new[k::16], 1)]
    for sel, ml in plan:
        n = 0
        for res in ctx.map('rt', MODNAME, 'work_rt_dev',
                           [{'progs': b, 'max_pre': 0, 'max_late': ml}
                            for b in chunked(sel, 20)]):
            for idx, runs in res['obs']:
                for choices, o in runs:
                    n += 1
                    case = {'prog': byidx[idx], 'choices': choices}
                    for kind, exp, obs, detail in compare(nrt[idx], o, one_thread(byidx[idx])):
                        ctx.violation({
                            'kind': kind + '-under-deviation' + fam[idx],
                            'case': case,
                            'expected': exp, 'observed': obs,
                            'detail': detail,
                            'size': 10 ** 6 + len(core.canon(byidx[idx]))})
        ctx.evaluations += n
        lab = (f'rt under <={ml} late timers (no preemption: preempting '
               'the main thread between its set-up calls changes the '
               'program)')
        cur = ctx.bounds.setdefault(lab, {'programs': 0, 'executions': 0})
        cur['programs'] += len(sel)
        cur['executions'] += n
    ctx.extra['programs'] = len(progs)
