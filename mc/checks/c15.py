"""C15 - operators lift uniformly over functions, streams, patterns, lists,
channel lists and operands; numeric range / inverse laws.

E1 (progenum), mode 'nrt'.  Two exhaustive parts:

* lifting: every operator found by introspection (operator methods of
  AbstractObject, scbuiltin-decorated functions of sc3.base.builtins) x entry
  point (Python operator protocol, method call, builtin function, list
  algebra of sc3.base.utils) x operand-kind signature x all value tuples of a
  small int/float alphabet.  Oracle (mc/oracles/lift_ref.py): evaluating the
  composed object equals the library's own numeric operator applied to the
  evaluated plain numbers.
* numeric laws: wrap/fold/clip/round/roundup/trunc/mod and the four
  conversion pairs over a dyadic grid, against the mathematical statements
  (mc/oracles/numlaws.py), independent of the library.
"""

import re
import math
import inspect
import operator
import itertools

from mc import core
from mc.engines import progenum
from mc.oracles import lift_ref as lr
from mc.oracles import numlaws as nl

MODE = 'nrt'
MODNAME = 'mc.checks.c15'
NSHARDS = 128
CALL_BUDGET = 200000      # Python-level calls per case (non-termination guard)

# ---------------------------------------------------------------------------
# alphabets and bounds per tier
# ---------------------------------------------------------------------------

# law arguments many ranges away from the bounds (still dyadic: exact)
FAR_F = [-1000.5, -37.25, 37.25, 1000.5]
FAR_I = [-1000, -37, 37, 1000]

TIERS = {
    'quick': dict(
        A=[-3, -0.5, 0, 1, 2, 2.0, 2.5],
        # alphabets of the arguments of n-ary operators, by argument count
        ARGS={1: [-3, -0.5, 0, 1, 2, 2.5], 2: [-3, -0.5, 0, 1, 2, 2.5],
              3: [-0.5, 0, 2], 4: [0, 2.5], 5: [0, 2.5], 6: [0, 2.5]},
        NAR_X=[0, 3],                  # rotations of the first operand (n-ary)
        LEN1=[3],                      # lengths when one operand is a sequence
        LEN2=[(3, 2), (2, 3)],         # lengths of two sequence operands
        # further length pairs (equal lengths, whole multiples, length 1),
        # enumerated over the start positions LEN2X_START of the alphabet
        LEN2X=[(3, 1), (1, 3), (4, 2), (2, 2), (3, 3)],
        LEN2X_START=[0, 4],
        LEN1X=[1, 2],                  # same, one sequence operand
        LENN=[(3, 2), (2, 3)],         # n-ary: (first operand, arguments)
        OPTVALS=['min', 'max', None],  # values of a string option (clip=)
        CROSS=False,                   # stream x pattern pairs
        FULLMASK=False,                # every {num, X, composed X} mask
        # kernels driven through the op-agnostic list algebra of utils.py
        UTL_BIN=['mod', 'min', 'round'], UTL_NAR=['clip', 'wrap', 'blend',
                                                  'linlin'],
        XF=[k * 0.25 for k in range(-24, 25)] + FAR_F,
        XI=list(range(-6, 7)) + FAR_I,
        BOUNDS=[-2, -1, 0, 0.5, 1, 2, 3],
        QUANTA=[-2, -1, 0, 0.5, 1, 1.5, 2, 3],
        label='alphabet 7 values, sequence lengths <= 4, law grid 70 x 7 x 7'),
    'thorough': dict(
        A=[-3, -0.5, 0, 0.25, 1, 1.0, 2, 2.5, 4],
        ARGS={1: [-3, -1, -0.5, 0, 0.25, 1, 2, 2.5, 4],
              2: [-3, -0.5, 0, 0.25, 1, 2, 2.5],
              3: [-0.5, 0, 1, 2.5], 4: [-0.5, 1, 2.5],
              5: [0, 2.5], 6: [0, 2.5]},
        NAR_X=[1, 5],
        LEN1=[1, 2, 3, 4],
        LEN2=[(3, 2), (2, 3), (1, 3), (3, 1)],
        LEN2X=[(4, 2), (2, 4), (2, 2), (3, 3), (5, 2), (1, 1)],
        LEN2X_START=[0, 3, 6],
        LEN1X=[5],
        LENN=[(3, 2), (2, 3), (2, 2)],
        OPTVALS=['min', 'max', None, 'minmax'],
        CROSS=True,
        FULLMASK=True,
        UTL_BIN=None, UTL_NAR=None,    # all of them
        XF=[k * 0.125 for k in range(-64, 65)] + FAR_F,
        XI=list(range(-8, 9)) + FAR_I,
        BOUNDS=[-2, -1.5, -1, 0, 0.5, 1, 1.5, 2, 2.0, 2.5, 3],
        QUANTA=[-2, -1, -0.5, 0, 0.25, 0.5, 1, 1.0, 1.5, 2, 2.5, 3],
        label='quick space + alphabet 9 values, sequence lengths <= 5, '
              'law grid 154 x 11 x 12'),
}

FUNC = ['func', 'cfunc']
# a plain Python function (no operator methods of its own): only ever the
# right operand / an argument of a Function, or the left operand of the
# reflected forms
LAM = 'lam'
STRM = ['rout', 'crout']
# the stream of a pattern (a Stream that is not a Routine): only ever the
# left / first operand of the mixed stream x pattern, stream x channel-list
# groups
PSTRM = 'pstrm'
STRMS = STRM + [PSTRM]
PAT = ['pat', 'cpat']
CL = ['clist', 'nclist', 'pclist']
# 'xlist': ragged and deeper nesting at once ([[a, [b]], [c]])
PL = ['list', 'tuple', 'nlist', 'ntuple', 'xlist']
# the library's other AbstractSequence: a tuple with operator methods
AP = ['aparam']
OPD = ['opd', 'rest']
LIFTED = FUNC + STRM + PAT + CL + OPD + AP
SCALAR = ['num'] + OPD
FAMILY = {}
for _f in (FUNC, STRM, PAT, CL, OPD, AP):
    for _k in _f:
        FAMILY[_k] = _f
FAMILY[PSTRM] = STRM
POISON = 4099.5     # yielded by a stream operand that got the wrong inval
COMPOSED = {'func': 'cfunc', 'rout': 'crout', 'pat': 'cpat'}

ALIAS = {'bitnot': 'invert', 'bitand': 'and_', 'bitor': 'or_',
         'bitxor': 'xor'}
PROTOCOL = {'__round__': round, '__trunc__': math.trunc,
            '__ceil__': math.ceil, '__floor__': math.floor}
NOT_OPERATORS = {'__hash__'}
COMPARISONS = {'__lt__', '__le__', '__gt__', '__ge__', '__eq__', '__ne__'}


# ---------------------------------------------------------------------------
# worker-side environment: sc3 objects and introspected operator tables
# ---------------------------------------------------------------------------

_ENV = None


class _Env:
    pass


def env():
    global _ENV
    if _ENV is not None:
        return _ENV
    E = _Env()
    from sc3.base import builtins as bi
    from sc3.base import absobject as aob
    from sc3.base import utils as utl
    from sc3.base import functions as fn
    from sc3.base import stream as stm
    from sc3.base import operand as opd
    from sc3.base.main import main
    from sc3.seq import pattern as ptt
    from sc3.seq import event as evt
    from sc3.synth.ugen import ChannelList
    E.bi, E.aob, E.utl, E.fn, E.stm, E.opd, E.main = \
        bi, aob, utl, fn, stm, opd, main
    E.Operand, E.Rest, E.ChannelList = opd.Operand, evt.Rest, ChannelList
    E.arrayed_param = evt.arrayed_param
    # True while the evaluation pass hands k to the k-th `next` as its input
    # value: stream operands then yield POISON unless they receive it.
    E.inval_mode = False

    import random

    class CountingRandom(random.Random):
        '''The library's main random generator, counting draws: a kernel
        that consumes random numbers has no deterministic value.'''
        draws = 0

        def random(self):
            CountingRandom.draws += 1
            return super().random()

        def getrandbits(self, k):
            CountingRandom.draws += 1
            return super().getrandbits(k)

    E.Rng = CountingRandom
    main._m_rgen = CountingRandom(1)

    @ptt.pattern
    def pvals(vals):
        # the stream of a pattern gets its first value with `next`; every
        # later input value arrives as the result of `yield`.
        got = None
        for k, v in enumerate(vals):
            ok = k == 0 or not E.inval_mode or got == k
            got = yield (v if ok else POISON)
    E.pvals = pvals

    # --- scbuiltin-decorated functions --------------------------------
    E.builtins = {}       # name -> (arity, wrapper, signature of the kernel)
    for name, f in vars(bi).items():
        q = getattr(f, '__qualname__', '')
        ar = None
        if q.startswith('scbuiltin.unop.'):
            ar = 'un'
        elif q.startswith('scbuiltin.binop.'):
            ar = 'bin'
        elif q.startswith('scbuiltin.narop.'):
            ar = 'nar'
        if ar is None:
            continue
        raw = [c.cell_contents for c in (f.__closure__ or ())
               if inspect.isfunction(c.cell_contents)]
        sig = inspect.signature(raw[0]) if raw else inspect.signature(f)
        E.builtins[name] = (ar, f, sig)
    E.sig_of = {v[1]: v[2] for v in E.builtins.values()}

    # --- operator methods of AbstractObject ---------------------------
    E.methods = {}        # name -> (arity, signature without self)
    E.unresolved = []
    for name, f in vars(aob.AbstractObject).items():
        if not inspect.isfunction(f) or name in NOT_OPERATORS:
            continue
        if name.startswith('_') and not (name.startswith('__') and
                                         name.endswith('__')):
            continue      # _compose_* hooks
        params = list(inspect.signature(f).parameters.values())[1:]
        ar = 'un' if not params else ('bin' if len(params) == 1 else 'nar')
        E.methods[name] = (ar, params)
    _ENV = E
    return E


def _is_dunder(name):
    return name.startswith('__') and name.endswith('__')


def _is_reflected(E, name):
    return _is_dunder(name) and name.startswith('__r') and \
        ('__' + name[3:]) in E.methods


def _py_function(name):
    """The Python-level function whose protocol reaches dunder `name`."""
    if name in PROTOCOL:
        return PROTOCOL[name]
    return getattr(operator, name, None)


def kernels(E, entry, op):
    """Acceptable numeric kernels (callables on plain numbers) for an
    operator reached through `entry`.  More than one = the statement does not
    decide which of the library's numeric operators is meant (e.g. `%` is
    Python's or sclang's modulo): any of them is accepted."""
    out = []
    if entry == 'bi':
        out.append(E.builtins[op][1])
    elif entry == 'utl':
        mod, name = op.split('.', 1)
        out.append(E.builtins[name][1] if mod == 'bi'
                   else getattr(operator, name))
    elif entry == 'py':
        base = op
        if _is_reflected(E, op):
            base = '__' + op[3:]
        f = _py_function(base)
        if f is not None:
            out.append(f)
        plain = base.strip('_')
        if plain in E.builtins:
            out.append(E.builtins[plain][1])
    elif entry == 'meth':
        if op in E.builtins:
            out.append(E.builtins[op][1])
        for cand in (op, op + '_', ALIAS.get(op)):
            if cand and hasattr(operator, cand) and \
                    getattr(operator, cand) not in out:
                out.append(getattr(operator, cand))
    return out


# ---------------------------------------------------------------------------
# operand construction and denotation
# ---------------------------------------------------------------------------

def nest(vals, inner=list):
    vals = list(vals)
    if len(vals) >= 3:
        return [inner(vals[:2])] + vals[2:]
    if len(vals) == 2:
        return [vals[0], inner(vals[1:])]
    return [inner(vals)]


def xnest(vals):
    """Ragged and three levels deep."""
    vals = list(vals)
    if len(vals) >= 3:
        return [[vals[0], [vals[1]]], [vals[2]]] + vals[3:]
    if len(vals) == 2:
        return [[vals[0]], [[vals[1]]]]
    return [[[vals[0]]]]


def build(E, kind, vals):
    if kind == 'num':
        return vals[0]
    if kind == 'opd':
        return E.Operand(vals[0])
    if kind == 'rest':
        return E.Rest(vals[0])
    if kind == 'func':
        tv = tuple(vals)
        return E.fn.Function(lambda k: tv[k % len(tv)])
    if kind == 'cfunc':
        return +build(E, 'func', vals)
    if kind == LAM:
        tv = tuple(vals)
        return lambda k: tv[k % len(tv)]
    if kind == 'rout':
        tv = tuple(vals)

        def gen(inval):
            for k, v in enumerate(tv):
                ok = not E.inval_mode or inval == k
                inval = yield (v if ok else POISON)
        return E.stm.Routine(gen)
    if kind == 'crout':
        return +build(E, 'rout', vals)
    if kind == PSTRM:
        return E.stm.stream(E.pvals(list(vals)))
    if kind == 'pat':
        return E.pvals(list(vals))
    if kind == 'cpat':
        return +E.pvals(list(vals))
    if kind == 'clist':
        return E.ChannelList(list(vals))
    if kind == 'nclist':      # nested channel list (as built by dup, +, ...)
        return E.ChannelList(nest(vals, E.ChannelList))
    if kind == 'pclist':      # channel list holding a plain inner list
        return E.ChannelList(nest(vals))
    if kind == 'list':
        return list(vals)
    if kind == 'tuple':
        return tuple(vals)
    if kind == 'nlist':
        return nest(vals)
    if kind == 'ntuple':
        return nest(vals, tuple)
    if kind == 'xlist':
        return xnest(vals)
    if kind == 'aparam':
        return E.arrayed_param(vals)
    raise core.HarnessError(f'unknown operand kind {kind}')


def denote(kind, vals):
    if kind in SCALAR:
        return ('const', vals[0])
    if kind in FUNC or kind in STRMS or kind in PAT or kind == LAM:
        return ('seq', list(vals))
    if kind in ('clist', 'list', 'tuple', 'aparam'):
        return ('list', list(vals))
    if kind in ('nclist', 'pclist', 'nlist', 'ntuple'):
        return ('list', nest(vals))
    if kind == 'xlist':
        return ('list', xnest(vals))
    raise core.HarnessError(f'unknown operand kind {kind}')


def result_family(kinds):
    if any(k in FUNC or k == LAM for k in kinds):
        return 'func'
    if any(k in STRMS or k in PAT for k in kinds):
        return 'strm'
    if any(k in CL or k in PL or k in AP for k in kinds):
        return 'list'
    if any(k in OPD for k in kinds):
        return 'opd'
    return 'num'


def tolist(x):
    if isinstance(x, (list, tuple)):
        return [tolist(i) for i in x]
    return x


def plain(E, x):
    """Observed value for comparison: (channel) lists become plain lists; an
    abstract object left *unevaluated* where a number is due (a lazy
    function / stream / pattern / operand whose `==` would itself build a
    truthy lazy object) becomes a marker string, which equals no number."""
    if isinstance(x, (list, tuple)):
        return [plain(E, i) for i in x]
    if isinstance(x, E.aob.AbstractObject):
        return f'<unevaluated {type(x).__name__}>'
    return x


class CallBudgetExceeded(BaseException):
    pass


class _CallBudget:
    """Counts Python-level call events only (cheap): every loop of the
    library that could spin for ever calls a function per iteration."""

    def __init__(self, limit):
        self.limit = limit
        self.n = 0

    def _trace(self, frame, event, arg):
        self.n += 1
        if self.n > self.limit:
            raise CallBudgetExceeded(self.limit)
        return None

    def __enter__(self):
        import sys
        self._old = sys.gettrace()
        sys.settrace(self._trace)
        return self

    def __exit__(self, *exc):
        import sys
        sys.settrace(self._old)
        return False


# ---------------------------------------------------------------------------
# lifting: one case
# ---------------------------------------------------------------------------

def _seed(E, n=20250925):
    E.main._m_rgen.seed(n)


def _invoke(E, case, objs):
    entry, op = case['e'], case['op']
    if 'o' in case:
        # string option (clip=...), positional after the numeric arguments
        objs = list(objs) + [case['o']]
    if entry == 'bi':
        return E.builtins[op][1](*objs)
    if entry == 'meth':
        return getattr(objs[0], op)(*objs[1:])
    if entry == 'py':
        base = '__' + op[3:] if _is_reflected(E, op) else op
        return _py_function(base)(*objs)
    if entry == 'utl':
        kern = kernels(E, 'utl', op)[0]
        if len(objs) == 1:
            return E.utl.list_unop(kern, objs[0])
        if len(objs) == 2:
            return E.utl.list_binop(kern, objs[0], objs[1])
        return E.utl.list_narop(kern, *objs)
    raise core.HarnessError(f'unknown entry {entry}')


_SIGCACHE = {}
_KERNCACHE = {}


def _defaults_tail(E, case, objs):
    """Values the public signature supplies for omitted trailing arguments of
    a method call (the kernel must receive them)."""
    if case['e'] == 'meth' or (case['e'] == 'py' and case['op'] in PROTOCOL):
        key = (type(objs[0]), case['op'])
        params = _SIGCACHE.get(key)
        if params is None:
            f = getattr(type(objs[0]), case['op'])
            params = list(inspect.signature(f).parameters.values())[1:]
            _SIGCACHE[key] = params
    else:
        return []
    tail = []
    for p in params[len(objs) - 1 + ('o' in case):]:
        if p.default is inspect.Parameter.empty:
            raise core.HarnessError(f'missing required argument in {case}')
        tail.append(p.default)
    return tail


def _own_defaults(E, kern, ngiven):
    """True when the numeric operator itself declares defaults for all the
    parameters after the first `ngiven`: an omitted argument of the lifted
    form then means the numeric operator's own default."""
    sig = E.sig_of.get(kern)
    if sig is None:
        return False
    rest = list(sig.parameters.values())[ngiven:]
    return all(p.default is not inspect.Parameter.empty for p in rest)


def _run_stream(E, res, limit):
    """k-th value = `next` with input value k (the operands built by this
    check yield POISON when the composed stream does not hand it on)."""
    out = []
    E.inval_mode = True
    try:
        try:
            st = E.stm.stream(res)
        except Exception as e:
            return [('raise', type(e).__name__)]
        for k in range(limit):
            try:
                out.append(('ok', plain(E, st.next(k))))
            except E.stm.StopStream:
                out.append(('stop',))
                break
            except Exception as e:
                out.append(('raise', type(e).__name__))
                break
    finally:
        E.inval_mode = False
    return out


def _run_embed(E, res, limit):
    out = []
    E.inval_mode = True
    try:
        try:
            g = E.stm.embed(res, 0)
        except Exception as e:
            return [('raise', type(e).__name__)]
        for k in range(limit):
            try:
                out.append(('ok', plain(E, next(g) if k == 0
                                        else g.send(k))))
            except StopIteration:
                out.append(('stop',))
                break
            except Exception as e:
                out.append(('raise', type(e).__name__))
                break
    finally:
        E.inval_mode = False
    return out


def _run_iter(E, res, limit):
    """Python's iterator protocol: iter(pattern), next(stream); no input
    values."""
    out = []
    try:
        it = iter(res)
    except Exception as e:
        return [('raise', type(e).__name__)]
    for _ in range(limit):
        try:
            out.append(('ok', plain(E, next(it))))
        except StopIteration:
            out.append(('stop',))
            break
        except Exception as e:
            out.append(('raise', type(e).__name__))
            break
    return out


def _call_shapes(kinds):
    """Evaluation passes of a composed function: (suffix, call shape)."""
    out = [('', 'pos'), ('-reeval', 'pos'), ('-kwcall', 'kw')]
    if LAM not in kinds:
        # a Function ignores spare positional arguments (a plain Python
        # function does not)
        out.append(('-sparearg', 'spare'))
    return out


def _call_point(res, k, shape):
    try:
        if shape == 'kw':
            return ('ok', plain(env(), res(k=k)))
        if shape == 'spare':
            return ('ok', plain(env(), res(k, 'spare')))
        return ('ok', plain(env(), res(k)))
    except Exception as e:
        return ('raise', type(e).__name__)


def observe(E, case, objs):
    """Compose once through the library, then evaluate the *same* composed
    object: -> [(kind suffix, outcomes)], one entry per evaluation pass.

    Functions and patterns are re-evaluable (a function is called again at
    the same points; every stream of a pattern starts from the beginning), so
    they are evaluated repeatedly and every pass must give the kernel result:
    state kept in the composed object between evaluations is a violation.
    A composed *stream* is consumed by its evaluation: one pass.

    Functions are called positionally (twice), with a keyword argument and
    with a spare positional argument; streams get k as the input value of
    their k-th `next` / `send` (operands yield POISON when it does not reach
    them); a composed pattern is also run through `iter` / `next`."""
    fam = result_family(case['k'])
    npoints = 3
    ev = case.get('ev')
    if fam == 'func':
        # a call shape is only used when every function operand accepts it
        # on its own (what a Function does with keyword or spare arguments is
        # not part of the lifting law): (f op g)(*a) = f(*a) op g(*a).
        shapes = [(s, sh) for s, sh in _call_shapes(case['k'])
                  if sh == 'pos' or all(
                      _call_point(o, 0, sh)[0] == 'ok'
                      for o in objs if callable(o))]
        sufs = [s for s, sh in shapes]
    elif fam == 'strm' and ev == 'multi':
        sufs = ['', '-reeval', '-embed', '-embed-reeval']
        # Python's iterator protocol, when every pattern operand supports it
        # on its own
        if all(_run_iter(E, o, 1)[0][0] != 'raise' for o in objs
               if isinstance(o, E.aob.AbstractObject)):
            sufs.append('-iter')
    elif fam == 'strm' and ev == 'embed':
        sufs = ['-embed']
    else:
        sufs = ['']
    try:
        res = _invoke(E, case, objs)
    except Exception as e:
        o = ('raise', type(e).__name__)
        return [(s, [o] * (npoints if fam == 'func' else 1)) for s in sufs]
    if fam == 'func':
        if not callable(res):
            o = ('ok', 'not-callable:' + type(res).__name__)
            return [(s, [o] * npoints) for s in sufs]
        return [(s, [_call_point(res, k, sh) for k in range(npoints)])
                for s, sh in shapes]
    if fam == 'strm':
        limit = max(len(v) for v in case['v']) + 2
        passes = []
        for s in sufs:
            _seed(E)
            run = _run_iter if s == '-iter' else (
                _run_embed if 'embed' in s else _run_stream)
            passes.append((s, run(E, res, limit)))
        return passes
    if fam == 'list':
        if not isinstance(res, (list, tuple)):
            return [('', [('ok', 'not-a-list:' + type(res).__name__)])]
        return [('', [('ok', plain(E, res))])]
    if fam == 'opd':
        if isinstance(res, E.Operand):
            res = res.value
        return [('', [('ok', plain(E, res))])]
    return [('', [('ok', plain(E, res))])]


def _zipped_lists(kern, dens):
    """Stream law with a (channel) list among the operands: as a stream the
    list is the same value at every `next`, so the k-th value is the
    element-wise result of the k-th numbers with the whole list."""
    lens = [len(d[1]) for d in dens if d[0] == 'seq']
    out = []
    for k in range(min(lens)):
        o = lr.elementwise(kern, [d[1][k] if d[0] == 'seq' else d[1]
                                  for d in dens])
        out.append(o)
        if o[0] == 'raise':
            return out
    out.append(('stop',))
    return out


def expected(E, case, kern):
    fam = result_family(case['k'])
    dens = [denote(k, v) for k, v in zip(case['k'], case['v'])]
    if fam == 'func':
        return lr.pointwise(kern, dens, 3)
    if fam == 'strm':
        if any(d[0] == 'list' for d in dens):
            return _zipped_lists(kern, dens)
        return lr.zipped(kern, dens)
    if fam == 'list':
        return [lr.elementwise(kern, [d[1] for d in dens])]
    return [lr.apply(kern, [d[1] for d in dens])]


def _kind_family(k):
    if k in FUNC or k == LAM:
        return 'func'
    if k in STRMS:
        return 'strm'
    if k in PAT:
        return 'pat'
    if k == 'pclist':
        return 'pclist'
    if k in CL or k in PL or k in AP:
        return 'list'
    if k in OPD:
        return 'opd'
    return k


def lift_kind(case):
    """Disagreement class.  Unary / binary operators: entry + kind signature
    (Operand and Rest are one class).  N-ary operators: family of the first
    operand + the set of non-number argument kinds (argument positions, entry
    and operator are in the case)."""
    ks = ['opd' if k == 'rest' else k for k in case['k']]
    if case['a'] != 'nar':
        k = f"lift-{case['a']}-{case['e']}-{'+'.join(ks)}"
    else:
        args = sorted(set(ks[1:]) - {'num'})
        fam = _kind_family(ks[0])
        if fam == 'pclist':
            fam = f"{case['e']}-pclist"
        k = f"lift-nar-{fam}-args[{','.join(args) or 'num'}]"
        if 'o' in case:
            k += '-option'
    return k


_ADDRESS = re.compile(r' at 0x[0-9a-fA-F]+')


def _jsonable(x):
    if isinstance(x, (list, tuple)):
        return [_jsonable(i) for i in x]
    if x is None or isinstance(x, (bool, int, str)):
        return x
    if isinstance(x, float) and math.isfinite(x):
        return x
    return _ADDRESS.sub('', repr(x))      # no memory addresses in results


def check_lift(case):
    """-> (disagreements, nontrivial, outcome)"""
    E = env()
    kerns = _KERNCACHE.get((case['e'], case['op']))
    if kerns is None:
        kerns = _KERNCACHE[(case['e'], case['op'])] = \
            kernels(E, case['e'], case['op'])
    if not kerns:
        raise core.HarnessError(f'no numeric kernel known for {case}')
    with _CallBudget(CALL_BUDGET):
        objs = [build(E, k, v) for k, v in zip(case['k'], case['v'])]
        tail = _defaults_tail(E, case, objs)
        _seed(E)
        try:
            passes = observe(E, case, objs)
        except CallBudgetExceeded:
            passes = [('', [('raise', 'CallBudgetExceeded')])]
        exps = []
        draws0 = E.Rng.draws
        for i, kern in enumerate(kerns):
            if 'o' in case:
                kern = (lambda *a, _k=kern, _o=case['o']: _k(*a, _o))
            elif tail and not (case['e'] == 'py' and kern is
                               _py_function(case['op'])) and \
                    not _own_defaults(E, kern, len(objs)):
                # omitted trailing arguments: the numeric operator's own
                # defaults where it declares them (the lifted form must mean
                # the same), else the defaults of the public signature
                # (Python's own protocol function keeps its own).
                kern = (lambda *a, _k=kern: _k(*a, *tail))
            _seed(E)
            exps.append(expected(E, case, kern))
        rnd = E.Rng.draws != draws0
    # every pass must equal the result of one acceptable kernel; report the
    # first failing pass of the kernel that gets furthest.
    best = None
    for e in exps:
        fail = next((i for i, (suf, o) in enumerate(passes)
                     if not lr.outcomes_match(e, o, not rnd)), None)
        if fail is None:
            best = None
            break
        if best is None or fail > best[0]:
            best = (fail, e)
    dis = []
    if best is not None:
        suf, o = passes[best[0]]
        dis.append((lift_kind(case) + suf, _jsonable(best[1]), _jsonable(o),
                    f"evaluation pass {best[0] + 1} of {len(passes)} on the "
                    f"same composed object; {len(kerns)} acceptable "
                    f"kernel(s); random={rnd}"))
    obs = [o for suf, o in passes]
    vs = case['v']
    mixed = False
    for k in range(max(len(v) for v in vs)):
        types = {type(v[k % len(v)]) for v in vs}
        if int in types and float in types:
            mixed = True
            break
    seqlens = {len(v) for k, v in zip(case['k'], vs) if k not in SCALAR}
    raises = any(o[0] == 'raise' for o in exps[0])
    nontrivial = mixed or len(seqlens) > 1 or raises
    if rnd:
        outcome = [case['op'], [[o[0] for o in p] for p in obs]]
    else:
        outcome = _jsonable(obs)
    return dis, nontrivial, outcome


# ---------------------------------------------------------------------------
# numeric laws: one case
# ---------------------------------------------------------------------------

INVERSES = [('midicps', 'cpsmidi'), ('midiratio', 'ratiomidi'),
            ('octcps', 'cpsoct'), ('dbamp', 'ampdb')]
POSITIVE_EXTRA = [27.5, 55, 110.0, 220, 440.0, 880, 1760.0]


def _lawkind(law, symptom, *a):
    """Disagreement class of a law case.  An int x with a float bound or
    quantum is the one mixed combination with its own code path; it forms one
    class across the operators that share that path."""
    if type(a[0]) is int and any(type(v) is float for v in a[1:]) and \
            '-range' not in law:
        return f'law-{symptom}-int-x-float-parameter'
    return f"law-{law}-{symptom}-{'int' if type(a[0]) is int else 'float'}"


def _invkind(f, g):
    return 'law-inverse-' + '-'.join(sorted([f, g]))


def _mixed(*a):
    return len({type(v) for v in a}) > 1


def check_law(case):
    E = env()
    bi = E.bi
    law = case['law']
    dis = []

    def call(f, *a):
        try:
            return ('ok', f(*a))
        except Exception as e:
            return ('raise', type(e).__name__)

    if law in ('wrap', 'fold'):
        x, lo, hi = case['x'], case['lo'], case['hi']
        decided = lo < hi if law == 'wrap' else lo <= hi
        # 'rng': the optional precomputed range arguments, consistent with
        # the bounds (1: range = hi - lo; 2: also range2 = 2 * range)
        rng = case.get('rng', 0)
        extra = [hi - lo, 2 * (hi - lo)][:rng]
        name = law + ('-range' * rng)
        o = call(getattr(bi, law), x, lo, hi, *extra)
        if decided:
            if o[0] == 'raise':
                dis.append((_lawkind(name, 'raises', x, lo, hi),
                            'a number inside the bounds', o[1], ''))
            else:
                f = nl.wrap_law if law == 'wrap' else nl.fold_law
                why = f(x, lo, hi, o[1])
                if why:
                    dis.append((_lawkind(name, 'outside-bounds', x, lo, hi),
                                'inside the bounds', _jsonable(o[1]), why))
        nontrivial = decided and (x in (lo, hi) or _mixed(x, lo, hi))
        return dis, nontrivial, [name, _jsonable(o)]
    if law in ('wrap2', 'fold2'):
        # bounds -b, b
        x, b = case['x'], case['b']
        decided = b > 0
        o = call(getattr(bi, law), x, b)
        if decided:
            if o[0] == 'raise':
                dis.append((_lawkind(law, 'raises', x, b),
                            'a number inside the bounds', o[1], ''))
            else:
                f = nl.wrap_law if law == 'wrap2' else nl.fold_law
                why = f(x, -b, b, o[1])
                if why:
                    dis.append((_lawkind(law, 'outside-bounds', x, b),
                                'inside the bounds', _jsonable(o[1]), why))
        nontrivial = decided and (x in (-b, b) or _mixed(x, b))
        return dis, nontrivial, [law, _jsonable(o)]
    if law == 'clip2':
        x, b = case['x'], case['b']
        o1 = call(bi.clip2, x, b)
        o2 = call(bi.clip2, o1[1], b) if o1[0] == 'ok' else o1
        if o1[0] == 'raise' or o2[0] == 'raise':
            dis.append((_lawkind('clip2', 'raises', x, b), 'a number',
                        [o1, o2], ''))
        else:
            why = nl.idempotent_law(o1[1], o2[1])
            if why:
                dis.append((_lawkind('clip2', 'not-idempotent', x, b),
                            _jsonable(o1[1]), _jsonable(o2[1]), why))
        nontrivial = x in (-b, b) or _mixed(x, b)
        return dis, nontrivial, [law, _jsonable(o1)]
    if law == 'clip':
        x, lo, hi = case['x'], case['lo'], case['hi']
        o1 = call(bi.clip, x, lo, hi)
        o2 = call(bi.clip, o1[1], lo, hi) if o1[0] == 'ok' else o1
        if o1[0] == 'raise' or o2[0] == 'raise':
            dis.append((_lawkind('clip', 'raises', x, lo, hi), 'a number',
                        [o1, o2], ''))
        else:
            why = nl.idempotent_law(o1[1], o2[1])
            if why:
                dis.append((_lawkind('clip', 'not-idempotent', x, lo, hi),
                            _jsonable(o1[1]), _jsonable(o2[1]), why))
        nontrivial = x in (lo, hi) or _mixed(x, lo, hi)
        return dis, nontrivial, [law, _jsonable(o1)]
    if law in ('round', 'roundup', 'trunc'):
        x, q = case['x'], case['q']
        if q is None:
            # quantum omitted: the declared default of the operator
            q = list(E.builtins[law][2].parameters.values())[1].default
            if type(q) not in (int, float):
                raise core.HarnessError(f'{law}: no numeric default quantum')
            o = call(getattr(bi, law), x)
            law = law + '-default'
        else:
            o = call(getattr(bi, law), x, q)
        if q != 0:
            if o[0] == 'raise':
                dis.append((_lawkind(law, 'raises', x, q),
                            'a multiple of the quantum', o[1], ''))
            else:
                why = nl.multiple_law(q, o[1])
                if why:
                    dis.append((_lawkind(law, 'not-multiple', x, q),
                                f'an integer multiple of {q}',
                                _jsonable(o[1]), why))
                else:
                    side = {'round': nl.round_side_law,
                            'roundup': nl.roundup_side_law,
                            'trunc': nl.trunc_side_law}[case['law']]
                    why = side(x, q, o[1])
                    if why:
                        dis.append((_lawkind(law, 'wrong-side', x, q),
                                    'the multiple on the correct side',
                                    _jsonable(o[1]), why))
        on_grid = q != 0 and nl.multiple_law(q, x) is None
        half = q != 0 and nl.multiple_law(q, 2 * x) is None
        nontrivial = q != 0 and (on_grid or half or _mixed(x, q))
        return dis, nontrivial, [law, _jsonable(o)]
    if law == 'mod':
        a, b = case['a'], case['b']
        o = call(bi.mod, a, b)
        if b > 0:
            if o[0] == 'raise':
                dis.append((_lawkind('mod', 'raises', a, b),
                            'a number in [0, b)', o[1], ''))
            else:
                why = nl.mod_nonneg_law(a, b, o[1])
                if why:
                    dis.append((_lawkind('mod', 'negative', a, b), '>= 0',
                                _jsonable(o[1]), why))
                why = nl.mod_below_law(a, b, o[1])
                if why:
                    dis.append((_lawkind('mod', 'not-below-modulus', a, b),
                                f'< {b}', _jsonable(o[1]), why))
        nontrivial = b > 0 and (a < 0 or a == b or a == 0 or _mixed(a, b))
        return dis, nontrivial, [law, _jsonable(o)]
    if law == 'inv':
        f, g, x = case['f'], case['g'], case['x']
        o1 = call(getattr(bi, f), x)
        o2 = call(getattr(bi, g), o1[1]) if o1[0] == 'ok' else o1
        if o2[0] == 'raise':
            dis.append((_invkind(f, g), x, o2[1], f'{g}({f}({x})) raises'))
        else:
            why = nl.inverse_law(x, o2[1])
            if why:
                dis.append((_invkind(f, g), x, _jsonable(o2[1]), why))
        nontrivial = type(x) is int or x in (0.25, 1.0, 440.0)
        return dis, nontrivial, [f, _jsonable(o1)]
    raise core.HarnessError(f'unknown law {law}')


def check_case(case):
    if case['p'] == 'law':
        return check_law(case)
    return check_lift(case)


# ---------------------------------------------------------------------------
# enumeration: groups (operator x entry x kind signature) and their cases
# ---------------------------------------------------------------------------

def _rot(A, i, n):
    return [A[(i + t) % len(A)] for t in range(n)]


def _right_kinds(left, T):
    """Kinds allowed on the right of a lifted left operand."""
    if left in CL:
        out = ['num', 'clist', 'nclist'] + PL
        if left == 'pclist':
            out = ['num', 'clist']
        return out
    if left in AP:
        return ['num', 'aparam', 'list', 'nlist']
    if left == PSTRM:
        return ['num', 'pat', 'clist']
    out = ['num'] + list(FAMILY[left])
    if left == 'func':
        out += [LAM]
    # mixed pairs decided by the stream law (the other operand is evaluated
    # as a stream: a pattern through its stream, a channel list as the same
    # value at every next)
    if left in STRM:
        out += ['pat']
    if left in PAT:
        out += ['rout']
    if left in ('rout', 'pat'):
        out += ['clist']
    if T['CROSS']:
        if left in STRM:
            out += ['cpat']
        if left in PAT:
            out += ['crout']
        if left in ('crout', 'cpat'):
            out += ['nclist']
    return out


def _left_plain_kinds(right):
    """Plain kinds allowed on the left of a lifted right operand (reflected
    forms)."""
    out = ['num']
    if right in ('clist', 'nclist'):
        out += ['list', 'tuple', 'nlist', 'xlist']
    if right in AP:
        out += ['list']
    if right == 'func':
        out += [LAM]
    return out


def _evs(kinds):
    """Evaluation modes.  A composed *pattern* built from patterns and
    numbers only is a re-usable stream factory: 'multi' = the same object is
    evaluated as a stream twice and through embedding twice.  When a Routine
    is among the operands the result is consumed by evaluation: one fresh
    object per mode.  Everything else has one mode (functions are always
    called twice at every point)."""
    if any(k in PAT for k in kinds) and not any(k in FUNC for k in kinds):
        if any(k in STRMS for k in kinds):
            return [None, 'embed']
        return ['multi']
    return [None]


def _numeric_params(params):
    """(required, optional) numeric parameters after the first operand;
    string options (clip=...) and None-default parameters (range=...) are
    not operands."""
    req, opt = [], []
    for p in params:
        if p.kind not in (p.POSITIONAL_OR_KEYWORD, p.POSITIONAL_ONLY):
            continue
        if p.default is inspect.Parameter.empty:
            req.append(p.name)
        elif isinstance(p.default, (int, float)) and \
                not isinstance(p.default, bool):
            opt.append(p.name)
        else:
            break
    return req, opt


def _arg_masks(first, nargs, T):
    """Kind signatures of the arguments of an n-ary operator whose first
    operand has kind `first`."""
    if nargs == 0:
        return [[]]
    if first == 'pclist':
        return [['num'] * nargs]
    if first in PL or first in AP:
        alts = ['list']
    elif first in CL:
        alts = ['clist', 'list']
    elif first in OPD:
        alts = ['opd']
    else:
        base = FAMILY[first][0]
        alts = [base, COMPOSED[base]]
    masks = [['num'] * nargs]
    if T['FULLMASK'] and nargs <= 2:
        for m in itertools.product(['num'] + alts, repeat=nargs):
            masks.append(list(m))
    else:
        for a in alts:
            masks.append([a] * nargs)
        if nargs >= 2:
            for p in (range(nargs) if T['FULLMASK'] else (0, nargs - 1)):
                m = ['num'] * nargs
                m[p] = alts[0]
                masks.append(m)
    if first == 'func':
        masks.append([LAM] * nargs)
        if nargs >= 2:
            masks.append([LAM] + ['num'] * (nargs - 1))
    cross = 'pat' if first in STRMS else ('rout' if first in PAT else None)
    if cross:
        masks.append([cross] * nargs)
        if nargs >= 2:
            masks.append(['num'] * (nargs - 1) + [cross])
    out = []
    for m in masks:
        if m not in out:
            out.append(m)
    return out


def _string_option(params):
    """Name of the string-valued option that directly follows the numeric
    parameters (clip='minmax'), or None."""
    req, opt = _numeric_params(params)
    pos = [p for p in params
           if p.kind in (p.POSITIONAL_OR_KEYWORD, p.POSITIONAL_ONLY)]
    n = len(req) + len(opt)
    if n < len(pos) and isinstance(pos[n].default, str):
        return pos[n].name
    return None


def _class_of(E, kind):
    return type(build(E, kind, [0, 0, 0]))


def groups(tier):
    """Deterministic list of groups for the tier (worker side: needs the
    introspected operator tables).  A group = operator x entry point x
    operand-kind signature x evaluation mode."""
    E = env()
    T = TIERS[tier]
    out = []
    E.unresolved = []
    SEQS = ['num'] + PL + CL

    def lift(a, e, op, k, **kw):
        for ev in _evs(k):
            out.append(dict(p='lift', a=a, e=e, op=op, k=list(k), ev=ev,
                            **kw))

    def resolved(entry, name):
        if kernels(E, entry, name):
            return True
        E.unresolved.append(f'{entry}:{name}')
        return False

    # ---- numeric laws --------------------------------------------------
    for law in ('wrap', 'fold', 'clip', 'round', 'roundup', 'trunc', 'mod'):
        for xs in ('XF', 'XI'):
            out.append(dict(p='law', law=law, xs=xs))
    for xs in ('XF', 'XI'):
        out.append(dict(p='law', law='wrap', xs=xs, rng=1))
        out.append(dict(p='law', law='fold', xs=xs, rng=1))
        out.append(dict(p='law', law='fold', xs=xs, rng=2))
        for law in ('wrap2', 'fold2', 'clip2'):
            out.append(dict(p='law', law=law, xs=xs))
        for law in ('round', 'roundup', 'trunc'):
            out.append(dict(p='law', law=law, xs=xs, q=None))
    for f, g in INVERSES:
        out.append(dict(p='law', law='inv', f=f, g=g))
        out.append(dict(p='law', law='inv', f=g, g=f))

    # ---- unary -----------------------------------------------------------
    for name, (ar, params) in E.methods.items():
        if ar == 'un':
            entry = 'py' if _is_dunder(name) else 'meth'
            if resolved(entry, name):
                for k in LIFTED:
                    lift('un', entry, name, [k])
    for name, (ar, f, sig) in E.builtins.items():
        if ar == 'un':
            for k in LIFTED:
                lift('un', 'bi', name, [k])
            for k in PL + CL:
                lift('un', 'utl', 'bi.' + name, [k])
    for name in ('neg', 'abs'):
        for k in PL + CL:
            lift('un', 'utl', 'operator.' + name, [k])

    # ---- binary ------------------------------------------------------------
    for name, (ar, params) in E.methods.items():
        if ar != 'bin':
            continue
        entry = 'py' if _is_dunder(name) else 'meth'
        if not resolved(entry, name):
            continue
        if entry == 'py' and _is_reflected(E, name):
            for r in LIFTED:
                for l in _left_plain_kinds(r):
                    lift('bin', 'py', name, [l, r])
            continue
        for l in LIFTED + [PSTRM]:
            for r in _right_kinds(l, T):
                lift('bin', entry, name, [l, r])
            if l == PSTRM:
                continue
            if params[0].default is not inspect.Parameter.empty:
                lift('bin', entry, name, [l])       # default argument
        if name in COMPARISONS:
            # number on the left: Python swaps to the mirrored comparison.
            for r in LIFTED:
                lift('bin', 'py', name, ['num', r])
    for name, (ar, f, sig) in E.builtins.items():
        if ar != 'bin':
            continue
        for l in LIFTED + [PSTRM]:
            for r in _right_kinds(l, T):
                lift('bin', 'bi', name, [l, r])
        for r in LIFTED:
            for l in _left_plain_kinds(r):
                lift('bin', 'bi', name, [l, r])
        if list(sig.parameters.values())[1].default is not \
                inspect.Parameter.empty:
            for l in LIFTED:
                lift('bin', 'bi', name, [l])        # default argument
        if T['UTL_BIN'] is not None and name not in T['UTL_BIN']:
            continue
        for l in SEQS:
            for r in SEQS:
                if (l, r) != ('num', 'num'):
                    lift('bin', 'utl', 'bi.' + name, [l, r])
    for name in ('add', 'sub', 'mul', 'truediv', 'lt'):
        for l in SEQS:
            for r in SEQS:
                if (l, r) != ('num', 'num'):
                    lift('bin', 'utl', 'operator.' + name, [l, r])

    # ---- n-ary -----------------------------------------------------------
    nar = []
    for name, (ar, params) in E.methods.items():
        if ar == 'nar':
            nar.append(('meth', name, params))
    for name, (ar, f, sig) in E.builtins.items():
        if ar == 'nar':
            nar.append(('bi', name, list(sig.parameters.values())[1:]))
    for entry, name, params in nar:
        if not resolved(entry, name):
            continue
        req, opt = _numeric_params(params)
        counts = sorted({len(req), len(req) + len(opt)})
        for nargs in counts:
            for first in LIFTED:
                for m in _arg_masks(first, nargs, T):
                    lift('nar', entry, name, [first] + m)
            for m in (['num'] * nargs, ['pat'] * nargs):
                lift('nar', entry, name, [PSTRM] + m)
            if entry == 'bi' and (T['UTL_NAR'] is None or
                                  name in T['UTL_NAR']):
                for first in PL + CL:
                    for m in _arg_masks(first, nargs, T):
                        lift('nar', 'utl', 'bi.' + name, [first] + m)
        if entry == 'meth':
            # a class may re-declare the method with further defaults
            # (ChannelList.clip(lo=0.0, hi=1.0)): its own argument counts
            for first in LIFTED:
                f = getattr(_class_of(E, first), name, None)
                if f is None or f is getattr(E.aob.AbstractObject, name):
                    continue
                own = list(inspect.signature(f).parameters.values())[1:]
                oreq, oopt = _numeric_params(own)
                for nargs in sorted({len(oreq), len(oreq) + len(oopt)}):
                    if nargs not in counts:
                        lift('nar', entry, name, [first] + ['num'] * nargs)
        # the string option, passed positionally after all numeric arguments
        if _string_option(params):
            nargs = len(req) + len(opt)
            for first in LIFTED:
                masks = [['num'] * nargs]
                # (list arguments of list_narop: open known finding, not
                # repeated with options)
                if first != 'pclist' and not (
                        (first in CL and entry != 'meth') or first in AP):
                    alt = _arg_masks(first, nargs, T)[1]
                    masks.append(alt)
                if first == 'pclist' and entry == 'meth':
                    continue      # open known finding, not repeated
                for m in masks:
                    for o in T['OPTVALS']:
                        lift('nar', entry, name, [first] + m, o=o)
    return out


def cases_of(g, tier):
    T = TIERS[tier]
    if g['p'] == 'law':
        law = g['law']
        if law == 'inv':
            xs = T['XF'] + T['XI']
            # f defined on all reals (midi, octave, dB numbers) or on the
            # positive reals (cps, ratio, amplitude)
            if g['f'] in ('cpsmidi', 'ratiomidi', 'cpsoct', 'ampdb'):
                xs = [x for x in xs if x > 0] + POSITIVE_EXTRA
            for x in xs:
                yield {'p': 'law', 'law': 'inv', 'f': g['f'], 'g': g['g'],
                       'x': x}
            return
        xs = T[g['xs']]
        if law in ('wrap', 'fold', 'clip'):
            for x in xs:
                for lo in T['BOUNDS']:
                    for hi in T['BOUNDS']:
                        c = {'p': 'law', 'law': law, 'x': x, 'lo': lo,
                             'hi': hi}
                        if g.get('rng'):
                            c['rng'] = g['rng']
                        yield c
        elif law in ('wrap2', 'fold2', 'clip2'):
            for x in xs:
                for b in T['BOUNDS']:
                    yield {'p': 'law', 'law': law, 'x': x, 'b': b}
        elif 'q' in g:
            for x in xs:
                yield {'p': 'law', 'law': law, 'x': x, 'q': None}
        elif law == 'mod':
            for a in xs:
                for b in T['BOUNDS']:
                    yield {'p': 'law', 'law': 'mod', 'a': a, 'b': b}
        else:
            for x in xs:
                for q in T['QUANTA']:
                    yield {'p': 'law', 'law': law, 'x': x, 'q': q}
        return

    kinds = g['k']
    n = len(kinds)
    A = T['A']
    seqpos = [i for i, k in enumerate(kinds) if k not in SCALAR]
    base = {'p': 'lift', 'a': g['a'], 'e': g['e'], 'op': g['op'], 'k': kinds}
    if g.get('ev'):
        base['ev'] = g['ev']
    if 'o' in g:
        base['o'] = g['o']

    def lens_variants(nseq):
        if nseq == 0:
            return [()]
        if nseq == 1:
            return [(l,) for l in T['LEN1']]
        if n <= 2:
            return T['LEN2']
        # n-ary: first operand and all sequence arguments
        return [(a,) + (b,) * (nseq - 1) for a, b in T['LENN']]

    if n <= 2:
        for lens in lens_variants(len(seqpos)):
            lmap = dict(zip(seqpos, lens))
            for idx in itertools.product(range(len(A)), repeat=n):
                vals = [_rot(A, idx[i], lmap.get(i, 1)) for i in range(n)]
                c = dict(base)
                c['v'] = vals
                yield c
        if len(seqpos) in (1, 2):
            # further lengths over fewer start positions
            more = T['LEN2X'] if len(seqpos) == 2 else \
                [(l,) for l in T['LEN1X']]
            done = lens_variants(len(seqpos))
            for lens in more:
                if lens in done:
                    continue
                lmap = dict(zip(seqpos, lens))
                for idx in itertools.product(T['LEN2X_START'], repeat=n):
                    vals = [_rot(A, idx[i], lmap.get(i, 1))
                            for i in range(n)]
                    c = dict(base)
                    c['v'] = vals
                    yield c
        return
    # n-ary: first operand rotates over A at the NAR_X offsets, arguments
    # take every tuple of the argument alphabet.
    B = T['ARGS'].get(n - 1, T['ARGS'][6])
    lvs, x0s = lens_variants(len(seqpos)), T['NAR_X']
    if 'o' in g:
        # option groups: one rotation of the first operand (the one that
        # starts inside the alphabet, so that values fall below, between and
        # above the argument values), one length variant
        lvs, x0s = lvs[:1], x0s[-1:]
    for lens in lvs:
        lmap = dict(zip(seqpos, lens))
        for x0 in x0s:
            for idx in itertools.product(range(len(B)), repeat=n - 1):
                vals = [_rot(A, x0 % len(A), lmap.get(0, 1))]
                for i in range(1, n):
                    vals.append(_rot(B, idx[i - 1], lmap.get(i, 1)))
                c = dict(base)
                c['v'] = vals
                yield c


# ---------------------------------------------------------------------------
# engine glue
# ---------------------------------------------------------------------------

def plan(tier):
    """[(group, tiers whose value space is enumerated for it)].  The thorough
    tier contains the quick space: every group is enumerated with the quick
    alphabets first, then with its own (duplicates are skipped in `work`);
    the thorough law grids are supersets of the quick ones by construction."""
    gs = groups(tier)
    if tier != 'thorough':
        return [(g, [tier]) for g in gs]

    def key(g):
        return (g['a'], g['e'], g['op'], tuple(g['k']), g['ev'],
                repr(g.get('o', '-')))
    quick = {key(g): g for g in groups('quick') if g['p'] == 'lift'}
    groups(tier)            # restore the unresolved list of this tier
    out = []
    for g in gs:
        if g['p'] == 'law':
            out.append((g, ['thorough']))
        else:
            both = quick.pop(key(g), None) is not None
            out.append((g, ['quick', 'thorough'] if both else ['thorough']))
    out += [(g, ['quick']) for g in quick.values()]
    return out


def work(job):
    acc = progenum.Acc(max_samples=2, max_outcomes=4000)
    E = env()
    for gi, (g, tiers) in enumerate(plan(job['tier'])):
        if gi % job['of'] != job['shard']:
            continue
        acc.count('groups')
        seen = set() if len(tiers) > 1 else None
        for tier in tiers:
            for case in cases_of(g, tier):
                if seen is not None:
                    k = core.canon(case['v'])
                    if k in seen:
                        continue
                    seen.add(k)
                dis, nontrivial, outcome = check_case(case)
                for kind, exp, obs, detail in dis:
                    acc.violation(kind, case, exp, obs, detail,
                                  standalone=standalone(case, exp))
                acc.case(case, nontrivial=nontrivial, outcome=outcome)
                acc.count('law_cases' if case['p'] == 'law'
                          else 'lift_cases')
    if job['shard'] == 0:
        acc.extra['unresolved_operators'] = sorted(set(E.unresolved))
    return acc.result()


def introspect(job):
    E = env()
    gs = [g for g, tiers in plan(job['tier'])]
    ops = {}
    for g in gs:
        if g['p'] == 'lift':
            ops.setdefault(g['e'], set()).add(g['op'])
    return {
        'builtins': {a: sorted(n for n, v in E.builtins.items() if v[0] == a)
                     for a in ('un', 'bin', 'nar')},
        'methods': {a: sorted(n for n, v in E.methods.items() if v[0] == a)
                    for a in ('un', 'bin', 'nar')},
        'groups': len(gs),
        'ops_by_entry': {e: len(s) for e, s in sorted(ops.items())},
        'signatures': len({(g['e'], tuple(g['k']), g.get('ev'), 'o' in g)
                           for g in gs if g['p'] == 'lift'}),
        'unresolved': sorted(set(E.unresolved)),
    }


def replay(job):
    dis, nontrivial, outcome = check_case(job['case'])
    return {'violates': any(d[0] == job['kind'] for d in dis),
            'disagreements': [[d[0], repr(d[1]), repr(d[2]), d[3]]
                              for d in dis],
            'outcome': outcome}


_HEAD = """import math, operator
import sc3; sc3.init('nrt')
from sc3.base import builtins as bi, utils as utl
from sc3.base.functions import Function
from sc3.base.stream import Routine, stream, embed
from sc3.base.operand import Operand
from sc3.seq.event import Rest, arrayed_param
from sc3.seq.pattern import pattern
from sc3.synth.ugen import ChannelList

POISON = 4099.5    # a stream operand that did not get k as its k-th input
INVAL = [True]     # False while evaluating without input values

@pattern
def pvals(vals):
    got = None
    for k, v in enumerate(vals):
        got = yield (v if k == 0 or not INVAL[0] or got == k else POISON)

def rout(vals):
    def gen(inval):
        for k, v in enumerate(vals):
            inval = yield (v if not INVAL[0] or inval == k else POISON)
    return Routine(gen)

def func(vals):
    return Function(lambda k: vals[k % len(vals)])

def lam(vals):
    return lambda k: vals[k % len(vals)]

def nexts(st, n=8):     # k-th next gets the input value k
    out = []
    try:
        for k in range(n):
            out.append(st.next(k))
    except StopIteration:
        pass
    return out

def sends(g, n=8):
    out = []
    try:
        for k in range(n):
            out.append(next(g) if k == 0 else g.send(k))
    except StopIteration:
        pass
    return out

"""


def _operand_src(kind, vals):
    v = list(vals)
    if kind == 'num':
        return repr(v[0])
    if kind in ('opd', 'rest'):
        return f"{'Operand' if kind == 'opd' else 'Rest'}({v[0]!r})"
    if kind in ('func', 'rout', 'lam'):
        return f'{kind}({v!r})'
    if kind in ('cfunc', 'crout'):
        return f'+{kind[1:]}({v!r})'
    if kind == 'pat':
        return f'pvals({v!r})'
    if kind == PSTRM:
        return f'stream(pvals({v!r}))'
    if kind == 'cpat':
        return f'+pvals({v!r})'
    if kind == 'clist':
        return f'ChannelList({v!r})'
    if kind == 'pclist':
        return f'ChannelList({nest(v)!r})'
    if kind == 'nclist':
        n = nest(v)
        items = [f'ChannelList({i!r})' if isinstance(i, list) else repr(i)
                 for i in n]
        return f"ChannelList([{', '.join(items)}])"
    if kind == 'list':
        return repr(v)
    if kind == 'tuple':
        return repr(tuple(v))
    if kind == 'nlist':
        return repr(nest(v))
    if kind == 'xlist':
        return repr(xnest(v))
    if kind == 'aparam':
        return f'arrayed_param({v!r})'
    return repr(nest(v, tuple))


def standalone(case, exp=None):
    """Python source reproducing a case with sc3 imports only."""
    if case['p'] == 'law':
        head = ("import sc3; sc3.init('nrt')\n"
                "from sc3.base import builtins as bi\n")
        law = case['law']
        if law == 'inv':
            return head + (f"x = {case['x']!r}\n"
                           f"print(bi.{case['g']}(bi.{case['f']}(x)), "
                           f"'should be', x)\n")
        if law in ('wrap', 'fold', 'clip'):
            lo, hi = case['lo'], case['hi']
            extra = ''.join(f', {v!r}' for v in
                            [hi - lo, 2 * (hi - lo)][:case.get('rng', 0)])
            return head + (f"print(bi.{law}({case['x']!r}, {lo!r}, "
                           f"{hi!r}{extra}))\n")
        if law in ('wrap2', 'fold2', 'clip2'):
            return head + f"print(bi.{law}({case['x']!r}, {case['b']!r}))\n"
        if case.get('q', 0) is None:
            return head + f"print(bi.{law}({case['x']!r}))\n"
        if law == 'mod':
            return head + f"print(bi.mod({case['a']!r}, {case['b']!r}))\n"
        return head + f"print(bi.{law}({case['x']!r}, {case['q']!r}))\n"
    args = [_operand_src(k, v) for k, v in zip(case['k'], case['v'])]
    if 'o' in case:
        args.append(repr(case['o']))
    e, op = case['e'], case['op']
    if e == 'bi':
        call = f"bi.{op}({', '.join(args)})"
    elif e == 'meth':
        call = f"({args[0]}).{op}({', '.join(args[1:])})"
    elif e == 'py':
        base = op
        if base.startswith('__r') and base not in (
                '__round__', '__rshift__'):
            base = '__' + base[3:]
        fn = {'__round__': 'round', '__trunc__': 'math.trunc',
              '__ceil__': 'math.ceil', '__floor__': 'math.floor'}.get(
                  base, 'operator.' + base)
        call = f"{fn}({', '.join(args)})"
    else:
        f = {1: 'list_unop', 2: 'list_binop'}.get(len(args), 'list_narop')
        call = f"utl.{f}({op}, {', '.join(args)})"
    fam = result_family(case['k'])
    if fam == 'func':
        show = ('print([res(k) for k in range(3)])\n'
                'print([res(k) for k in range(3)], "(same again)")\n'
                'print([res(k=k) for k in range(3)], "(same again)")')
        if LAM not in case['k']:
            show += ('\nprint([res(k, "spare") for k in range(3)], '
                     '"(same again)")')
    elif fam == 'strm' and case.get('ev') == 'multi':
        show = ('print(nexts(stream(res)))\n'
                'print(nexts(stream(res)), "(same again)")\n'
                'print(sends(embed(res, 0)), "(same again)")\n'
                'print(sends(embed(res, 0)), "(same again)")\n'
                'INVAL[0] = False\n'
                'print(list(iter(res)), "(same again)")')
    elif fam == 'strm' and case.get('ev') == 'embed':
        show = 'print(sends(embed(res, 0)))'
    elif fam == 'strm':
        show = 'print(nexts(stream(res)))'
    else:
        show = 'print(res)'
    tail = f'# expected outcomes: {exp!r}\n' if exp is not None else ''
    return _HEAD + f'res = {call}\n{show}\n' + tail


# ---------------------------------------------------------------------------
# known-finding predicates (v: violation dict with kind, case, expected, ...)
# ---------------------------------------------------------------------------

def chanlist_plain_inner_nary_method(v):
    """n-ary *method* called on a ChannelList that holds a plain inner list,
    failing with AttributeError (ChannelList._multichannel_perform)."""
    c = v['case']
    return (c['p'] == 'lift' and c['a'] == 'nar' and c['e'] == 'meth' and
            c['k'][0] == 'pclist' and
            all(k == 'num' for k in c['k'][1:]) and
            v.get('observed') == [['raise', 'AttributeError']])


def fold_range_without_range2(v):
    """fold called with the optional `range` but without `range2`."""
    c = v['case']
    return (c['p'] == 'law' and c['law'] == 'fold' and c.get('rng') == 1 and
            v.get('observed') == 'TypeError')


PREDICATES = {
    'chanlist_plain_inner_nary_method': chanlist_plain_inner_nary_method,
    'fold_range_without_range2': fold_range_without_range2,
}


def main(ctx):
    T = TIERS[ctx.tier]
    ctx.rule = (
        'E1: every operator found by introspection x entry point (Python '
        'operator protocol, method, builtin function, utils list algebra) x '
        'operand-kind signature x every tuple of start values of the '
        'alphabet (sequence operands are rotations of the alphabet, so every '
        'value pair meets at some evaluation point) x the listed length '
        'pairs (LEN2X pairs over the start positions LEN2X_START only); '
        'operand kinds include plain Python functions next to a Function, '
        'ragged three-level lists and arrayed_param; mixed pairs decided by '
        'the stream law: stream (Routine, op stream, stream of a pattern) x '
        'pattern, pattern x stream, stream / pattern x channel list, and '
        'the same as n-ary arguments; binary builtins and '
        'n-ary methods also with their declared default arguments omitted; '
        'the n-ary operators that take a string option (clip=) x every '
        'option value; every composed function is called twice at each of 3 '
        'points, then with a keyword and with a spare positional argument, '
        'and every composed pattern is evaluated on the same object as a '
        'stream twice, through embedding twice and through iter/next (state '
        'kept between evaluations is a violation); streams receive k as the '
        'input value of the k-th next; numeric laws over the full grid, '
        'wrap/fold also with the optional range arguments, wrap2/fold2/clip2 '
        'with bounds -b, b, round/roundup/trunc also without quantum. A '
        'lifting case is '
        'non-trivial when at some evaluation point the operands mix int and '
        'float, two sequence operands have different lengths (wrap-around / '
        'early end actually happens), or the numeric kernel raises at some '
        'point (domain boundary); a law case when x lies on a '
        'bound / grid line of the quantum or the arguments mix int and '
        'float.')
    ctx.assumptions += [
        'lifting oracle: the library\'s own numeric operator applied to the '
        'evaluated plain numbers (mc/oracles/lift_ref.py gives point-wise, '
        'zip-until-shortest and element-wise-with-wrap semantics); where '
        'Python\'s and the library\'s numeric operator of the same name '
        'differ (%, **, round, trunc, bitnot) either is accepted; an omitted '
        'argument means the numeric operator\'s own default where it declares '
        'one, else the default of the method signature',
        'comparison is type-strict: an abstract object left unevaluated '
        'where a number is due equals no number (its == would build a truthy '
        'lazy object); function x stream, stream x function and channel '
        'list x stream pairs are not decided by the statement and not '
        'enumerated',
        'input values, keyword and spare arguments are only used in forms '
        'that every operand accepts on its own; n-ary operators with a plain '
        'number first and lifted arguments have no reflected hook in the '
        'library and are not enumerated (not decided by the statement)',
        'kernels that draw random numbers are detected by counting draws of '
        'the library\'s main generator (a counting random.Random installed '
        'as main._m_rgen); for them only structure and exceptions are '
        'compared, values are a don\'t-care',
        'numeric laws: exact rational arithmetic on dyadic arguments '
        '(mc/oracles/numlaws.py); inverse pairs with relative tolerance 1e-9',
        'main._m_rgen is reseeded before every evaluation (determinism)',
    ]
    info = None
    for res in ctx.map('nrt', MODNAME, 'introspect', [{'tier': ctx.tier}]):
        info = res
    ctx.extra['operators_introspected'] = {
        'builtins_unary': len(info['builtins']['un']),
        'builtins_binary': len(info['builtins']['bin']),
        'builtins_nary': len(info['builtins']['nar']),
        'methods_unary': len(info['methods']['un']),
        'methods_binary': len(info['methods']['bin']),
        'methods_nary': len(info['methods']['nar'])}
    ctx.extra['operators_by_entry'] = info['ops_by_entry']
    ctx.extra['kind_signatures'] = info['signatures']
    ctx.extra['groups_total'] = info['groups']
    ctx.bounds['alphabets'] = {k: T[k] for k in
                               ('A', 'ARGS', 'NAR_X', 'LEN1', 'LEN1X', 'LEN2',
                                'LEN2X', 'LEN2X_START', 'LENN', 'OPTVALS',
                                'BOUNDS', 'QUANTA')}
    ctx.bounds['alphabets']['ARGS'] = {str(k): v
                                       for k, v in T['ARGS'].items()}
    ctx.bounds['law_grid'] = {'x_float': [T['XF'][0],
                                          T['XF'][-1 - len(FAR_F)],
                                          len(T['XF']) - len(FAR_F)],
                              'x_int': [T['XI'][0],
                                        T['XI'][-1 - len(FAR_I)]],
                              'x_far': FAR_F + FAR_I}
    jobs = [{'shard': i, 'of': NSHARDS, 'tier': ctx.tier}
            for i in range(NSHARDS)]
    progenum.run(ctx, MODNAME, 'work', jobs, mode='nrt', bound=T['label'])
    if info['unresolved']:
        ctx.extra['unresolved_operators'] = info['unresolved']
