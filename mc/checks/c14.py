"""C14 - events resolve their keys and play as correctly timed server commands.

E1 (progenum), NRT mode, three case families, every case is plain data:

K  key chains: every subset of explicitly given main pitch keys
   {freq, midinote, note, degree} x modifiers (mtranspose, gtranspose, octave,
   root, harmonic, detune, ctranspose) x scales/tunings; {amp, db, velocity}
   subsets x {dur, stretch, legato, sustain, delta} subsets.  Observed:
   `event(key)` lookups on a fresh event and the `/s_new` + gate-off the event
   produces when it is played inside a routine (NRT score as the wire).
P  playing: 64 instruments (every subset of the controls freq, amp, pan, out,
   gate, cutoff, registered in the default SynthDescLib at worker start) x
   events defining subsets of those keys x logical time / latency / duration
   keys / add action / group.  The whole score must be exactly one `/s_new`
   (+ one `/n_set id gate 0` iff the instrument has a gate).
S  players: Pbind / Pmono / Pchain / Ppar / Pdur / Pdelta / Pseq compositions
   over finite dur patterns with rests, played with `.play()`; the score is
   compared with the timeline denoted by `mc.oracles.event_ref.denote`.

R  event re-use: an event is played, one or two of its keys (freq, amp,
   pan) are changed in place, on a copy(), or by a Pbind whose `proto` is the
   played event, and it is played again later in the same routine, for
   instruments with and without a gate; the second `/s_new` (+ gate-off) must
   carry the values of the event as it is at the second play, fresh node id.

D  redefinition: one instrument NAME is defined, played (note / Pbind /
   Pmono), defined again under the same name with another set or order of
   controls and with / without gate (re-added, removed and added, or added to
   a second SynthDescLib the event names with `synth_lib`), played again
   (also while a Pbind of the first step is still running), up to three
   definitions; every message carries the controls of the definition current
   in the event's library at play time.  Names are unique per case and are
   removed from the libraries afterwards.

M  key chains inside Pmono / PmonoArtic voices of 3 events: every pitch
   entry point (degree / note / midinote / freq, another value per event) x
   pitch modifiers (constant or changing per event) x scales x the amplitude
   chain (amp / db / velocity); the /n_set of every later event is compared
   with the documented chain of that event's keys exactly as the /s_new of
   the first (messages paired with events by time and kind).

Widened by the audit (all in the same families):

P+ zero / negative / falsy control values, a sustain of zero, non-dyadic
   time and latency, all 20 spellings of the add action, the group as a
   Group / Synth object and as 0, an explicit `server` key (second server
   with its own latency), the explicit type 'note', the entry points
   sc3.base.play.play(dict) / play(**keys) / play(event) / play(dict, **keys),
   the constructor forms event(**keys) / event(dict, **keys) / event(event),
   an arrayed control (tuple / list value), the `variant` key, an instrument
   that was never registered (only time, name, id, action, group decided).
K+ float and far negative degrees, scales built by Scale.chromatic(tuning),
   Scale(tuple, Tuning.et(12)), Scale(range) with 6 degrees.
S+ Pconst as the dur pattern (cut and padded), Pdur(quant=), Pdur cutting int
   deltas, key sets ((midinote, dur): pairs), deltas of zero, rests written
   through amp / delta keys and Pdelta(Rest(t)), input events
   (Pattern.play(proto=dict | event), Pchain(X, constant Pbind)), a constant
   Pbind chained over Ppar/Pdur/Pseq, Pchain(..).chain(..), the entry points
   play(pattern), EventStreamPlayer(stream, proto).play(clock[, reset=True]),
   one pattern object played twice (overlapping or not), Pmono(articulate=
   True) with uniform and mixed legato and rests.

The oracle (mc/oracles/event_ref.py) never imports sc3; its don't-cares are
listed in its docstring."""

import itertools

from mc import core
from mc.engines import progenum
from mc.oracles import event_ref as ref

MODE = 'nrt'
MODNAME = 'mc.checks.c14'
EXTRA_INIT = (MODNAME, 'worker_init')
CALL_BUDGET = 200000          # python-level calls per guarded library run

CTRLS = ['freq', 'amp', 'pan', 'out', 'gate', 'cutoff']
FULL = 63


# instruments outside the 64 subsets: an arrayed control, a definition with
# variants, a name nobody registered
XINSTR = {'c14arr': ['freqs', 'amp'], 'c14var': ['freq', 'amp'],
          'c14none': None}
X_VARIANTS = {'c14var': {'a': {'amp': 0.9}}}
X_DEFAULTS = {'freqs': '(1, 2, 3)'}
OTHER_LAT_OFFSET = 0.125       # latency of the second server = lat + this
OTHER_GROUP = 1                # its default group


def instr_name(mask):
    return mask if isinstance(mask, str) else f'c14i{mask}'


def ctrls_of(name):
    if name in XINSTR:
        return list(XINSTR[name] or [])
    mask = int(name[4:])
    return [c for i, c in enumerate(CTRLS) if mask >> i & 1]


def mask_of(ctrls):
    return sum(1 << CTRLS.index(c) for c in ctrls)


# ---------------------------------------------------------------------------
# worker side: library glue
# ---------------------------------------------------------------------------

_LOG = []
_READY = [False]


def worker_init():
    """Register the 64 instruments in the default SynthDescLib, capture the
    NRT clock's error log (exceptions inside routines are swallowed there)."""
    if _READY[0]:
        return
    import logging
    import warnings
    warnings.simplefilter('ignore')
    from sc3.base.main import main

    class Capture(logging.Handler):
        def emit(self, record):
            msg = record.getMessage()
            if record.exc_info and record.exc_info[1] is not None:
                e = record.exc_info[1]
                msg += f' :: {type(e).__name__}: {e}'
            _LOG.append(msg[:300])

    for lname in ('sc3.base.clock', 'sc3.base.stream'):
        lg = logging.getLogger(lname)
        lg.setLevel(logging.ERROR)
        lg.addHandler(Capture())
        lg.propagate = False
    for mask in range(64):
        register(mask)
    for name in XINSTR:
        register_x(name)
    main.reset()
    _READY[0] = True


def register_x(name):
    from sc3.synth.synthdef import SynthDef
    from sc3.synth.ugens import Out, DC
    if XINSTR[name] is None:
        return
    src = 'def f(%s):\n    Out.ar(0, DC.ar(0))\n' % \
        ', '.join(f'{c}={X_DEFAULTS.get(c, 0.5)}' for c in XINSTR[name])
    ns = {'Out': Out, 'DC': DC}
    exec(src, ns)
    SynthDef(name, ns['f'], variants=X_VARIANTS.get(name)).add()


_OTHER = []


def other_server():
    """A second server object (its own latency and node ids)."""
    if not _OTHER:
        from sc3.synth.server import Server
        from sc3.base.netaddr import NetAddr
        _OTHER.append(Server('c14other', NetAddr('127.0.0.1', 57999)))
    return _OTHER[0]


def register(mask):
    from sc3.synth.synthdef import SynthDef
    from sc3.synth.ugens import Out, DC
    names = [c for i, c in enumerate(CTRLS) if mask >> i & 1]
    src = 'def f(%s):\n    Out.ar(0, DC.ar(0))\n' % \
        ', '.join(f'{c}=0.5' for c in names)
    ns = {'Out': Out, 'DC': DC}
    exec(src, ns)
    SynthDef(instr_name(mask), ns['f']).add()


def desc_state(mask):
    from sc3.synth.synthdesc import SynthDescLib
    d = SynthDescLib.default.at(instr_name(mask))
    return [list(d.control_names), [c.name for c in d.controls],
            bool(d.has_gate)]


def restore_instruments():
    """Cases must not influence each other through the instrument registry:
    after every case the 64 descriptions are compared with what was
    registered; a changed one is reported (for the case that changed it) and
    registered again."""
    changed = []
    for mask in range(64):
        names = [c for i, c in enumerate(CTRLS) if mask >> i & 1]
        want = [names, names, 'gate' in names]
        try:
            got = desc_state(mask)
        except Exception as e:
            got = f'{type(e).__name__}: {e}'
        if got != want:
            changed.append([instr_name(mask), want, got])
            register(mask)
    return changed


class _CallBudget:
    """Deterministic guard against non-termination: counts python-level
    function calls (sys.monitoring PY_START where available, else a
    call-only trace function: no line tracing, so it is cheap) and raises
    progenum's StepBudgetExceeded (a BaseException, so the library cannot
    swallow it with `except Exception`)."""

    TOOL = 4

    def __init__(self, limit):
        self.limit = limit
        self.n = 0

    def _hit(self):
        self.n += 1
        if self.n > self.limit:
            self.limit = self.n + 5000      # raise again if it is swallowed
            raise progenum.StepBudgetExceeded(self.n)

    def _mon(self, code, offset):
        if code is not _EXIT_CODE:
            self._hit()

    def _trace(self, frame, event, arg):
        if frame.f_code is not _EXIT_CODE:
            self._hit()
        return None

    def __enter__(self):
        import sys
        self._monitoring = hasattr(sys, 'monitoring')
        if self._monitoring:
            m = sys.monitoring
            m.use_tool_id(self.TOOL, 'c14-call-budget')
            m.register_callback(self.TOOL, m.events.PY_START, self._mon)
            m.set_events(self.TOOL, m.events.PY_START)
        else:
            self._old = sys.gettrace()
            sys.settrace(self._trace)
        return self

    def __exit__(self, *exc):
        import sys
        if self._monitoring:
            m = sys.monitoring
            m.set_events(self.TOOL, 0)
            m.register_callback(self.TOOL, m.events.PY_START, None)
            m.free_tool_id(self.TOOL)
        else:
            sys.settrace(self._old)
        return False


_EXIT_CODE = _CallBudget.__exit__.__code__


def lib_scale(name):
    from sc3.seq.scale import Scale, Tuning
    sp = ref.SCALES[name]
    if name == 'chromatic_cm':
        # (Scale.chromatic() without a tuning raises: Tuning.from_name has
        # no registered names - outside this property)
        return Scale.chromatic(Tuning.et(12))
    if name == 'major_et12':
        return Scale(tuple(sp['degrees']), Tuning.et(12))
    if name == 'whole_rng':
        return Scale(range(0, 12, 2))
    if sp['tuning'] is None:
        return Scale(sp['degrees'])
    return Scale(sp['degrees'], Tuning(sp['tuning'], sp['ratio']))


def lib_value(key, v):
    from sc3.seq.event import Rest
    if ref.is_rest_marker(v):
        return Rest() if v['Rest'] is None else Rest(v['Rest'])
    if key == 'scale':
        return lib_scale(v)
    if key == 'server':
        if v != 'other':
            raise core.HarnessError(f'bad server {v}')
        return other_server()
    if isinstance(v, dict):
        if 'tuple' in v:
            return tuple(v['tuple'])
        from sc3.synth.server import Server
        from sc3.synth.node import Group, Synth
        if 'Group' in v:
            return Group.basic_new(Server.default, v['Group'])
        if 'Synth' in v:
            return Synth.basic_new(instr_name(FULL), Server.default,
                                   v['Synth'])
        raise core.HarnessError(f'bad value {v}')
    return v


def group_number(v):
    if isinstance(v, dict):
        return v.get('Group', v.get('Synth'))
    return v


def lib_kwargs(given, scale_fn=False):
    kw = {k: lib_value(k, v) for k, v in given.items()}
    if scale_fn and 'scale' in kw:
        # the scale as a function-valued key (EventDict.__call__ evaluates
        # functions with the event as argument)
        kw['scale'] = (lambda sc: (lambda ev: sc))(kw['scale'])
    return kw


def lib_item(key, i):
    if '+' in key:                      # key set: one value per key
        return tuple(lib_value(k, x) for k, x in zip(key.split('+'), i))
    return lib_value(key, i)


def lib_vp(key, vp):
    from sc3.seq.patterns.listpatterns import Pseq
    from sc3.seq.patterns.valuepatterns import Pseries
    from sc3.seq.patterns.filterpatterns import Pconst
    if isinstance(vp, list):
        if vp[0] == 'Pseq':
            rep = float('inf') if vp[2] == 'inf' else vp[2]
            return Pseq([lib_item(key, i) for i in vp[1]], rep)
        if vp[0] == 'Pseries':
            return Pseries(vp[1], vp[2])
        if vp[0] == 'Pconst':
            return Pconst(lib_vp(key, vp[1]), vp[2])
        raise core.HarnessError(f'bad value pattern {vp}')
    return lib_value(key, vp)


def lib_key(k):
    return tuple(k.split('+')) if '+' in k else k


def pat_opts(p, i):
    return p[i] if len(p) > i and isinstance(p[i], dict) else {}


def lib_pattern(p, memo=None):
    """memo (a dict): structurally equal sub-patterns become ONE library
    object that is embedded several times (a pattern is a description: every
    embedding is a stream of its own)."""
    if memo is not None:
        k = core.canon(p)
        if k not in memo:
            memo[k] = _lib_pattern(p, memo)
        return memo[k]
    return _lib_pattern(p, None)


def _lib_pattern(p, memo):
    from sc3.seq.patterns import eventpatterns as ep
    from sc3.seq.patterns import filterpatterns as fp
    from sc3.seq.patterns.listpatterns import Pseq
    h = p[0]

    def lib_pattern(c):
        return globals()['lib_pattern'](c, memo)
    if h == 'Pbind':
        return ep.Pbind({lib_key(k): lib_vp(k, v) for k, v in p[1].items()})
    if h == 'Pmono':
        d = {lib_key(k): lib_vp(k, v) for k, v in p[2].items()}
        if pat_opts(p, 3).get('articulate'):
            return ep.Pmono(p[1], d, articulate=True)
        return ep.Pmono(p[1], d)
    if h == 'Pchain':
        kids = [lib_pattern(c) for c in p[1]]
        if pat_opts(p, 2).get('chain'):
            # the same composition through the chain() method
            out = ep.Pchain(kids[0])
            for k in kids[1:]:
                out = out.chain(k)
            return out
        return ep.Pchain(*kids)
    if h == 'Ppar':
        return ep.Ppar(*[lib_pattern(c) for c in p[1]])
    if h == 'Pdur':
        q = pat_opts(p, 3).get('quant')
        if q is not None:
            return fp.Pdur(p[1], lib_pattern(p[2]), quant=q)
        return fp.Pdur(p[1], lib_pattern(p[2]))
    if h == 'Pdelta':
        return fp.Pdelta(lib_value('dur', p[1]), lib_pattern(p[2]))
    if h == 'Pseq':
        return Pseq([lib_pattern(c) for c in p[1]])
    raise core.HarnessError(f'bad pattern {p}')


def norm(v):
    if isinstance(v, (bool, int, float, str)) or v is None:
        return v
    if isinstance(v, (list, tuple)):
        return [norm(i) for i in v]
    if isinstance(v, memoryview):
        return 'blob'
    try:
        from sc3.seq.event import Rest
        if isinstance(v, Rest):
            return {'Rest': norm(v.value)}
    except Exception:
        pass
    return repr(v)[:80]


def run_score(lat, body, at=None, budget=True):
    """Reset NRT, set the server latency, run `body()` on the main thread
    (at is None) or inside a routine after waiting `at` seconds, render.
    -> {'score': [[time, msg, ...], ...] | None, 'exc': str | None,
        'log': [...]}"""
    from sc3.base.main import main
    from sc3.base import stream as stm
    from sc3.synth.server import Server
    worker_init()
    main.reset()
    del _LOG[:]
    srv = Server.default
    old = srv.latency
    srv.latency = lat
    res = {'score': None, 'exc': None, 'log': [], 'desc_changed': []}
    try:
        def go():
            if at is None:
                body()
            else:
                def rfunc():
                    if at > 0:
                        yield at
                    body()
                stm.Routine(rfunc).play()
            return main.process().list
        if budget:
            with _CallBudget(CALL_BUDGET):
                lst = go()
        else:
            lst = go()
        res['score'] = [norm(b) for b in lst]
    except progenum.StepBudgetExceeded:
        res['exc'] = 'BUDGET: no termination within %d calls' % CALL_BUDGET
    except Exception as e:
        res['exc'] = f'{type(e).__name__}: {e}'[:300]
    finally:
        srv.latency = old
        res['log'] = list(_LOG)
        main.reset()
        res['desc_changed'] = restore_instruments()
        if res['desc_changed']:
            main.reset()              # drop the /d_recv of the re-registration
    return res


def desc_disc(r, pre):
    if r.get('desc_changed'):
        c = r['desc_changed'][0]
        return [(f'{pre}instrument-description-changed', c[1], c[2],
                 f'playing changed the registered description of {c[0]} '
                 f'(control names, controls, has_gate): the next event '
                 f'played with this instrument sees other controls')]
    return []


# ---------------------------------------------------------------------------
# score parsing and comparison
# ---------------------------------------------------------------------------

ROOT = ['/g_new', 1, 0, 0]
ENDMARK = ['/c_set', 0, 0]


def parse_score(score):
    """-> (snew, nset, nfree, other); the NRT root-group and end-marker
    bundles are not part of the property and are dropped."""
    snew, nset, nfree, other = [], [], [], []
    for b in score:
        t = b[0]
        for m in b[1:]:
            if m == ROOT and t == 0.0:
                continue
            if m == ENDMARK:
                continue
            if not isinstance(m, list) or not m:
                other.append([t, m])
            elif m[0] == '/s_new' and len(m) >= 5:
                snew.append({'t': t, 'name': m[1], 'id': m[2],
                             'action': m[3], 'group': m[4], 'rest': m[5:]})
            elif m[0] == '/n_set' and len(m) >= 2:
                nset.append({'t': t, 'id': m[1], 'rest': m[2:]})
            elif m[0] == '/n_free' and len(m) == 2:
                nfree.append({'t': t, 'id': m[1]})
            else:
                other.append([t, m])
    return snew, nset, nfree, other


def pairs_of(rest):
    """control/value list -> (dict, problem)"""
    if '[' in rest or ']' in rest:
        # an arrayed value travels as '[' v0 v1 ... ']'
        folded, cur = [], None
        for x in rest:
            if x == '[' and cur is None:
                cur = []
            elif x == ']' and cur is not None:
                folded.append(cur)
                cur = None
            elif x in ('[', ']'):
                return None, 'unbalanced array brackets'
            elif cur is not None:
                cur.append(x)
            else:
                folded.append(x)
        if cur is not None:
            return None, 'unbalanced array brackets'
        rest = folded
    if len(rest) % 2:
        return None, 'odd number of control arguments'
    d = {}
    for k, v in zip(rest[::2], rest[1::2]):
        if not isinstance(k, str):
            return None, f'control name {k!r} is not a string'
        if isinstance(v, list):
            if not v or any(isinstance(x, bool) or
                            not isinstance(x, (int, float)) for x in v):
                return None, f'value {v!r} of {k} is not a list of numbers'
        elif isinstance(v, bool) or not isinstance(v, (int, float)):
            return None, f'value {v!r} of {k} is not a number'
        if k in d:
            return None, f'control {k} given twice'
        d[k] = v
    return d, None


def tag_of(pairs):
    f = pairs.get('freq') if pairs else None
    if isinstance(f, (int, float)) and f > 0:
        return int(round(ref.cpsmidi(f)))
    return None


def cmp_pairs(pre, spec, pairs, ctrls, out):
    """Compare the control/value dict of a message with a note_spec."""
    if spec.get('free'):
        return            # controls of the instrument unknown: not decided
    for c, cands in spec['required'].items():
        if c not in pairs:
            out.append((f'{pre}-control-missing', {c: cands}, pairs,
                        f'the event defines {c}, a control of the '
                        f'instrument, but the message does not carry it'))
        elif not ref.among(pairs[c], cands):
            out.append((f'{pre}-{c if c in ("freq", "amp") else "control"}'
                        f'-value', {c: cands}, {c: pairs[c]}, ''))
    for c, v in pairs.items():
        if c in spec['required']:
            continue
        if c in spec['optional']:
            if not ref.among(v, spec['optional'][c]):
                out.append((f'{pre}-{c if c in ("freq", "amp") else "control"}'
                            f'-value', {c: spec['optional'][c]}, {c: v},
                            'default key of the event: may be omitted, but '
                            'if sent it must be the resolved value'))
        elif c not in ctrls:
            out.append((f'{pre}-control-extra', sorted(ctrls), {c: v},
                        f'{c} is not a control of the instrument'))
        else:
            out.append((f'{pre}-control-extra', sorted(spec['required']),
                        {c: v}, f'the event does not define {c}'))


def compare(expected, score, lat):
    """expected: list of actions
         {'kind': 'note', 't', 'instr', 'action', 'group', 'spec', 'tag'}
         {'kind': 'mono', 'instr', 'action', 'group',
          'events': [{'t', 'spec', 'tag', 'rest'}]}
       (t = logical start time, latency not included).
    -> list of (disc, expected, observed, detail)"""
    out = []
    lat0 = lat
    snew, nset, nfree, other = parse_score(score)
    for o in other:
        out.append(('unexpected-message', None, o, ''))
    # ---- well-formedness, fresh ids
    ids = {}
    for s in snew:
        s['pairs'], prob = pairs_of(s['rest'])
        if prob:
            out.append(('snew-malformed', None, s['rest'], prob))
            s['pairs'] = {}
        if s['id'] in ids or s['id'] in (0, 1) or \
                isinstance(s['id'], bool) or not isinstance(s['id'], int):
            out.append(('node-id-not-fresh', 'an id not used before',
                        [x['id'] for x in snew], ''))
        ids[s['id']] = s
        s['tag'] = tag_of(s['pairs'])
    for n in nset:
        n['pairs'], prob = pairs_of(n['rest'])
        if prob:
            out.append(('nset-malformed', None, n['rest'], prob))
            n['pairs'] = {}
        n['gateoff'] = n['rest'] == ['gate', 0] or n['rest'] == ['gate', 0.0]
        n['tag'] = None if n['gateoff'] else tag_of(n['pairs'])
        if n['id'] not in ids:
            out.append(('unexpected-message', None,
                        ['/n_set', n['id']] + n['rest'],
                        'n_set for a node no s_new of this score created'))
    for n in nfree:
        if n['id'] not in ids:
            out.append(('unexpected-message', None, ['/n_free', n['id']],
                        'n_free for a node no s_new of this score created'))
    # ---- match expected starts with s_new messages
    starts = []
    for a in expected:
        if a['kind'] == 'note':
            starts.append((a, a))
        else:
            starts.append((a, a['events'][0]))
    tags = [e['tag'] for _, e in starts]
    alltags = tags + [e['tag'] for a in expected if a['kind'] == 'mono'
                      for e in a['events'][1:]
                      if not (e['rest'] and e['tag'] is None)]
    bytag = None not in alltags and len(set(alltags)) == len(alltags)
    matched = {}
    if bytag:
        obs = {}
        for s in snew:
            if s['tag'] in obs or s['tag'] not in tags:
                out.append(('note-extra', sorted(alltags),
                            [s['t'], s['name'], s['rest']],
                            'an s_new no event of the timeline accounts for'
                            + (' (a rest was played?)'
                               if s['tag'] in _RESTTAGS[0] else '')))
            else:
                obs[s['tag']] = s
        for i, (a, e) in enumerate(starts):
            if e['tag'] in obs:
                matched[i] = obs[e['tag']]
    else:
        # the order of simultaneous bundles is not decided: pair by time,
        # then instrument name
        order = sorted(range(len(starts)),
                       key=lambda i: (starts[i][1]['t'], starts[i][0]['instr'],
                                      str(starts[i][1]['tag'])))
        sn = sorted(snew, key=lambda s: (s['t'], str(s['name']),
                                         str(s['tag'])))
        for i, s in zip(order, sn):
            matched[i] = s
        for s in sn[len(order):]:
            out.append(('note-extra', len(order),
                        [s['t'], s['name'], s['rest']], ''))
    used_nsets = set()
    for i, (a, e) in enumerate(starts):
        s = matched.get(i)
        if s is None:
            out.append(('note-missing',
                        [e['t'] + a.get('lat', lat0), a['instr'], e['tag']],
                        [[x['t'], x['name'], x['rest']] for x in snew], ''))
            continue
        ctrls = a['ctrls'] if 'ctrls' in a else ctrls_of(a['instr'])
        lat = a.get('lat', lat0)     # an event may name its own server
        if not ref.close(s['t'], e['t'] + lat):
            out.append(('snew-time', e['t'] + lat, s['t'],
                        f'logical start {e["t"]} + latency {lat}'))
        if s['name'] not in a.get('names', [a['instr']]):
            out.append(('snew-name', a.get('names', a['instr']), s['name'],
                        ''))
        if s['action'] != a['action'] or isinstance(s['action'], bool):
            out.append(('snew-add-action', a['action'], s['action'], ''))
        if s['group'] != a['group'] or isinstance(s['group'], bool):
            out.append(('snew-group', a['group'], s['group'], ''))
        cmp_pairs('snew', e['spec'], s['pairs'], ctrls, out)
        mine = [(j, n) for j, n in enumerate(nset) if n['id'] == s['id']]
        gateoffs = [(j, n) for j, n in mine if n['gateoff']]
        if a['kind'] == 'note':
            for j, n in mine:
                used_nsets.add(j)
                if not n['gateoff']:
                    out.append(('unexpected-message', ['gate', 0],
                                ['/n_set', n['id']] + n['rest'],
                                'n_set other than the gate-off for a note'))
            for n in nfree:
                if n['id'] == s['id']:
                    out.append(('unexpected-message', None,
                                ['/n_free', n['id']], ''))
            if e['spec']['has_gate'] is None:
                pass          # unknown instrument: release not decided
            elif e['spec']['has_gate']:
                want = e['t'] + lat + e['spec']['sustain']
                if not gateoffs:
                    out.append(('gateoff-missing', want, None,
                                'instrument has a gate'))
                elif len(gateoffs) > 1:
                    out.append(('gateoff-duplicate', 1,
                                [n['t'] for _, n in gateoffs], ''))
                elif not ref.close(gateoffs[0][1]['t'], want):
                    out.append(('gateoff-time', want, gateoffs[0][1]['t'],
                                f'start {e["t"]} + latency {lat} + sustain '
                                f'{e["spec"]["sustain"]}'))
            elif gateoffs:
                out.append(('gateoff-unexpected', None,
                            [n['t'] for _, n in gateoffs],
                            'instrument has no gate'))
        else:
            # mono voice: later events are n_set messages to the same node;
            # release (gate-off or n_free) is not decided by the statement.
            sets = {n['tag']: (j, n) for j, n in mine if not n['gateoff']}
            for j, n in mine:
                used_nsets.add(j)
            exp_tags = set()
            for ev in a['events'][1:]:
                exp_tags.add(ev['tag'])
                if ev['rest']:
                    if ev['tag'] is not None and ev['tag'] in sets:
                        out.append(('rest-played', None,
                                    nset_repr(sets[ev['tag']][1]), ''))
                    continue
                if ev['tag'] not in sets:
                    out.append(('mono-set-missing',
                                [ev['t'] + lat, ev['tag']],
                                [nset_repr(n) for _, n in mine], ''))
                    continue
                n = sets[ev['tag']][1]
                if not ref.close(n['t'], ev['t'] + lat):
                    out.append(('mono-set-time', ev['t'] + lat, n['t'], ''))
                cmp_pairs('mono-set', ev['spec'], n['pairs'], ctrls, out)
            for tg, (j, n) in sets.items():
                if tg not in exp_tags:
                    out.append(('mono-set-extra', sorted(
                        t for t in exp_tags if t is not None),
                        nset_repr(n), ''))
    return out


_RESTTAGS = [set()]


def nset_repr(n):
    return [n['t'], '/n_set', n['id']] + n['rest']


def renumber(score):
    """Score with node ids replaced by their rank (for the outcome digest)."""
    ids = sorted({m[2] for b in score for m in b[1:]
                  if isinstance(m, list) and m and m[0] == '/s_new'
                  and len(m) > 2 and isinstance(m[2], int)})
    rank = {i: k for k, i in enumerate(ids)}
    out = []
    for b in score:
        nb = [b[0]]
        for m in b[1:]:
            if isinstance(m, list) and len(m) > 2 and m[0] == '/s_new':
                m = m[:2] + [rank.get(m[2], m[2])] + m[3:]
            elif isinstance(m, list) and len(m) > 1 and \
                    m[0] in ('/n_set', '/n_free'):
                m = m[:1] + [rank.get(m[1], m[1])] + m[2:]
            nb.append(m)
        out.append(nb)
    return out


# ---------------------------------------------------------------------------
# family K: key chains
# ---------------------------------------------------------------------------

K_AT, K_LAT = 0.5, 0.25


def scale_feat(given, scale_fn=False):
    s = given.get('scale')
    return '' if s is None else \
        ('@scalefn-' if scale_fn else '@scale-') + s


def k_lookup(given, key, scale_fn=False):
    from sc3.seq.event import event
    try:
        return norm(event(lib_kwargs(given, scale_fn))(key))
    except Exception as e:
        return ['EXC', f'{type(e).__name__}: {e}'[:200]]


def check_K(case, info):
    given = case['given']
    sfn = bool(case.get('scale_fn'))
    out = []
    feat = scale_feat(given, sfn)
    p, a, d = ref.pitch(given), ref.amp(given), ref.dur(given)
    want = {'note': p['note'], 'midinote': p['midinote'], 'freq': p['freq'],
            'amp': a['amp'], 'delta': [d['delta']],
            'sustain': [d['sustain']]}
    for k, v in given.items():
        if k != 'scale':
            want[k] = [v]             # an explicit key is returned as given
    obs = {}
    for key in sorted(want):
        v = k_lookup(given, key, sfn)
        obs[key] = v
        if isinstance(v, list) and v and v[0] == 'EXC':
            out.append((f'K:lookup-raises{feat}', {key: want[key]}, v,
                        f"event(...)('{key}')"))
        elif isinstance(v, bool) or not isinstance(v, (int, float)):
            out.append((f'K:lookup-{key}{feat}', {key: want[key]}, v,
                        'not a number'))
        elif not ref.among(v, want[key]):
            out.append((f'K:lookup-{key}{feat}', {key: want[key]}, v,
                        'explicit key must be returned unchanged'
                        if key in given else 'documented chain'))
    # play it: full instrument (all controls), inside a routine
    kw = dict(given, instrument=instr_name(FULL))

    def body():
        from sc3.seq.event import event
        event(lib_kwargs(kw, sfn)).play()
    r = run_score(K_LAT, body, at=K_AT, budget=False)
    info['outcome'] = [obs, renumber(r['score']) if r['score'] else r['exc']]
    out += desc_disc(r, 'K:')
    if r['score'] is None or r['log']:
        out.append((f'K:play-raises{feat}', 'one /s_new',
                    r['exc'] or r['log'], 'event.play() inside a routine'))
    else:
        exp = [{'kind': 'note', 't': K_AT, 'instr': instr_name(FULL),
                'action': 0, 'group': 1, 'tag': None,
                'spec': ref.note_spec(given, CTRLS)}]
        for disc, e, o, det in compare(exp, r['score'], K_LAT):
            out.append((f'K:{disc}{feat}', e, o, det))
    return out


PV = {'freq': [440.0, 100.0], 'midinote': [69, 60.5], 'note': [7, 0, -3],
      'degree': [2, 0, 7, -1, 3.0, -8]}
MAINS = ['freq', 'midinote', 'note', 'degree']
MODS = {'mtranspose': [1, -2], 'gtranspose': [1, 0.5], 'octave': [4, 6.0],
        'root': [2, -1], 'harmonic': [2, 0.5], 'detune': [3, -1.5],
        'ctranspose': [1, -12]}
SCALES_Q = [None, 'major_x', 'minorpent', 'chromatic', 'major_just',
            'chromatic_cm', 'major_et12', 'whole_rng']
SCALES_T = SCALES_Q + ['major_et24', 'bp']
AMPV = {'amp': [0.25], 'db': [-6, 0], 'velocity': [64, 127]}
DURV = {'dur': [0.5, 2], 'stretch': [2, 0.5], 'legato': [0.5, 1.0],
        'sustain': [1.5], 'delta': [0.75]}


def main_combos():
    """All 16 subsets of the main pitch keys: singles with every value,
    larger subsets with values rotated by subset index."""
    out = [{}]
    for k in MAINS:
        out += [{k: v} for v in PV[k]]
    n = 0
    for r in (2, 3, 4):
        for sub in itertools.combinations(MAINS, r):
            out.append({k: PV[k][(n + i) % len(PV[k])]
                        for i, k in enumerate(sub)})
            n += 1
    return out


def opt_product(table, nvals):
    """All ways to leave each key absent or give it one of its first nvals
    values; key order fixed."""
    keys = list(table)
    choices = [[None] + table[k][:nvals] for k in keys]
    for combo in itertools.product(*choices):
        yield {k: v for k, v in zip(keys, combo) if v is not None}


K_LEVELS_T = {'mtranspose': 2, 'gtranspose': 1, 'octave': 2, 'root': 1,
              'harmonic': 2, 'detune': 1, 'ctranspose': 2}


def mod_product(tier):
    """All ways to leave each modifier absent or give it one of its values:
    quick 1 value each (2^7), thorough 2 values for four of them (3^4 2^3)."""
    keys = list(MODS)
    choices = [[None] + MODS[k][:1 if tier == 'quick' else K_LEVELS_T[k]]
               for k in keys]
    for combo in itertools.product(*choices):
        yield {k: v for k, v in zip(keys, combo) if v is not None}


def gen_K_pitch(tier, shard=0, of=1):
    """Main-key subsets x modifier combinations x scales; sharded on the
    modifier combination index."""
    scales = SCALES_Q if tier == 'quick' else SCALES_T
    mains = main_combos()
    for i, mods in enumerate(mod_product(tier)):
        if i % of != shard:
            continue
        for sc in scales:
            for m in mains:
                g = dict(m)
                g.update(mods)
                if sc is not None:
                    g['scale'] = sc
                yield {'fam': 'K', 'given': g}


def gen_K_rest(tier):
    # tunings, the scale given as a function-valued key
    for sc in ['major_just'] if tier == 'quick' else \
            ['major_just', 'minorpent', 'major_et24', 'bp']:
        for mods in ({}, {'mtranspose': 1}, {'octave': 4, 'gtranspose': 1},
                     {'root': 2, 'ctranspose': 1, 'harmonic': 2}):
            for m in main_combos():
                g = dict(m)
                g.update(mods)
                g['scale'] = sc
                yield {'fam': 'K', 'given': g, 'scale_fn': True}
    for a in opt_product(AMPV, 2):
        for d in opt_product(DURV, 2):
            if not a and not d:
                continue
            g = dict(a)
            g.update(d)
            yield {'fam': 'K', 'given': g}
    if tier != 'quick':
        # second value of the modifiers that have one level in the product
        for k, lv in K_LEVELS_T.items():
            if lv == 1:
                for sc in SCALES_T:
                    for m in main_combos():
                        g = dict(m)
                        g[k] = MODS[k][1]
                        if sc is not None:
                            g['scale'] = sc
                        yield {'fam': 'K', 'given': g}
        # cross of the three chains (reduced values)
        for m in main_combos():
            for mods in ({}, {'octave': 4, 'harmonic': 2},
                         {'mtranspose': 1, 'ctranspose': 1, 'detune': 3}):
                for a in opt_product(AMPV, 1):
                    for d in opt_product(DURV, 1):
                        if not (a or d) or not (m or mods):
                            continue
                        g = dict(m)
                        g.update(mods)
                        g.update(a)
                        g.update(d)
                        yield {'fam': 'K', 'given': g}


def nontrivial_K(case):
    g = case['given']
    nm = sum(k in g for k in MAINS)
    chains = [nm >= 2,
              nm >= 1 and any(k in g for k in MODS) or 'scale' in g,
              sum(k in g for k in AMPV) >= 2,
              sum(k in g for k in DURV) >= 2]
    return any(chains)


# ---------------------------------------------------------------------------
# family P: playing one or two events
# ---------------------------------------------------------------------------

P_PITCH = [{}, {'freq': 330.0}, {'degree': 2}]
P_AMP = [{}, {'amp': 0.25}, {'db': -6}]
P_PAN = [{}, {'pan': 0.5}]
P_OUT = [{}, {'out': 2}]
P_CUT = [{}, {'cutoff': 300}]
P_AT = [None, 0, 0.5, 1.25]
P_LAT = [0, 0.25]
P_DUR = [{}, {'legato': 0.5}, {'sustain': 2}, {'dur': 0.5, 'stretch': 2}]
P_SRV = [{}, {'add_action': 'addToTail'}, {'group': 7},
         {'add_action': 'addAfter', 'group': 1000}]


def p_contexts(tier):
    if tier != 'quick':
        # every (time, latency) x every pair of (duration keys, server keys)
        # values, the pairs arranged in two 4x4 latin squares
        return [(at, lat, P_DUR[i], P_SRV[(i + j) % 4])
                for at in P_AT for lat in P_LAT for i in range(4)
                for j in (0, 1 + P_LAT.index(lat))]
    # quick: 4 contexts in which every value of every axis occurs
    return [(P_AT[i], P_LAT[i % 2], P_DUR[i], P_SRV[i]) for i in range(4)]


def gen_P(tier, mask):
    ctxs = p_contexts(tier)
    for pk, ak, pa, ou, cu in itertools.product(P_PITCH, P_AMP, P_PAN,
                                                P_OUT, P_CUT):
        g = {}
        for part in (pk, ak, pa, ou, cu):
            g.update(part)
        for at, lat, d, s in ctxs:
            gg = dict(g)
            gg.update(d)
            gg.update(s)
            yield {'fam': 'P', 'at': at, 'lat': lat,
                   'events': [{'instr': mask, 'given': gg, 'wait': 0}]}


def gen_P_pairs(tier):
    """Two events from one routine: fresh ids, independent messages."""
    pool = [(19, {'degree': 2, 'amp': 0.25}), (33, {'freq': 330.0,
                                                    'cutoff': 300}),
            (63, {'midinote': 61, 'dur': 0.5}), (0, {'pan': 0.5})]
    for (m1, g1), (m2, g2) in itertools.product(pool, pool):
        for wait in (0, 0.5):
            for lat in P_LAT:
                for at in (None, 0.75) if wait == 0 else (0.75,):
                    yield {'fam': 'P', 'at': at, 'lat': lat, 'events': [
                        {'instr': m1, 'given': g1, 'wait': 0},
                        {'instr': m2, 'given': g2, 'wait': wait}]}


# ---- extension: values, spellings, objects and entry points the first
# generator does not contain

PX_EVENTS = [
    {'freq': 330.0, 'amp': 0.25, 'pan': 0.5, 'out': 2, 'cutoff': 300},
    {'degree': 2, 'db': -6},
    # zero / falsy values are values
    {'freq': 100, 'amp': 0, 'pan': 0, 'out': 0, 'cutoff': 0},
    {'midinote': 60, 'amp': 0.0, 'pan': -1.0, 'out': 0.0, 'cutoff': -5},
    {'note': 0, 'velocity': 0, 'pan': -0.25},
    {},
]
PX_ACTIONS = ['addToHead', 'addToTail', 'addBefore', 'addAfter',
              'addReplace', 'head', 'tail', 'before', 'after', 'replace',
              'h', 't', 'b', 'a', 'r', 0, 1, 2, 3, 4]
PX_VIA = ['play_dict', 'play_kwargs', 'play_obj', 'play_dict_kwargs',
          'ctor_kwargs', 'ctor_mixed', 'ctor_copy']


def px_contexts():
    """(at, lat, extra keys, via)"""
    out = []
    for i, a in enumerate(PX_ACTIONS):
        out.append((0.5 if i % 2 else None, 0.25,
                    {'add_action': a, 'group': 7 + i}, 'method'))
    out += [(0.5, 0.25, {'group': {'Group': 1234}}, 'method'),
            (None, 0, {'group': {'Synth': 1235}, 'add_action': 'addAfter'},
             'method'),
            (0.5, 0.25, {'group': 0}, 'method'),
            (0.5, 0.25, {'server': 'other'}, 'method'),
            (None, 0, {'server': 'other', 'legato': 0.5}, 'method'),
            (0.5, 0.25, {'type': 'note'}, 'method'),
            # a sustain of zero is a sustain; non-dyadic time and latency
            (0.5, 0.25, {'sustain': 0}, 'method'),
            (None, 0.25, {'legato': 0}, 'method'),
            (0.75, 0, {'dur': 0, 'legato': 2}, 'method'),
            (1 / 3, 0.1, {'dur': 0.3, 'legato': 0.7}, 'method'),
            (0.1, 0.2, {'sustain': 0.1}, 'method')]
    for v in PX_VIA:
        out += [(None, 0.25, {}, v), (0.5, 0, {'legato': 0.5}, v),
                (1.25, 0.25, {'add_action': 'addToTail', 'group': 7}, v)]
    return out


def gen_P_ext(tier):
    masks = list(range(64))          # both tiers (cheap)
    for mask in masks:
        for g in PX_EVENTS:
            for at, lat, extra, via in px_contexts():
                ev = {'instr': mask, 'given': dict(g, **extra), 'wait': 0}
                if via != 'method':
                    ev['via'] = via
                yield {'fam': 'P', 'at': at, 'lat': lat, 'events': [ev]}
    # an arrayed control; the variant key; an instrument nobody registered
    for at, lat in ((None, 0.25), (0.5, 0)):
        for fr in ({'tuple': [100, 200, 300]}, [100, 200.5, 300],
                   {'tuple': [0, 0, 0]}, None):
            for am in ({}, {'amp': 0.25}, {'amp': 0}):
                g = dict(am)
                if fr is not None:
                    g['freqs'] = fr
                yield {'fam': 'P', 'at': at, 'lat': lat, 'events': [
                    {'instr': 'c14arr', 'given': g, 'wait': 0}]}
        for instr in ('c14var', 19, 3):
            for g in ({'variant': 'a'}, {'variant': 'a', 'freq': 330.0,
                                         'amp': 0.25}):
                yield {'fam': 'P', 'at': at, 'lat': lat, 'events': [
                    {'instr': instr, 'given': g, 'wait': 0}]}
        yield {'fam': 'P', 'at': at, 'lat': lat, 'events': [
            {'instr': 'c14var', 'given': {'freq': 330.0}, 'wait': 0}]}
        for g in ({}, {'freq': 330.0, 'amp': 0.25}, {'degree': 2,
                                                     'sustain': 0.5}):
            yield {'fam': 'P', 'at': at, 'lat': lat, 'events': [
                {'instr': 'c14none', 'given': g, 'wait': 0}]}


def p_feature(case):
    """Kind suffix: situations with a known finding of their own."""
    for e in case['events']:
        if e['instr'] == 'c14none':
            return '@unregistered-instrument'
        if 'variant' in e['given']:
            return '@variant'
    return ''


def play_event(e):
    """Play one event of a P case through the entry point it names."""
    from sc3.seq.event import event
    from sc3.base.play import play
    kw = lib_kwargs(dict(e['given'], instrument=instr_name(e['instr'])))
    via = e.get('via', 'method')
    if via == 'method':
        event(kw).play()
    elif via == 'play_dict':
        play(kw)
    elif via == 'play_kwargs':
        play(**kw)
    elif via == 'play_obj':
        play(event(kw))
    elif via == 'play_dict_kwargs':
        ks = sorted(kw)
        play({k: kw[k] for k in ks[::2]}, **{k: kw[k] for k in ks[1::2]})
    elif via == 'ctor_kwargs':          # the other forms of the constructor
        event(**kw).play()
    elif via == 'ctor_mixed':
        ks = sorted(kw)
        event({k: kw[k] for k in ks[::2]},
              **{k: kw[k] for k in ks[1::2]}).play()
    elif via == 'ctor_copy':
        event(event(kw)).play()
    else:
        raise core.HarnessError(f'bad via {via}')


def p_expect(e, t, lat):
    g = e['given']
    name = instr_name(e['instr'])
    spec = ref.note_spec(g, ctrls_of(name))
    if name == 'c14arr':
        # note_spec knows scalar controls only
        fr = g.get('freqs')
        if fr is not None:
            spec['required']['freqs'] = [fr['tuple'] if isinstance(fr, dict)
                                         else fr]
    x = {'kind': 'note', 't': t, 'instr': name, 'tag': None,
         'action': ref.add_action_number(g.get('add_action', 'addToHead')),
         'group': group_number(g.get('group', 1)), 'spec': spec}
    if XINSTR.get(name, 0) is None:
        spec['free'] = True
        spec['has_gate'] = None
    if 'variant' in g and name in X_VARIANTS:
        # Event help: the definition's variant is addressed as name.variant;
        # the statement only says "the instrument name": both accepted
        x['names'] = [name, f'{name}.{g["variant"]}']
    if g.get('server') == 'other':
        x['lat'] = lat + OTHER_LAT_OFFSET
        x['group'] = group_number(g.get('group', OTHER_GROUP))
    return x


def check_P(case, info):
    evs = case['events']
    at, lat = case['at'], case['lat']
    feat = p_feature(case)

    def body_all():
        for e in evs:
            play_event(e)

    def body_seq():
        from sc3.base import stream as stm

        def rfunc():
            if at:
                yield at
            for e in evs:
                if e['wait']:
                    yield e['wait']
                play_event(e)
        stm.Routine(rfunc).play()
    if any(e['given'].get('server') == 'other' for e in evs):
        other_server().latency = lat + OTHER_LAT_OFFSET
    waits = any(e['wait'] for e in evs)
    if waits:
        r = run_score(lat, body_seq, at=None, budget=False)
    else:
        r = run_score(lat, body_all, at=at, budget=False)
    info['outcome'] = renumber(r['score']) if r['score'] else r['exc']
    if r['score'] is None or r['log']:
        return desc_disc(r, 'P:') + [(f'P:play-raises{feat}',
                                      f'{len(evs)} /s_new',
                                      r['exc'] or r['log'], '')]
    exp, t = [], (at or 0)
    for e in evs:
        t += e['wait']
        exp.append(p_expect(e, t, lat))
    return desc_disc(r, 'P:') + [
        (f'P:{disc}{feat}', e, o, det)
        for disc, e, o, det in compare(exp, r['score'], lat)]


def nontrivial_P(case):
    """The instrument's controls and the event's keys overlap only partly
    (a defined key is not a control, or a control is not defined), or two
    events share the routine."""
    if len(case['events']) > 1:
        return True
    e = case['events'][0]
    if isinstance(e['instr'], str):
        return bool(e['given'])
    cs = set(ctrls_of(instr_name(e['instr']))) - {'gate'}
    ks = {k for k in e['given'] if k in CTRLS or k in ('degree', 'db')}
    ks = {('freq' if k == 'degree' else 'amp' if k == 'db' else k)
          for k in ks}
    return bool(cs - ks) and bool(ks - cs) or bool(cs & ks) and cs != ks


# ---------------------------------------------------------------------------
# family R: event re-use (play, modify, play again)
# ---------------------------------------------------------------------------

R_MASKS = [7, 23, 3, 19, 1, 17, 6, 22]   # freq/amp/pan subsets, without and
#                                           with gate (bit 16)
R_FIRST = [{'freq': 440.0, 'amp': 0.2}, {'freq': 440.0, 'amp': 0.2,
                                         'pan': -0.5}, {'amp': 0.2}]
R_CHANGE = [{}, {'freq': 220.0}, {'amp': 0.5}, {'pan': 0.5},
            {'freq': 220.0, 'amp': 0.5}, {'amp': 0.5, 'pan': 0.5},
            {'freq': 220.0, 'pan': 0.5}]
R_HOW = ['inplace', 'copy', 'proto']
R_PROTO_DUR = 0.5


def gen_R(tier):
    """An event is played, one or two of its keys are changed (in place, on
    a copy(), or by a Pbind that gets the played event as `proto`), and it
    is played again later in the same routine.  Only explicit freq/amp/pan
    are used (no harmonic/detune, no degree) so that the value of the event
    at the second play does not depend on whether play() writes resolved
    keys back into the event (not decided by the statement)."""
    waits = [0.5] if tier == 'quick' else [0.5, 0.25, 1]
    for mask in R_MASKS:
        for first in R_FIRST:
            for change in R_CHANGE:
                for how in R_HOW:
                    for at in (0, 0.5):
                        for lat in (0, 0.25):
                            for w in waits:
                                yield {'fam': 'R', 'instr': mask,
                                       'first': first, 'change': change,
                                       'how': how, 'at': at, 'lat': lat,
                                       'wait': w}


def check_R(case, info):
    name = instr_name(case['instr'])
    first, change, how = case['first'], case['change'], case['how']
    at, lat, wait = case['at'], case['lat'], case['wait']

    def body():
        from sc3.seq.event import event
        from sc3.base import stream as stm
        from sc3.seq.patterns.eventpatterns import Pbind
        from sc3.seq.patterns.listpatterns import Pseq

        def rfunc():
            if at:
                yield at
            e = event(dict(first, instrument=name))
            e.play()
            yield wait
            if how == 'inplace':
                for k, v in change.items():
                    e[k] = v
                e.play()
            elif how == 'copy':
                e2 = e.copy()
                for k, v in change.items():
                    e2[k] = v
                e2.play()
            else:
                Pbind(dict(change, dur=Pseq([R_PROTO_DUR]))).play(proto=e)
        stm.Routine(rfunc).play()
    r = run_score(lat, body, at=None)
    info['outcome'] = renumber(r['score']) if r['score'] else r['exc']
    out = desc_disc(r, 'R:')
    if r['score'] is None or r['log']:
        return out + [(f'R:play-raises@{how}', '2 /s_new',
                       r['exc'] or r['log'], '')]
    second = dict(first)
    second.update(change)
    if how == 'proto':
        second['dur'] = R_PROTO_DUR
    ctrls = ctrls_of(name)
    exp = [{'kind': 'note', 't': at + dt, 'instr': name, 'action': 0,
            'group': 1, 'tag': None, 'spec': ref.note_spec(g, ctrls)}
           for dt, g in ((0, first), (wait, second))]
    for disc, e, o, det in compare(exp, r['score'], lat):
        out.append((f'R:{disc}@{how}', e, o,
                    (det + ' | the event at the second play defines '
                     + core.canon(second))[:600]))
    return out


def nontrivial_R(case):
    """The second play differs from the first in a key the instrument has
    as a control."""
    return any(k in ctrls_of(instr_name(case['instr']))
               for k in case['change'])


# ---------------------------------------------------------------------------
# family D: an instrument name that is defined more than once
# ---------------------------------------------------------------------------
#
# One routine: (re)define the name with a list of controls (in the default
# SynthDescLib, or in a second library that the event names with its
# `synth_lib` key), play an event / Pbind / Pmono with it, wait, redefine the
# SAME name with another set / order of controls (with or without gate), play
# again, ...  Every message must carry the controls of the definition that is
# current (in the library the event uses) when the event is played.  The name
# is unique per case (derived from the case), so nothing a case leaves behind
# in the process - in the library or in any cache of the code under test -
# can reach another case, and a replay in a fresh process sees the same.

D_DEFS = {'A': ['freq', 'amp', 'gate'],
          'B': ['freq', 'amp', 'cutoff', 'pan', 'gate'],
          'C': ['cutoff', 'freq'],
          'D': ['amp', 'freq', 'gate'],
          'E': ['freq', 'pan']}
D_GIVEN = [{'amp': 0.25, 'cutoff': 300, 'pan': 0.5}, {'cutoff': 300},
           {'amp': 0.25, 'pan': -0.5}]
D_KIND_TIMES = {'note': [0.0], 'pbind': [0.0, 0.5], 'pbind3': [0.0, 0.5, 1.0],
                'pmono': [0.0, 0.5]}
D_SECOND_LIB = 'c14second'


def d_name(case):
    return 'c14r' + core.digest({k: v for k, v in case.items()})


def d_lib(which):
    from sc3.synth.synthdesc import SynthDescLib
    if which == 'default':
        return SynthDescLib.default
    if D_SECOND_LIB not in SynthDescLib.all:
        SynthDescLib(D_SECOND_LIB)
    return SynthDescLib.get_lib(D_SECOND_LIB)


def d_define(name, ctrls, which, remove_first=False):
    from sc3.synth.synthdef import SynthDef
    from sc3.synth.ugens import Out, DC
    src = 'def f(%s):\n    Out.ar(0, DC.ar(0))\n' % \
        ', '.join(f'{c}=0.5' for c in ctrls)
    ns = {'Out': Out, 'DC': DC}
    exec(src, ns)
    lib = d_lib(which)                   # creates the second library
    if remove_first:
        lib.remove_at(name)
    sdef = SynthDef(name, ns['f'])
    _D_DEFINED.append(sdef)
    sdef.add(None if which == 'default' else D_SECOND_LIB)


_D_DEFINED = []
_D_KEEP = []


def d_forget(name):
    """The worker's instrument tables are as before the case.  The
    definitions of the case become garbage here: their byte buffer (a
    memoryview exported by a BytesIO, SynthDef.as_bytes) is released first,
    CPython aborts when the cycle collector frees such a pair in the wrong
    order."""
    for which in ('default', 'second'):
        d_lib(which).synth_descs.pop(name, None)
    for sdef in _D_DEFINED:
        try:
            buf = sdef._bytes
            sdef._bytes = None
            if buf is not None:
                buf.release()
        except Exception:
            _D_KEEP.append(sdef)         # never collected instead
    del _D_DEFINED[:]


def d_step_pattern(st, name, base):
    """Plain-data pattern of a pattern step (without the synth_lib key)."""
    n = len(D_KIND_TIMES[st['play']])
    d = dict(st['given'])
    d['midinote'] = ['Pseq', list(range(base, base + n)), 1]
    d['dur'] = ['Pseq', [0.5] * n, 1]
    if st['play'] == 'pmono':
        return ['Pmono', name, d]
    d['instrument'] = name
    return ['Pbind', d]


def d_play(st, name, base):
    from sc3.seq.event import event
    from sc3.seq.patterns import eventpatterns as ep
    extra = {} if st['lib'] == 'default' else {'synth_lib': d_lib(st['lib'])}
    if st['play'] == 'note':
        event(dict(st['given'], instrument=name, midinote=base,
                   **extra)).play()
        return
    pat = d_step_pattern(st, name, base)
    keys = pat[1] if pat[0] == 'Pbind' else pat[2]
    keys = {k: lib_vp(k, v) for k, v in keys.items()}
    keys.update(extra)
    if pat[0] == 'Pmono':
        ep.Pmono(name, keys).play()
    else:
        ep.Pbind(keys).play()


def d_base(i):
    return 40 + 10 * i


def d_expected(case, name):
    """Actions expected for the case; the definition that counts for an event
    is the last one made in its library at or before its time (cases are
    generated so that no event of a running pattern coincides with a later
    redefinition)."""
    hist = {'default': [], 'second': []}      # library -> [(time, ctrls)]
    t = case['at'] or 0

    def ctrls_at(which, when):
        cur = None
        for tt, c in hist[which]:
            if tt <= when:
                cur = c
        if cur is None:
            raise core.HarnessError('play before any definition')
        return cur
    # definitions first (times), then the plays
    starts, tt = [], t
    for st in case['steps']:
        if st['def'] is not None:
            hist[st['lib']].append((tt, D_DEFS[st['def']]))
        starts.append(tt)
        tt += st['wait']
    def_times = [x for h in hist.values() for x, _ in h]
    exp = []
    for i, st in enumerate(case['steps']):
        base, t0 = d_base(i), starts[i]
        times = [t0 + x for x in D_KIND_TIMES[st['play']]]
        for x in times[1:]:
            if any(x == dt for dt in def_times):
                raise core.HarnessError('event coincides with a redefinition')
        if st['play'] == 'pmono':
            ctrls = ctrls_at(st['lib'], t0)
            if any(ctrls_at(st['lib'], x) is not ctrls for x in times):
                raise core.HarnessError('Pmono voice across a redefinition '
                                        'is not decided')
            voice = {'kind': 'mono', 'instr': name, 'ctrls': ctrls,
                     'action': 0, 'group': 1, 'events': []}
            for k, x in enumerate(times):
                g = dict(st['given'], midinote=base + k)
                voice['events'].append({'t': x, 'tag': base + k,
                                        'rest': False,
                                        'spec': ref.note_spec(g, ctrls)})
            exp.append(voice)
        else:
            for k, x in enumerate(times):
                ctrls = ctrls_at(st['lib'], x)
                g = dict(st['given'], midinote=base + k)
                if st['play'] != 'note':
                    g['dur'] = 0.5
                exp.append({'kind': 'note', 't': x, 'instr': name,
                            'ctrls': ctrls, 'action': 0, 'group': 1,
                            'tag': base + k,
                            'spec': ref.note_spec(g, ctrls)})
    return exp


def d_feature(case):
    if any(st['lib'] != 'default' for st in case['steps']):
        return '@second-library'
    return '@redefined'


def check_D(case, info):
    name = d_name(case)
    at, lat = case['at'], case['lat']
    feat = d_feature(case)

    def body():
        from sc3.base import stream as stm

        def rfunc():
            if at:
                yield at
            for i, st in enumerate(case['steps']):
                if st['def'] is not None:
                    d_define(name, D_DEFS[st['def']], st['lib'],
                             bool(st.get('remove')))
                d_play(st, name, d_base(i))
                if st['wait']:
                    yield st['wait']
        stm.Routine(rfunc).play()
    try:
        r = run_score(lat, body, at=None)
    finally:
        d_forget(name)          # the worker's instrument table is as before
    score = None
    if r['score'] is not None:
        # the definition messages are not part of the property
        score = []
        for b in r['score']:
            nb = [m for m in b[1:] if not (isinstance(m, list) and m
                                           and m[0] == '/d_recv')]
            if nb or len(b) == 1:
                score.append([b[0]] + nb)
    info['outcome'] = renumber(score) if score else r['exc']
    out = desc_disc(r, 'D:')
    if score is None or r['log']:
        return out + [(f'D:play-raises{feat}', 'the notes of every step',
                       r['exc'] or r['log'], '')]
    for disc, e, o, det in compare(d_expected(case, name), score, lat):
        out.append((f'D:{disc}{feat}', e, o,
                    (det + ' | definitions in order: ' + ', '.join(
                        f'{st["lib"]}:{D_DEFS[st["def"]]}'
                        for st in case['steps'] if st['def']))[:600]))
    return out


def gen_D(tier):
    q = tier == 'quick'
    names = sorted(D_DEFS)
    kinds1 = ['note', 'pbind', 'pmono', 'pbind3']
    kinds2 = ['note', 'pbind', 'pmono']
    n = 0

    def step(d, lib, play, g, wait, remove=False):
        st = {'def': d, 'lib': lib, 'play': play, 'given': D_GIVEN[g % 3],
              'wait': wait}
        if remove:
            st['remove'] = True
        return st

    def case(steps):
        nonlocal n
        n += 1
        return {'fam': 'D', 'at': [None, 0.5][n % 2], 'lat': [0.25, 0][n % 3
                                                                       == 0],
                'steps': steps}
    for d1 in names:
        for d2 in names:
            if d1 == d2:
                continue
            for k1 in kinds1:
                for k2 in kinds2:
                    for g in range(3):
                        for w in (0.75,) if q else (0.75, 2.25):
                            # the name is added again in the default library
                            yield case([step(d1, 'default', k1, g, w),
                                        step(d2, 'default', k2, g + 1, 0)])
                            if k1 == 'pbind3' and w == 0.75:
                                continue      # one library at a time below
                            # the same name in a second library
                            yield case([step(d1, 'default', k1, g, w),
                                        step(d2, 'second', k2, g + 1, w),
                                        step(None, 'default', k2, g + 2, 0)])
                            yield case([step(d1, 'second', k1, g, w),
                                        step(d2, 'default', k2, g + 1, w),
                                        step(None, 'second', 'note', g + 2,
                                             0)])
                # removed, then added again
                yield case([step(d1, 'default', k1, 0, 2.25),
                            step(d2, 'default', 'note', 0, 0, remove=True)])
    # three definitions in a row
    for d1, d2, d3 in itertools.permutations(names, 3):
        for i, (k1, k2, k3) in enumerate(
                [('note', 'note', 'note'), ('pbind3', 'pmono', 'note'),
                 ('pmono', 'pbind3', 'pbind')]):
            if q and (names.index(d1) + names.index(d2) + i) % 3:
                continue
            yield case([step(d1, 'default', k1, i, 0.75),
                        step(d2, 'default', k2, i + 1, 0.75),
                        step(d3, 'default', k3, i + 2, 0)])


def nontrivial_D(case):
    """A later play defines a control on which the definitions differ."""
    defs = [D_DEFS[st['def']] for st in case['steps'] if st['def']]
    diff = set()
    for a in defs:
        for b in defs:
            diff |= set(a) ^ set(b)
    return any(k in diff for st in case['steps'][1:] for k in st['given'])


# ---------------------------------------------------------------------------
# family S: players
# ---------------------------------------------------------------------------

I_FA, I_FAG, I_FGC = 3, 19, 49          # freq+amp, +gate, freq+gate+cutoff
DURS = [0.25, 0.5, 1]


def dur_seqs(maxlen):
    out = []
    for n in range(1, maxlen + 1):
        out += [list(c) for c in itertools.product(DURS, repeat=n)]
    return out


def leaf(durs, base, instr=I_FA, extra=None, rest=None, inf=False):
    """Pbind dict: unique midinote tags base, base+1, ...; `rest` =
    (index, form) turns one event into a rest."""
    n = len(durs)
    tags = list(range(base, base + n))
    d = {'instrument': instr_name(instr)}
    durv = list(durs)
    if rest is not None:
        i, form = rest
        if form == 'type':
            d['type'] = ['Pseq', ['rest' if j == i else 'note'
                                  for j in range(n)], 'inf' if inf else 1]
        elif form == 'key':
            tags[i] = {'Rest': None}
        elif form == 'dur':
            durv[i] = {'Rest': durv[i]}
        elif form == 'amp':
            # a rest through a key that is neither pitch nor duration
            d['amp'] = ['Pseq', [{'Rest': 0.1} if j == i else 0.2
                                 for j in range(n)], 'inf' if inf else 1]
        elif form == 'delta':
            d['delta'] = ['Pseq', [{'Rest': durv[j]} if j == i else durv[j]
                                   for j in range(n)], 'inf' if inf else 1]
    if inf:
        d['midinote'] = ['Pseries', base, 1] if rest is None or \
            rest[1] != 'key' else ['Pseq', tags, 'inf']
        d['dur'] = ['Pseq', durv, 'inf']
    else:
        d['midinote'] = ['Pseq', tags, 1]
        d['dur'] = ['Pseq', durv, 1]
    if extra:
        d.update(extra)
    return d


def pb(*a, **k):
    return ['Pbind', leaf(*a, **k)]


def pm(durs, base, instr=I_FAG, artic=False, **k):
    d = leaf(durs, base, instr, **k)
    del d['instrument']
    if artic:
        return ['Pmono', instr_name(instr), d, {'articulate': True}]
    return ['Pmono', instr_name(instr), d]


def pbc(durs, base, total, instr=I_FA, inf=True):
    """Pbind whose dur pattern is limited by Pconst(.., total)."""
    d = leaf(durs, base, instr, inf=True)
    d['dur'] = ['Pconst', ['Pseq', list(durs), 'inf' if inf else 1], total]
    return ['Pbind', d]


def pbk(durs, base, instr=I_FAG, rest=None, second='dur'):
    """Pbind with the key set (midinote, dur) [or (midinote, legato)] fed
    by one pattern of pairs."""
    d = {'instrument': instr_name(instr)}
    tags = [base + i for i in range(len(durs))]
    if rest is not None:
        tags[rest] = {'Rest': None}
    if second == 'dur':
        d['midinote+dur'] = ['Pseq', [[t, x] for t, x in zip(tags, durs)], 1]
    else:
        d['midinote+legato'] = ['Pseq', [[t, 0.5 + 0.25 * i] for i, t in
                                         enumerate(tags)], 1]
        d['dur'] = ['Pseq', list(durs), 1]
    return ['Pbind', d]


EXTRAS = [None, {'stretch': 2}, {'legato': 0.5, 'amp': 0.25},
          {'delta': ['Pseq', [0.5, 0.25, 0.25, 0.5], 1]},
          {'stretch': 0.5, 'sustain': 1.5}]
MARK = ['Pbind', {'instrument': instr_name(I_FA),
                  'midinote': ['Pseq', [100], 1], 'dur': 0.5}]
STARTS = [[None, 'sys'], [0.75, 'sys']]


def gen_S(tier):
    q = tier == 'quick'
    d3 = dur_seqs(3)
    d2 = dur_seqs(2)
    dmax = d3 if q else dur_seqs(4)
    lat = 0.25

    def case(p, start=None, lt=lat, **opts):
        at, clock = start or STARTS[0]
        c = {'fam': 'S', 'pat': p, 'at': at, 'clock': clock, 'lat': lt}
        c.update(opts)
        return c
    # S1 single Pbind
    for ds in dmax:
        for instr in (I_FA, I_FAG):
            for ex in EXTRAS:
                for st in STARTS:
                    yield case(pb(ds, 40, instr, extra=ex), st)
    for ds in d3:
        yield case(pb(ds, 40, I_FGC), [0.5, 'tempo'], 0)
        yield case(pb(ds, 40, I_FAG), [None, 'tempo'], 0.25)
    # S1r rests in a Pbind stream
    for ds in d3:
        for i in range(len(ds)):
            for form in ('type', 'key', 'dur', 'amp', 'delta'):
                yield case(pb(ds, 40, I_FAG, rest=(i, form)))
    # S2 Pmono
    for ds in dmax:
        for instr in (I_FAG, I_FA):
            for st in STARTS:
                yield case(pm(ds, 40, instr), st)
    for ds in d3:
        for i in range(1, len(ds)):
            for form in ('key', 'dur'):     # Pmono owns the `type` key
                yield case(pm(ds, 40, I_FAG, rest=(i, form)))
        yield case(pm(ds, 40, I_FGC, extra={'stretch': 2, 'cutoff': 300}))
    # S3 Ppar
    for a in d3:
        for b in d3:
            yield case(['Ppar', [pb(a, 40), pb(b, 60, I_FAG)]])
    for a in d2:
        for b in d2:
            for c in [[0.25], [0.5, 1], [1, 0.25]] if q else d3:
                yield case(['Ppar', [pb(a, 40), pb(b, 60, I_FAG),
                                     pb(c, 80, I_FGC)]])
            yield case(['Ppar', [pm(a, 40), pb(b, 60)]], STARTS[1])
            yield case(['Ppar', [pb(a, 40, rest=(0, 'dur')),
                                 pb(b, 60, rest=(len(b) - 1, 'key'))]])
            yield case(['Ppar', [pb(a, 40, rest=(len(a) - 1, 'delta')),
                                 pb(b, 60, I_FAG, rest=(0, 'amp'))]])
    # S4 Pchain: the left Pbind overrides dur
    for a in d2 if q else d3:
        for b in d3:
            left = ['Pbind', {'dur': ['Pseq', a, 1]}]
            yield case(['Pchain', [left, pb(b, 40, I_FAG)]])
    for b in d3:
        yield case(['Pchain', [['Pbind', {'stretch': 2, 'amp': 0.25}],
                               ['Pbind', {'legato': 0.5}], pb(b, 40, I_FAG)]])
    # S5 Pdur, alone and followed by a marker (the total is observable)
    dl = [0.5, 0.75, 1.25, 2, 3.5]
    for d in dl:
        kids = [pb(ds, 40, I_FAG) for ds in d3]
        kids += [pb(ds, 40, inf=True) for ds in d3]
        kids += [pm(ds, 40) for ds in d3]
        kids += [pb(ds, 40, inf=True, rest=(0, 'type')) for ds in d2]
        kids += [['Ppar', [pb(a, 40, inf=True), pb(b, 60, I_FAG)]]
                 for a in d2 for b in d2]
        kids += [['Pchain', [['Pbind', {'dur': ['Pseq', a, 'inf']}],
                             pb([1], 40, inf=True)]] for a in d2]
        for k in kids:
            yield case(['Pseq', [['Pdur', d, k], MARK]])
        for k in kids[:2 * len(d3)]:
            yield case(['Pdur', d, k], STARTS[1])
    # S5b Pdur over children whose durations are not binary fractions (the
    # cut never falls within Pdur's 0.001 tolerance of an event boundary):
    # the deltas still add up to the requested total
    for d in (0.5, 1.25, 3.5):
        for ds in ([1 / 3], [0.3], [0.7 / 3, 0.3], [0.1, 1 / 3]):
            if ds == [0.1, 1 / 3] and d == 0.5:
                continue
            yield case(['Pseq', [['Pdur', d, pb(ds, 40, inf=True)], MARK]])
            yield case(['Ppar', [['Pdur', d, pb(ds, 40, inf=True)],
                                 ['Pdelta', d, MARK]]])
    # S8 one pattern OBJECT embedded several times (sequentially, in parallel
    # with itself, as a canon): every embedding is a stream of its own
    for a in d2[:4] if q else d2:
        for b in ([[0.5], [0.25, 0.25]] if q else d2):
            themes = [['Ppar', [pb(a, 40), pb(b, 60, I_FAG)]],
                      pb(a, 40, I_FAG),
                      ['Pdur', 0.75, ['Ppar', [pb(a, 40, inf=True),
                                               pb(b, 60, inf=True)]]],
                      ['Pchain', [['Pbind', {'legato': 0.5}], pb(a, 40)]]]
            for th in themes:
                for whole in (['Ppar', [th, ['Pdelta', 0.25, th]]],
                              ['Ppar', [th, th]],
                              ['Pseq', [th, th]],
                              ['Ppar', [['Pseq', [th, th]],
                                        ['Pdelta', 0.5, th]]]):
                    c = case(whole)
                    c['share'] = True
                    yield c
    # S6 Pdelta
    for t in (0.25, 1):
        for ds in d3:
            yield case(['Pdelta', t, pb(ds, 40, I_FAG)])
            yield case(['Pseq', [pb(ds, 40), ['Pdelta', t, MARK]]])
        for a in d2:
            for b in d2:
                yield case(['Ppar', [pb(a, 40), ['Pdelta', t, pb(b, 60)]]])
                yield case(['Pdelta', t, ['Ppar', [pb(a, 40), pb(b, 60)]]],
                           STARTS[1])
        for a in d2:
            for b in d2:
                yield case(['Ppar', [pb(a, 40), ['Pdelta', {'Rest': t},
                                                 pb(b, 60, I_FAG)]]])
            yield case(['Pseq', [pb(a, 40), ['Pdelta', {'Rest': t}, MARK]]])
    yield from gen_S_more(tier, case)
    # S7 nesting
    for a in d2:
        for d in (0.75, 1.5):
            yield case(['Pdur', d, ['Pdur', 1.0, pb(a, 40, inf=True)]])
        for b in d2:
            for d in (0.75, 1.5):
                yield case(['Ppar', [['Pdur', d, pb(a, 40, inf=True)],
                                     ['Pdelta', 0.5, pb(b, 60, I_FAG)]]])
                yield case(['Pseq', [['Pdur', d, ['Ppar', [
                    pb(a, 40, inf=True), pb(b, 60, inf=True)]]], MARK]])
            yield case(['Ppar', [['Ppar', [pb(a, 40), pb(b, 60)]],
                                 pb([0.5, 0.5], 80)]])
            yield case(['Pseq', [['Ppar', [pb(a, 40), pb(b, 60)]], MARK]])
    if not q:
        for a in d3:
            for b in d3:
                for d in (0.75, 1.25, 2.5):
                    if d in dl and len(a) < 3 and len(b) < 3:
                        continue            # already in S5
                    yield case(['Pseq', [['Pdur', d, ['Ppar', [
                        pb(a, 40, inf=True), pb(b, 60, I_FAG)]]], MARK]])
                yield case(['Ppar', [pm(a, 40), pm(b, 60, I_FA)]])
                yield case(['Ppar', [pb(a, 40), ['Pdelta', 0.75,
                                                 pb(b, 60)]]])


def gen_S_more(tier, case):
    """Situations the statement covers that the first families lack: value-
    level duration limit (Pconst), Pdur with quant, key sets, simultaneous
    events (delta 0), input events (proto / right operand of Pchain),
    Pchain over a composition and through chain(), other entry points, one
    pattern object played twice, PmonoArtic."""
    q = tier == 'quick'
    d2, d3 = dur_seqs(2), dur_seqs(3)
    dd = d2 if q else d3
    # S9 Pconst limits the dur values of a Pbind
    for total in (0.75, 1.25, 2) if q else (0.5, 0.75, 1.25, 2, 3.5):
        for ds in dd:
            yield case(['Pseq', [pbc(ds, 40, total), MARK]])
            yield case(['Pseq', [pbc(ds, 40, total, inf=False), MARK]])
            yield case(['Ppar', [pbc(ds, 40, total, I_FAG),
                                 pb([0.5, 0.5], 60, I_FAG)]], STARTS[1])
    for total in (0.5, 1.25, 3.5):
        for ds in ([1 / 3], [0.3], [0.7 / 3, 0.3], [0.1, 1 / 3]):
            if ds == [0.1, 1 / 3] and total == 0.5:
                continue
            yield case(['Pseq', [pbc(ds, 40, total), MARK]])
    # S9b Pdur cutting events whose delta is an int (int dur x int stretch,
    # an explicit int delta) or a float given through stretch / delta
    for d in (0.75, 1.25, 2.5):
        for ex in ({'stretch': 2}, {'stretch': 2.0}, {'delta': 1},
                   {'delta': 1.0}, {'stretch': 1}):
            for ds in ([1], [0.5, 1], [1, 1]):
                yield case(['Pseq', [['Pdur', d, pb(ds, 40, I_FAG, inf=True,
                                                    extra=ex)], MARK]])
    # S10 Pdur with quant: a child that ends before the limit is followed by
    # a rest up to the next multiple of quant; a cut child is not
    for qt in (0.5, 1, 0.75):
        for ds in d3:
            tot = sum(ds)
            for d in (2, 4):
                if tot < d and -(-tot // qt) * qt <= d:
                    yield case(['Pseq', [['Pdur', d, pb(ds, 40, I_FAG),
                                          {'quant': qt}], MARK]])
        for ds in d2:
            yield case(['Pseq', [['Pdur', 0.75, pb(ds, 40, inf=True),
                                  {'quant': qt}], MARK]])
            yield case(['Ppar', [['Pdur', 4, ['Ppar', [
                pb(ds, 40), pb([0.25], 60)]], {'quant': qt}],
                ['Pdelta', 4, MARK]]])
    # S11 key sets
    for ds in d3:
        yield case(pbk(ds, 40))
        yield case(pbk(ds, 40, second='legato'), STARTS[1])
        for i in range(len(ds)):
            yield case(pbk(ds, 40, rest=i))
    for a in d2:
        for b in d2:
            yield case(['Ppar', [pbk(a, 40), pbk(b, 60, I_FA)]])
    # S12 simultaneous events: a delta of zero
    dz = [list(c) for n in (1, 2, 3)
          for c in itertools.product([0, 0.25, 0.5], repeat=n) if 0 in c]
    for ds in dz:
        yield case(pb(ds, 40, I_FAG))
        yield case(['Ppar', [pb(ds, 40), pb([0.5, 0.25], 60, I_FAG)]])
        yield case(['Pseq', [pb(ds, 40), MARK]], STARTS[1])
        if sum(ds) > 0:
            yield case(['Pseq', [['Pdur', 0.75, pb(ds, 40, inf=True)],
                                 MARK]])
        if len(ds) > 1:
            yield case(pm(ds, 40))
    # S14 input events
    protos = [{'amp': 0.3}, {'stretch': 2}, {'stretch': 0.5, 'legato': 0.5}]
    for a in d2:
        for b in ([[0.5], [0.25, 1]] if q else d2):
            xs = [pb(a, 40, I_FAG), ['Ppar', [pb(a, 40), pb(b, 60, I_FAG)]],
                  ['Pseq', [['Pdur', 0.75, pb(a, 40, inf=True)], MARK]],
                  ['Pseq', [['Ppar', [pb(a, 40), pb(b, 60)]], MARK]],
                  pm(a, 40)]
            for i, x in enumerate(xs):
                for j, pr in enumerate(protos):
                    yield case(x, STARTS[(i + j) % 2], proto=pr,
                               proto_event=bool(j % 2))
                    yield case(['Pchain', [x, ['Pbind', pr]]])
                if x[0] != 'Pmono' and x[0] != 'Pbind':
                    yield case(['Pchain', [['Pbind', {'amp': 0.3}], x]])
                    yield case(['Pchain', [['Pbind', {'legato': 0.5,
                                                      'amp': 0.3}], x]])
    for a in d2:
        for b in d3:
            left = ['Pbind', {'dur': ['Pseq', a, 1]}]
            yield case(['Pchain', [left, pb(b, 40, I_FAG)], {'chain': True}])
    for b in d3:
        yield case(['Pchain', [['Pbind', {'stretch': 2, 'amp': 0.25}],
                               ['Pbind', {'legato': 0.5}],
                               pb(b, 40, I_FAG)], {'chain': True}])
    # S15 entry points
    for a in d2:
        b = [0.5, 0.25]
        for x in (pb(a, 40, I_FAG), ['Ppar', [pb(a, 40), pb(b, 60, I_FAG)]],
                  pm(a, 40), ['Pseq', [['Pdur', 0.75, pb(a, 40, inf=True)],
                                       MARK]]):
            for via in ('fn', 'esp', 'esp_reset'):
                yield case(x, STARTS[0], via=via)
                yield case(x, STARTS[1], via=via, proto={'amp': 0.3})
                yield case(x, [0.5, 'tempo'], 0, via=via)
    # S16 one pattern object played again while (or after) the first player
    # runs
    for a in d2:
        for b in ([[0.5], [0.25, 0.25]] if q else d2):
            for x in (pb(a, 40, I_FAG),
                      ['Ppar', [pb(a, 40), pb(b, 60, I_FAG)]],
                      ['Pdur', 0.75, ['Ppar', [pb(a, 40, inf=True),
                                               pb(b, 60, inf=True)]]],
                      pm(a, 40),
                      ['Pchain', [['Pbind', {'legato': 0.5}], pb(a, 40)]]):
                for w in (0.25, 1) if q else (0.25, 0.5, 1, 2):
                    yield case(x, STARTS[1], again=w)
    # S17 PmonoArtic
    legs = [None, 1, 0.5, 1.5, ['Pseq', [1, 0.5, 1], 1],
            ['Pseq', [0.5, 1, 1], 1], ['Pseq', [1, 1, 0.5], 1]]
    for ds in d3:
        for lg in legs:
            if isinstance(lg, list) and len(ds) < 2:
                continue
            ex = None if lg is None else {'legato': lg}
            yield case(pm(ds, 40, I_FAG, artic=True, extra=ex))
            yield case(pm(ds, 40, I_FA, artic=True, extra=ex), STARTS[1])
        for i in range(len(ds)):
            for form in ('key', 'dur'):
                yield case(pm(ds, 40, I_FAG, artic=True, rest=(i, form),
                              extra={'legato': 1}))
    for a in d2:
        for b in d2:
            yield case(['Ppar', [pm(a, 40, artic=True, extra={'legato': [
                'Pseq', [1, 0.5], 1]}), pb(b, 60)]])


def pat_children(p):
    h = p[0]
    if h in ('Ppar', 'Pchain', 'Pseq'):
        return list(p[1])
    if h in ('Pdur', 'Pdelta'):
        return [p[2]]
    return []


def pat_depth(p):
    return 1 + max([pat_depth(c) for c in pat_children(p)] + [0])


def pat_heads(p, acc=None):
    acc = set() if acc is None else acc
    acc.add(p[0])
    for c in pat_children(p):
        pat_heads(c, acc)
    return acc


def leaf_variant(p):
    """Label of a Pbind/Pmono leaf: head + rest form / duration keys used."""
    d = p[1] if p[0] == 'Pbind' else p[2]
    v = p[0]
    if p[0] == 'Pmono' and pat_opts(p, 3).get('articulate'):
        v += '+artic'
    forms = set()
    if 'type' in d:
        forms.add('resttype')
    for k, vp in d.items():
        items = vp[1] if isinstance(vp, list) and vp[0] == 'Pseq' else [vp]
        if '+' in k:
            forms.add('keyset')
            items = [x for i in items for x in i]
        if isinstance(vp, list) and vp[0] == 'Pconst':
            forms.add('pconst')
        if any(ref.is_rest_marker(i) for i in items):
            forms.add('restdur' if k == 'dur' else 'restkey')
        if any(i == 0 and not isinstance(i, bool) for i in items) and \
                k in ('dur', 'delta'):
            forms.add('zerodur')
    for f in sorted(forms):
        v += '+' + f
    for k in ('delta', 'stretch'):
        if k in d:
            v += '+' + k
    return v


def label(p):
    if p[0] in ('Pbind', 'Pmono'):
        return leaf_variant(p)
    head = p[0]
    if head == 'Pdur' and pat_opts(p, 3).get('quant') is not None:
        head += '+quant'
    if head == 'Pdelta' and ref.is_rest_marker(p[1]):
        head += '+rest'
    return head + '(' + ','.join(sorted({c[0] for c in pat_children(p)})) + ')'


S_OPT_KEYS = ('share', 'proto', 'via', 'again')


def s_opts(case):
    return {k: case[k] for k in S_OPT_KEYS if case.get(k) is not None}


def run_S(pat, at, clock, lat, opts=None):
    """opts: share (one library object per distinct sub-pattern), proto (the
    input event given to the player), via (entry point: 'play' = the
    pattern's method, 'fn' = sc3.base.play.play(pattern), 'esp' = an
    EventStreamPlayer built by hand, 'esp_reset' = the same started with
    play(reset=True)), again (the same pattern OBJECT is played a second
    time this many seconds later, from the same routine)."""
    opts = opts or {}
    proto, via, again = opts.get('proto'), opts.get('via', 'play'), \
        opts.get('again')

    def start(p):
        kw = {}
        if proto is not None:
            pe = lib_kwargs(proto)
            if opts.get('proto_event'):
                from sc3.seq.event import event
                pe = event(pe)
            kw['proto'] = pe
        clk = None
        if clock == 'tempo':
            from sc3.base.clock import TempoClock
            clk = TempoClock(1)
        if via == 'play':
            if clk is not None:
                p.play(clk, **kw)
            else:
                p.play(**kw)
        elif via == 'fn':
            from sc3.base.play import play
            if clk is not None:
                play(p, clk, **kw)
            else:
                play(p, **kw)
        elif via in ('esp', 'esp_reset'):
            from sc3.seq.eventstream import EventStreamPlayer
            from sc3.base import stream as stm
            args = [stm.stream(p)] + ([kw['proto']] if kw else [])
            esp = EventStreamPlayer(*args)
            if via == 'esp_reset':
                esp.play(clk, reset=True)
            else:
                esp.play(clk)
        else:
            raise core.HarnessError(f'bad via {via}')

    def body():
        p = lib_pattern(pat, {} if opts.get('share') else None)
        if again is None:
            start(p)
            return
        from sc3.base import stream as stm

        def rfunc():
            start(p)
            yield again
            start(p)
        stm.Routine(rfunc).play()
    return run_score(lat, body, at=at)


def discs_S(pat, at, clock, lat, info=None, opts=None):
    opts = opts or {}
    r = run_S(pat, at, clock, lat, opts)
    if info is not None:
        info['outcome'] = renumber(r['score']) if r['score'] else r['exc']
    ids = [0]
    evs, total = ref.denote(pat, _ids=ids, proto=opts.get('proto'))
    if opts.get('again') is not None:
        evs2, _ = ref.denote(pat, _ids=ids, proto=opts.get('proto'))
        evs = evs + [dict(e, t=e['t'] + opts['again']) for e in evs2]
    start = at or 0
    exp, voices, resttags = [], {}, set()
    for e in evs:
        g = e['ev']
        tag = g.get('midinote')
        if e['rest'] and not ref.is_rest_marker(tag):
            resttags.add(tag)
        tag = None if ref.is_rest_marker(tag) else tag
        name = g['instrument']
        item = {'t': start + e['t'], 'tag': tag, 'rest': e['rest'],
                'spec': ref.note_spec(g, ctrls_of(name))}
        if e['mono'] is None:
            if not e['rest']:
                item.update(kind='note', instr=name, action=0, group=1)
                exp.append(item)
        else:
            vid = e['mono'][0]
            if vid not in voices:
                if e['rest']:
                    raise core.HarnessError('Pmono starting with a rest is '
                                            'outside the space')
                voices[vid] = {'kind': 'mono', 'instr': name, 'action': 0,
                               'group': 1, 'events': []}
                exp.append(voices[vid])
            voices[vid]['events'].append(item)
    out = {}
    for d in desc_disc(r, ''):
        out[d[0]] = d[1:]
    if r['score'] is None:
        out['play-raises'] = (f'{len(exp)} notes', r['exc'], '')
        return out
    _RESTTAGS[0] = resttags
    for disc, e, o, det in compare(exp, r['score'], lat):
        if disc == 'note-extra' and isinstance(o, list) and \
                tag_of(pairs_of(o[2])[0] or {}) in resttags:
            disc = 'rest-played'
        if disc not in out:
            out[disc] = (e, o, det)
    if out and r['log']:
        for d in out:
            e, o, det = out[d]
            out[d] = (e, o, (det + ' | clock log: ' + r['log'][0])[:600])
    elif r['log']:
        out['player-raises'] = (None, r['log'][:2],
                                'exception inside the player routine')
    return out


def endless(p):
    """The pattern never ends on its own (needs an enclosing Pdur)."""
    h = p[0]
    if h in ('Pbind', 'Pmono'):
        d = p[1] if h == 'Pbind' else p[2]
        return not any(isinstance(v, list) and (
            v[0] == 'Pseq' and v[2] != 'inf' or v[0] == 'Pconst')
            for v in d.values())
    if h == 'Pchain':
        return all(endless(c) for c in p[1])
    if h == 'Pdur':
        return False
    return any(endless(c) for c in pat_children(p))


def blame(pat, at, clock, lat, disc, opts=None):
    """Smallest sub-pattern that shows the same disagreement class (played
    through the same entry point, with the same input event)."""
    for c in pat_children(pat):
        if c[0] == 'Pbind' and not any('midinote' in k for k in c[1]):
            continue                      # override-only Pbind of a Pchain
        if endless(c):
            continue                      # cannot be played without its Pdur
        try:
            found = disc in discs_S(c, at, clock, lat, None, opts)
        except ValueError:
            continue                      # outside the reference on its own
        if found:
            return blame(c, at, clock, lat, disc, opts)
    return pat


def check_S(case, info):
    pat, at, clock, lat = case['pat'], case['at'], case['clock'], case['lat']
    share = bool(case.get('share'))
    opts = s_opts(case)
    if case.get('proto_event'):
        opts['proto_event'] = True
    f = discs_S(pat, at, clock, lat, info, opts)
    out = {}
    for disc in sorted(f):
        e, o, det = f[disc]
        node = blame(pat, at, clock, lat, disc, opts)
        kind = f'S:{disc}:{label(node)}'
        if share and node is pat:
            kind += '@shared-object'
        if opts.get('proto') is not None and any(
                k in opts['proto'] for k in ('stretch', 'dur')):
            kind += '@input-event-time-keys'
        if node is pat and opts.get('via', 'play') != 'play':
            kind += '@' + opts['via']
        if node is pat and opts.get('again') is not None:
            kind += '@played-twice'
        if clock == 'tempo' and node is pat and pat[0] == 'Pbind':
            kind += '@TempoClock'
        if node is not pat:
            det = (det + ' [smallest failing sub-pattern: '
                   + core.canon(node)[:300] + ']')
        if kind not in out:
            out[kind] = (kind, e, o, det)
    return [out[k] for k in sorted(out)]


def nontrivial_S(case):
    p = case['pat']
    return pat_depth(p) >= 2 or 'Ppar' in pat_heads(p)


# ---------------------------------------------------------------------------
# family M: the key chains inside Pmono / PmonoArtic voices
# ---------------------------------------------------------------------------
#
# A voice of 3 events whose events define one pitch-chain entry point (degree
# / note / midinote / freq, a different value per event) together with
# modifiers (constant, or changing per event with the default value in the
# first event), a scale, and the amplitude chain.  Every event of the
# timeline must produce exactly one message at its time - the /s_new of a
# voice start or ordinary note, the /n_set of a later event of the voice -
# whose control values are the documented chain of THAT event's keys, exactly
# as for a note event (same note_spec, same don't-cares).  Messages are paired
# with events by time and kind (not by a pitch tag: the modifiers move the
# pitch).

M_INSTR = I_FAG
M_DURS = [0.5, 0.25, 1]
M_ENTRY = {'degree': [0, 2, -1], 'note': [0, 4, 7.0], 'midinote': [60, 64.5, 57],
           'freq': [220.0, 330.0, 440.0]}
M_MODS_Q = [{}, {'harmonic': 2}, {'detune': 3}, {'ctranspose': 1},
            {'mtranspose': 1}, {'gtranspose': 1}, {'root': 2}, {'octave': 4},
            {'harmonic': 0.5, 'detune': -1.5},
            {'ctranspose': -12, 'harmonic': 2},
            {'mtranspose': -2, 'octave': 6.0, 'root': -1},
            {'gtranspose': 0.5, 'detune': 3, 'octave': 4},
            # changing per event, the first event has the default value
            {'harmonic': ['Pseq', [1, 2, 0.5], 1]},
            {'detune': ['Pseq', [0, 3, -1.5], 1]},
            {'ctranspose': ['Pseq', [0, 1, -12], 1]},
            {'mtranspose': ['Pseq', [0, 1, -2], 1],
             'octave': ['Pseq', [5, 4, 6.0], 1]},
            {'gtranspose': ['Pseq', [0, 1, 0.5], 1],
             'root': ['Pseq', [0, 2, -1], 1]}]
M_MODS_T = M_MODS_Q + [
    {'harmonic': 0.5}, {'detune': -1.5}, {'ctranspose': -12},
    {'mtranspose': -2}, {'gtranspose': 0.5}, {'root': -1}, {'octave': 6.0},
    {'harmonic': 2, 'detune': 3, 'ctranspose': 1, 'mtranspose': 1,
     'gtranspose': 1, 'root': 2, 'octave': 4},
    {'harmonic': ['Pseq', [2, 1, 2], 1], 'detune': ['Pseq', [3, 0, 0], 1]}]
M_SCALES_Q = [None, 'minorpent', 'chromatic', 'whole_rng']
M_SCALES_T = [None, 'major_x', 'minorpent', 'chromatic', 'chromatic_cm',
              'major_et12', 'whole_rng']
M_AMPS = [{}, {'amp': ['Pseq', [0.25, 0.5, 0], 1]},
          {'db': ['Pseq', [-6, -12, 0], 1]},
          {'velocity': ['Pseq', [64, 100, 127], 1]}]
M_ARTIC = [None, 1, ['Pseq', [1, 0.5, 1], 1], 0.5]     # legato of PmonoArtic


def gen_M(tier):
    q = tier == 'quick'
    mods = M_MODS_Q if q else M_MODS_T
    n = 0
    for entry in MAINS:
        scales = (M_SCALES_Q if q else M_SCALES_T) \
            if entry in ('degree', 'note') else [None]
        for md in mods:
            for sc in scales:
                for am in M_AMPS:
                    for ar in M_ARTIC:
                        d = {entry: ['Pseq', M_ENTRY[entry], 1],
                             'dur': ['Pseq', M_DURS, 1]}
                        d.update(md)
                        d.update(am)
                        if sc is not None:
                            d['scale'] = sc
                        pat = ['Pmono', instr_name(M_INSTR), d]
                        if ar is not None:
                            d['legato'] = ar
                            pat.append({'articulate': True})
                        n += 1
                        yield {'fam': 'M', 'pat': pat,
                               'at': [None, 0.75][n % 2], 'lat': 0.25}


def m_messages(score):
    """-> (messages [{'t', 'kind': 'snew'|'nset', 'id', 'name', 'pairs'}],
    gate-offs by node id, problems)"""
    snew, nset, nfree, other = parse_score(score)
    msgs, probs, gateoffs = [], [], {}
    for o in other:
        probs.append(('unexpected-message', None, o, ''))
    for x in snew:
        pairs, prob = pairs_of(x['rest'])
        if prob:
            probs.append(('snew-malformed', None, x['rest'], prob))
        msgs.append({'t': x['t'], 'kind': 'snew', 'id': x['id'],
                     'name': x['name'], 'pairs': pairs or {},
                     'action': x['action'], 'group': x['group']})
    for x in nset:
        if x['rest'] in (['gate', 0], ['gate', 0.0]):
            gateoffs.setdefault(x['id'], []).append(x['t'])
            continue
        pairs, prob = pairs_of(x['rest'])
        if prob:
            probs.append(('nset-malformed', None, x['rest'], prob))
        msgs.append({'t': x['t'], 'kind': 'nset', 'id': x['id'],
                     'pairs': pairs or {}})
    return msgs, gateoffs, probs


def check_M(case, info):
    pat, at, lat = case['pat'], case['at'], case['lat']
    feat = '@artic' if pat_opts(pat, 3).get('articulate') else ''
    r = run_S(pat, at, 'sys', lat)
    info['outcome'] = renumber(r['score']) if r['score'] else r['exc']
    out = [(f'M:{d[0]}{feat}',) + d[1:] for d in desc_disc(r, '')]
    if r['score'] is None or r['log']:
        return out + [(f'M:play-raises{feat}', 'one message per event',
                       r['exc'] or r['log'], '')]
    evs, _ = ref.denote(pat)
    name = pat[1]
    ctrls = ctrls_of(name)
    start = at or 0
    msgs, gateoffs, probs = m_messages(r['score'])
    dis = list(probs)
    used, voice_ids = set(), {}
    for e in evs:
        if e['rest']:
            continue
        t = start + e['t'] + lat
        spec = ref.note_spec(e['ev'], ctrls)
        later = e['mono'] is not None and e['mono'][1] > 0
        kind = 'nset' if later else 'snew'
        pre = 'mono-set' if later else 'snew'
        cands = [i for i, m in enumerate(msgs)
                 if i not in used and m['kind'] == kind
                 and ref.close(m['t'], t)]
        if not cands:
            dis.append((f'{pre}-missing', [t, kind, spec['required']],
                        [[m['t'], m['kind'], m['pairs']] for m in msgs],
                        f'event {e["ev"]} of the voice has no '
                        f'{"/n_set" if later else "/s_new"} at its time'))
            continue
        m = msgs[cands[0]]
        used.add(cands[0])
        if kind == 'snew':
            if m['name'] != name:
                dis.append(('snew-name', name, m['name'], ''))
            if m['action'] != 0 or m['group'] != 1:
                dis.append(('snew-target', [0, 1],
                            [m['action'], m['group']], ''))
            if e['mono'] is not None:
                voice_ids[e['mono'][0]] = m['id']
            elif spec['has_gate']:
                want = t + spec['sustain']
                got = gateoffs.get(m['id'], [])
                if len(got) != 1 or not ref.close(got[0], want):
                    dis.append(('gateoff-time', want, got,
                                'ordinary note of a PmonoArtic'))
        elif voice_ids.get(e['mono'][0]) != m['id']:
            dis.append(('mono-set-node', voice_ids.get(e['mono'][0]),
                        m['id'], 'the /n_set goes to another node than the '
                        'voice\'s /s_new created'))
        sub = []
        cmp_pairs(pre, spec, m['pairs'], ctrls, sub)
        for d in sub:
            dis.append((d[0], d[1], d[2],
                        (d[3] + f' | event keys {core.canon(e["ev"])}')[:600]))
    for i, m in enumerate(msgs):
        if i not in used:
            dis.append(('message-extra', None, [m['t'], m['kind'],
                                                m['pairs']],
                        'a message no event of the timeline accounts for'))
    return out + [(f'M:{d[0]}{feat}', d[1], d[2], d[3]) for d in dis]


def nontrivial_M(case):
    """A later event of a voice carries a pitch modifier, a scale or an
    amplitude chain key."""
    d = case['pat'][2]
    return any(k in d for k in list(MODS) + ['scale', 'db', 'velocity'])


# ---------------------------------------------------------------------------
# standalone reproducers
# ---------------------------------------------------------------------------

HEADER = '''import sc3
sc3.init('nrt')
from sc3.all import *
from sc3.base.main import main
from sc3.seq.event import event, Rest
from sc3.seq.scale import Scale, Tuning
from sc3.seq.patterns.eventpatterns import Pbind, Pmono, Ppar, Pchain
from sc3.seq.patterns.filterpatterns import Pdur, Pdelta, Pconst
from sc3.seq.patterns.listpatterns import Pseq
from sc3.seq.patterns.valuepatterns import Pseries
from sc3.seq.eventstream import EventStreamPlayer
from sc3.base import stream as stm
from sc3.base.netaddr import NetAddr
inf = float('inf')
def instrument(name, controls, defaults={}, variants=None):
    ns = {'Out': Out, 'DC': DC}
    exec('def f(%s):\\n    Out.ar(0, DC.ar(0))' % ', '.join(
        c + '=' + defaults.get(c, '0.5') for c in controls), ns)
    SynthDef(name, ns['f'], variants=variants).add()
'''


def src_instrument(name):
    if name in XINSTR:
        if XINSTR[name] is None:
            return f'# {name!r} is not registered'
        return (f'instrument({name!r}, {XINSTR[name]!r}, {X_DEFAULTS!r}, '
                f'{X_VARIANTS.get(name)!r})')
    return f'instrument({name!r}, {ctrls_of(name)!r})'


def src_value(key, v):
    if ref.is_rest_marker(v):
        return 'Rest()' if v['Rest'] is None else f'Rest({v["Rest"]!r})'
    if key == 'server':
        return 'other'
    if isinstance(v, dict) and 'tuple' in v:
        return repr(tuple(v['tuple']))
    if isinstance(v, dict) and 'Group' in v:
        return f'Group.basic_new(s, {v["Group"]})'
    if isinstance(v, dict) and 'Synth' in v:
        return f'Synth.basic_new({instr_name(FULL)!r}, s, {v["Synth"]})'
    if key == 'scale':
        sp = ref.SCALES[v]
        if v == 'chromatic_cm':
            return 'Scale.chromatic(Tuning.et(12))'
        if v == 'major_et12':
            return f'Scale({tuple(sp["degrees"])!r}, Tuning.et(12))'
        if v == 'whole_rng':
            return 'Scale(range(0, 12, 2))'
        if sp['tuning'] is None:
            return f'Scale({sp["degrees"]!r})'
        return (f'Scale({sp["degrees"]!r}, Tuning({sp["tuning"]!r}, '
                f'{sp["ratio"]!r}))')
    return repr(v)


def src_vp(k, v):
    if isinstance(v, list) and v and v[0] == 'Pseq':
        def item(i):
            if '+' in k:
                return '(' + ', '.join(src_value(kk, x) for kk, x in
                                       zip(k.split('+'), i)) + ')'
            return src_value(k, i)
        return 'Pseq([%s], %s)' % (', '.join(item(i) for i in v[1]),
                                   'inf' if v[2] == 'inf' else v[2])
    if isinstance(v, list) and v and v[0] == 'Pseries':
        return f'Pseries({v[1]!r}, {v[2]!r})'
    if isinstance(v, list) and v and v[0] == 'Pconst':
        return f'Pconst({src_vp(k, v[1])}, {v[2]!r})'
    return src_value(k, v)


def src_dict(d, vp=False):
    items = []
    for k, v in d.items():
        s = src_vp(k, v) if vp else src_value(k, v)
        kk = tuple(k.split('+')) if vp and '+' in k else k
        items.append(f'{kk!r}: {s}')
    return '{' + ', '.join(items) + '}'


def src_pattern(p, names=None):
    """names (a dict with a 'defs' list): structurally equal sub-patterns
    become one variable (one library object embedded several times)."""
    if names is None:
        return _src_pattern(p, None)
    k = core.canon(p)
    if k not in names:
        src = _src_pattern(p, names)          # defines the children first
        names[k] = f'p{len(names)}'
        names['defs'].append(f'{names[k]} = {src}')
    return names[k]


def _src_pattern(p, names):
    h = p[0]

    def sub(c):
        return src_pattern(c, names)
    if h == 'Pbind':
        return f'Pbind({src_dict(p[1], True)})'
    if h == 'Pmono':
        extra = ', articulate=True' if pat_opts(p, 3).get('articulate') \
            else ''
        return f'Pmono({p[1]!r}, {src_dict(p[2], True)}{extra})'
    if h == 'Pchain' and pat_opts(p, 2).get('chain'):
        return f'Pchain({sub(p[1][0])})' + ''.join(
            f'.chain({sub(c)})' for c in p[1][1:])
    if h in ('Ppar', 'Pchain'):
        return f'{h}(' + ', '.join(sub(c) for c in p[1]) + ')'
    if h == 'Pseq':
        return 'Pseq([' + ', '.join(sub(c) for c in p[1]) + '])'
    if h == 'Pdur':
        q = pat_opts(p, 3).get('quant')
        extra = '' if q is None else f', quant={q!r}'
        return f'Pdur({p[1]!r}, {sub(p[2])}{extra})'
    return f'{h}({src_value("dur", p[1])}, {sub(p[2])})'


def instruments_in(obj, acc):
    if isinstance(obj, str) and obj.startswith('c14i') and \
            obj[4:].isdigit():
        acc.add(obj)
    elif isinstance(obj, dict):
        for v in obj.values():
            instruments_in(v, acc)
    elif isinstance(obj, list):
        for v in obj:
            instruments_in(v, acc)
    return acc


def standalone(case):
    fam = case['fam']
    lines = [HEADER]
    if fam == 'K':
        g = case['given']
        lines.append(f"instrument({instr_name(FULL)!r}, {CTRLS!r})")
        lines.append('main.reset()')
        lines.append(f'keys = {src_dict(g)}')
        if case.get('scale_fn'):
            lines.append("keys['scale'] = (lambda sc: lambda ev: sc)"
                         "(keys['scale'])")
        lines.append("for k in ('note', 'midinote', 'freq', 'amp', 'delta', "
                     "'sustain'):\n    print(k, event(keys)(k))")
        at, lat = K_AT, K_LAT
        plays = [f"event(keys, instrument={instr_name(FULL)!r}).play()"]
    elif fam == 'P':
        at, lat = case['at'], case['lat']
        plays = []
        for e in case['events']:
            name = instr_name(e['instr'])
            lines.append(src_instrument(name))
            if e['wait']:
                plays.append(f'yield {e["wait"]!r}')
            if e['given'].get('server') == 'other':
                lines.append("other = Server('c14other', NetAddr('127.0.0.1',"
                             " 57999))")
                lines.append(f'other.latency = {case["lat"]!r} + '
                             f'{OTHER_LAT_OFFSET!r}')
            d = src_dict(dict(e['given'], instrument=name))
            via = e.get('via', 'method')
            plays.append({'method': f'event({d}).play()',
                          'play_dict': f'play({d})',
                          'play_kwargs': f'play(**{d})',
                          'play_obj': f'play(event({d}))',
                          'play_dict_kwargs': f'play({{}}, **{d})',
                          'ctor_kwargs': f'event(**{d}).play()',
                          'ctor_mixed': f'event({{}}, **{d}).play()',
                          'ctor_copy': f'event(event({d})).play()'}[via])
        lines.append('main.reset()')
    elif fam == 'D':
        at, lat = case['at'], case['lat']
        name = d_name(case)
        lines.append('from sc3.synth.synthdesc import SynthDescLib')
        lines.append(f'lib2 = SynthDescLib({D_SECOND_LIB!r})')
        lines.append(
            'def define(controls, libname=None):\n'
            "    ns = {'Out': Out, 'DC': DC}\n"
            "    exec('def f(%s):\\n    Out.ar(0, DC.ar(0))' % ', '.join(\n"
            "        c + '=0.5' for c in controls), ns)\n"
            f"    SynthDef({name!r}, ns['f']).add(libname)")
        plays = []
        for i, st in enumerate(case['steps']):
            second = st['lib'] != 'default'
            if st['def'] is not None:
                if st.get('remove'):
                    plays.append(('lib2' if second else
                                  'SynthDescLib.default')
                                 + f'.remove_at({name!r})')
                plays.append(f'define({D_DEFS[st["def"]]!r}'
                             + (f', {D_SECOND_LIB!r})' if second else ')'))
            lib = "'synth_lib': lib2, " if second else ''
            if st['play'] == 'note':
                d = src_dict(dict(st['given'], instrument=name,
                                  midinote=d_base(i)))
                plays.append(f'event({{{lib}**{d}}}).play()')
            else:
                pat = d_step_pattern(st, name, d_base(i))
                d = src_dict(pat[1] if pat[0] == 'Pbind' else pat[2], True)
                if pat[0] == 'Pmono':
                    plays.append(f'Pmono({name!r}, {{{lib}**{d}}}).play()')
                else:
                    plays.append(f'Pbind({{{lib}**{d}}}).play()')
            if st['wait']:
                plays.append(f'yield {st["wait"]!r}')
        if not plays[-1].startswith('yield') and not any(
                x.startswith('yield') for x in plays):
            plays.append('yield 0')
        lines.append('main.reset()')
    elif fam == 'R':
        at, lat = case['at'], case['lat']
        name = instr_name(case['instr'])
        lines.append(f'instrument({name!r}, {ctrls_of(name)!r})')
        lines.append('main.reset()')
        plays = [f'e = event({src_dict(case["first"])}, instrument={name!r})',
                 'e.play()', f'yield {case["wait"]!r}']
        sets = [f'[{k!r}] = {v!r}' for k, v in case['change'].items()]
        if case['how'] == 'inplace':
            plays += ['e' + x for x in sets] + ['e.play()']
        elif case['how'] == 'copy':
            plays += ['e2 = e.copy()'] + ['e2' + x for x in sets] + \
                ['e2.play()']
        else:
            d = dict(case['change'], dur=['Pseq', [R_PROTO_DUR], 1])
            plays.append(f'Pbind({src_dict(d, True)}).play(proto=e)')
    else:
        if fam == 'M':
            case = dict(case, clock='sys')
        at, lat = case['at'], case['lat']
        for name in sorted(instruments_in(case['pat'], set())):
            lines.append(f'instrument({name!r}, {ctrls_of(name)!r})')
        lines.append('main.reset()')
        names = {'defs': []} if case.get('share') else None
        top = src_pattern(case['pat'], names)
        if names is None:
            lines.append(f'pat = {top}')
            top = 'pat'
        else:
            lines += names['defs']
        args = ['TempoClock(1)'] if case['clock'] == 'tempo' else []
        proto = None
        if case.get('proto') is not None:
            proto = src_dict(case['proto'])
            if case.get('proto_event'):
                proto = f'event({proto})'
        via = case.get('via', 'play')
        if via == 'play':
            if proto:
                args.append(f'proto={proto}')
            one = f'{top}.play({", ".join(args)})'
        elif via == 'fn':
            if proto:
                args.append(f'proto={proto}')
            one = f'play({", ".join([top] + args)})'
        else:
            esp = f'EventStreamPlayer(stm.stream({top})' + \
                (f', {proto})' if proto else ')')
            args = args or ['None']
            if via == 'esp_reset':
                args.append('reset=True')
            one = f'{esp}.play({", ".join(args)})'
        plays = [one]
        if case.get('again') is not None:
            plays += [f'yield {case["again"]!r}', one]
    lines.append(f's.latency = {lat!r}')
    if at is None and not any(p.startswith('yield') for p in plays):
        lines += plays
    else:
        lines.append('@routine\ndef r():')
        if at:
            lines.append(f'    yield {at!r}')
        lines += ['    ' + p for p in plays]
        if not at and not any(p.startswith('yield') for p in plays):
            lines.append('    yield 0')
        lines.append('r.play()')
    lines.append('for bundle in main.process().list:\n    print(bundle)')
    return '\n'.join(lines) + '\n'


# ---------------------------------------------------------------------------
# engine glue
# ---------------------------------------------------------------------------

def check_case(case, info=None):
    info = {} if info is None else info
    fam = case['fam']
    if fam == 'K':
        dis = check_K(case, info)
    elif fam == 'P':
        dis = check_P(case, info)
    elif fam == 'S':
        dis = check_S(case, info)
    elif fam == 'R':
        dis = check_R(case, info)
    elif fam == 'D':
        dis = check_D(case, info)
    elif fam == 'M':
        dis = check_M(case, info)
    else:
        raise core.HarnessError(f'bad family {fam}')
    seen, out = set(), []
    for d in dis:
        if d[0] not in seen:
            seen.add(d[0])
            out.append(d)
    return out


def is_nontrivial(case):
    return {'K': nontrivial_K, 'P': nontrivial_P, 'S': nontrivial_S,
            'R': nontrivial_R, 'D': nontrivial_D,
            'M': nontrivial_M}[case['fam']](case)


def replay(job):
    dis = check_case(job['case'])
    return {'violates': any(d[0] == job['kind'] for d in dis),
            'disagreements': [[d[0], core.canon(d[1])[:600],
                               core.canon(d[2])[:600], str(d[3])[:600]]
                              for d in dis]}


_CACHE = {}


def cases_S(tier):
    if tier not in _CACHE:
        cases, seen = [], set()
        for c in gen_S(tier):
            k = core.canon(c)
            if k not in seen:          # literally identical cases merge
                seen.add(k)
                cases.append(c)
        _CACHE[tier] = cases
    return _CACHE[tier]


def part_cases(job):
    """The cases of one job; the jobs of `jobs(tier)` partition the space."""
    part, tier = job['part'], job['tier']
    if part == 'Kp':
        return gen_K_pitch(tier, job['shard'], job['of'])
    if part == 'Kr':
        return itertools.islice(gen_K_rest(tier), job['shard'], None,
                                job['of'])
    if part == 'P':
        return gen_P(tier, job['mask'])
    if part == 'Pp':
        return gen_P_pairs(tier)
    if part == 'Px':
        return itertools.islice(gen_P_ext(tier), job['shard'], None,
                                job['of'])
    if part == 'S':
        return itertools.islice(cases_S(tier), job['shard'], None,
                                job['of'])
    if part == 'R':
        return itertools.islice(gen_R(tier), job['shard'], None, job['of'])
    if part == 'D':
        return itertools.islice(gen_D(tier), job['shard'], None, job['of'])
    if part == 'M':
        return itertools.islice(gen_M(tier), job['shard'], None, job['of'])
    raise core.HarnessError(f'bad part {part}')


def jobs(tier):
    js = [{'part': 'Kp', 'shard': i, 'of': 64} for i in range(64)]
    js += [{'part': 'Kr', 'shard': i, 'of': 8} for i in range(8)]
    js += [{'part': 'P', 'mask': m} for m in range(64)]
    js += [{'part': 'Pp'}]
    js += [{'part': 'Px', 'shard': i, 'of': 16} for i in range(16)]
    js += [{'part': 'S', 'shard': i, 'of': 32} for i in range(32)]
    js += [{'part': 'R', 'shard': i, 'of': 4} for i in range(4)]
    js += [{'part': 'D', 'shard': i, 'of': 16} for i in range(16)]
    js += [{'part': 'M', 'shard': i, 'of': 16} for i in range(16)]
    for j in js:
        j['tier'] = tier
    return js


def all_cases(tier):
    for j in jobs(tier):
        yield from part_cases(j)


def work(job):
    acc = progenum.Acc()
    for case in part_cases(job):
        info = {}
        dis = check_case(case, info)
        for kind, exp, obs, detail in dis:
            acc.violation(kind, case, exp, obs, detail,
                          standalone=standalone(case))
        acc.case(case, nontrivial=is_nontrivial(case),
                 outcome=info.get('outcome'))
        acc.count('cases_' + case['fam'])
    return acc.result()


def main(ctx):
    ctx.rule = (
        'E1: (K) every subset of explicit main pitch keys x every '
        'absent/present combination of 7 pitch modifiers x scales/tunings, '
        'amp/db/velocity subsets x dur/stretch/legato/sustain/delta subsets: '
        'event(key) lookups and the played message; (P) 64 instruments '
        '(every subset of 6 controls) x 72 events defining subsets of the '
        'control keys x time/latency/duration/add-action/group contexts, '
        'plus pairs of events in one routine, plus 64 '
        'instruments x 6 events with zero/negative values x 52 contexts (20 '
        'add-action spellings, group objects, second server, zero sustain, '
        'non-dyadic times, 4 play() entry points, 3 constructor forms), an '
        'arrayed control, the '
        'variant key, an unregistered instrument; (S) Pbind/Pmono/Pchain/'
        'Ppar/Pdur/Pdelta/Pseq compositions over every dur sequence of '
        'bounded length over {0.25,0.5,1} with rests (5 spellings), Pconst-'
        'limited durs, Pdur(quant), key sets, zero deltas, input events '
        '(proto, right operand of Pchain), chain(), play()/EventStreamPlayer '
        'entry points, a pattern played twice, PmonoArtic; (R) 8 instruments x 3 events '
        'x 7 key changes x {in place, copy(), proto of a Pbind} x time/'
        'latency: play, change, play again; (D) one instrument name defined '
        '2-3 times (5 control lists: sets, orders, with/without gate; '
        're-added, removed+added, second SynthDescLib via synth_lib) with a '
        'note / Pbind / Pmono played after each definition, a Pbind running '
        'across a redefinition; (M) Pmono / PmonoArtic voices of 3 events: 4 '
        'pitch entry points x 17 (thorough 26) modifier combinations '
        '(constant and per-event) x scales x 4 amplitude chains x plain / 3 '
        'articulate legatos, /n_set values compared like /s_new values. '
        'Non-trivial: (K) >=2 keys of '
        'one chain collide or a modifier/scale meets an explicit main key; '
        '(P) instrument controls and event keys overlap only partly, or two '
        'events share a routine; (S) a pattern is nested in a pattern or '
        'Ppar children interleave; (R) a changed key is a control of the '
        'instrument; (D) a later play defines a control on which the '
        'definitions differ; (M) the voice carries a pitch modifier, a scale '
        'or db/velocity. All cases are distinct.')
    ctx.assumptions += [
        'reference semantics mc/oracles/event_ref.py written from the '
        'SuperCollider Event/Scale/Tuning/Pbind/Pmono/Ppar/Pchain/Pfindur '
        'help and this library\'s comments; don\'t-cares: ctranspose on the '
        'degree path, harmonic on an explicit freq and in the freq lookup, '
        'the name sent for a variant (name or name.variant), controls and '
        'release of an instrument that is not registered, whether a Pdelta '
        'or a quant rest below a stretching input event is stretched (not '
        'generated), '
        'modifiers without any main pitch key, reverse conversions, db and '
        'velocity together, note/gtranspose/root units for tunings without '
        '12 steps, presence of default-event controls (amp, pan, out, freq) '
        'the event does not explicitly define, order of control pairs, order '
        'of simultaneous bundles, release message of a Pmono voice',
        'the wire is main.process().list of the NRT score; the root-group '
        'and end-marker bundles are ignored',
        'numeric comparison relative 1e-9 (times are dyadic except '
        'legato 0.8 and the S5b family)',
        f'player runs are guarded by a budget of {CALL_BUDGET} python calls']
    ctx.extra['call_budget'] = CALL_BUDGET
    bound = ('K: 1 value/modifier, 8 scales; P: 4 contexts + 52 extension '
             'contexts on 64 instruments; S: dur sequences <=3 (Ppar x3, '
             'Pconst, input events: <=2)') if ctx.tier == 'quick' else \
        ('K: up to 2 values/modifier, 10 scales/tunings, chain cross; P: 64 '
         'contexts + 52 extension contexts on 64 instruments; S: dur '
         'sequences <=4 (Ppar/Pdur/Pconst: <=3)')
    ctx.extra['space'] = bound
    progenum.run(ctx, MODNAME, 'work', jobs(ctx.tier), mode='nrt',
                 bound=ctx.tier,
                 extra_init=EXTRA_INIT)


# ---------------------------------------------------------------------------
# known-finding predicates
# ---------------------------------------------------------------------------

def pred_pattern_has(v, head=None, **params):
    c = v['case']
    return c.get('fam') == 'S' and head in pat_heads(c['pat'])


def pred_scale_is(v, names=(), scale_fn=None, **params):
    c = v['case']
    return c.get('fam') == 'K' and c['given'].get('scale') in names and \
        (scale_fn is None or bool(c.get('scale_fn')) == scale_fn)


def _nodes(p):
    yield p
    for c in pat_children(p):
        yield from _nodes(c)


def _input_stretches(case):
    """stretch values of the input events of the case: Pattern.play(proto=)
    and the constant right operand of a Pchain."""
    out = []
    if case.get('proto') and 'stretch' in case['proto']:
        out.append(case['proto']['stretch'])
    for n in _nodes(case['pat']):
        if n[0] == 'Pchain' and len(n[1]) == 2 and n[1][1][0] == 'Pbind' \
                and n[1][0][0] != 'Pbind' and 'stretch' in n[1][1][1]:
            out.append(n[1][1][1]['stretch'])
    return out


def pred_ppar_stretched_input(v, **params):
    """A Ppar whose input event has a stretch other than 1."""
    c = v['case']
    return c.get('fam') == 'S' and 'Ppar' in pat_heads(c['pat']) and \
        any(x != 1 for x in _input_stretches(c))


def pred_pdur_int_delta(v, **params):
    """A Pdur that cuts an event whose delta is an int: int dur values
    under an int stretch (of the input event or of the leaf), or an explicit
    int delta."""
    c = v['case']
    if c.get('fam') != 'S' or 'Pdur' not in pat_heads(c['pat']):
        return False
    if any(isinstance(x, int) for x in _input_stretches(c)):
        return True
    for n in _nodes(c['pat']):
        if n[0] == 'Pdur':
            for k in _nodes(n[2]):
                if k[0] == 'Pbind' and (
                        isinstance(k[1].get('stretch'), int) or
                        isinstance(k[1].get('delta'), int)):
                    return True
    return False


def pred_ppar_rest_delta(v, **params):
    """A Ppar child that writes a rest as a Rest-valued delta key."""
    c = v['case']
    if c.get('fam') != 'S':
        return False
    for n in _nodes(c['pat']):
        if n[0] == 'Ppar':
            for k in n[1]:
                d = k[1] if k[0] == 'Pbind' else None
                vp = (d or {}).get('delta')
                if isinstance(vp, list) and vp[0] == 'Pseq' and \
                        any(ref.is_rest_marker(i) for i in vp[1]):
                    return True
    return False


def pred_variant_key(v, **params):
    c = v['case']
    return c.get('fam') == 'P' and \
        all('variant' in e['given'] for e in c['events']) and \
        "'bool' object is not callable" in str(v.get('observed'))


def pred_unregistered_instrument(v, **params):
    c = v['case']
    return c.get('fam') == 'P' and \
        all(e['instr'] == 'c14none' for e in c['events']) and \
        'KeyError' in str(v.get('observed'))


PREDICATES = {'pattern_has': pred_pattern_has, 'scale_is': pred_scale_is,
              'ppar_stretched_input': pred_ppar_stretched_input,
              'pdur_int_delta': pred_pdur_int_delta,
              'ppar_rest_delta': pred_ppar_rest_delta,
              'variant_key': pred_variant_key,
              'unregistered_instrument': pred_unregistered_instrument}
