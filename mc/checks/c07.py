"""C07 - bundles are stamped with logical time plus latency; scores are ordered.

RT half (E3, shares the C05 driver): routine bodies send messages, bundles
and nested bundles with latencies {None, -1, 0, 0.25}; every schedule within
the bound; captured datagrams are decoded with the independent OSC codec.
NRT half (E1): the same programs; main.process().list / .raw."""

import struct

from mc import core
from mc.engines import progenum
from mc.oracles import osc10
from mc.checks import c05

MODE = 'rt'
MODNAME = 'mc.checks.c07'

T0 = 1024.0
NTP_OFFSET = 2208988800
LATS = [None, -1, 0, 0.25]
SUBLATS = [None, 0, 0.25, 0.5]


def REPLAY_MODE(v):
    return v['case'].get('mode', 'rt')


def ntp(elapsed):
    """Exact timetag of elapsed seconds (dyadic) in RT-virtual mode."""
    return int((T0 + NTP_OFFSET + elapsed) * 2 ** 32)


# ---------------------------------------------------------------------------
# Programs
# ---------------------------------------------------------------------------

def stmts_alphabet(tier):
    out = [('send', L) for L in LATS]
    out.append(('sendm',))
    subs = SUBLATS if tier == 'thorough' else [None, 0, 0.5]
    for L in (None, 0, 0.25):
        for L2 in subs:
            out.append(('sendb', L, L2))
    return out


def make_prog(clock, items, yields, outside=None, second=None):
    """items: send statements of routine r0, separated by `yields`."""
    tag = [10]

    def stmt(it):
        tag[0] += 1
        if it[0] == 'send':
            return ['send', it[1], tag[0]]
        if it[0] == 'sendm':
            return ['sendm', tag[0]]
        return ['sendb', it[1], it[2], tag[0]]
    body = []
    for i, it in enumerate(items):
        body.append(stmt(it))
        if i < len(yields):
            body.append(['yield', yields[i]])
    routines = {'r0': body}
    main = [['play', 'r0', clock, 0]]
    used = {clock}
    if second:
        more = second if isinstance(second, list) else [second]
        for n, (c2, items2, y2) in enumerate(more):
            b2 = []
            for i, it in enumerate(items2):
                b2.append(stmt(it))
                if i < len(y2):
                    b2.append(['yield', y2[i]])
            routines[f'r{n + 1}'] = b2
            main.append(['play', f'r{n + 1}', c2, 0])
            used.add(c2)
    if outside:
        for dt, it in outside:
            main.append(['sleep', dt])
            main.append(stmt(it))
    clocks = {'s': ['system']}
    for c in sorted(used):
        clocks[c] = c05.CLOCKSPEC[c]
    return {'clocks': clocks, 'routines': routines, 'funcs': {},
            'actors': {'main': main},
            'horizon': 2.0 * sum(yields) + 3.0}


A3 = [('send', None), ('send', 0), ('send', 0.25), ('sendm',),
      ('sendb', 0, 0.5), ('sendb', 0.25, 0), ('sendb', None, None)]


def programs3(mode):
    """Larger family: every 3-send routine over a reduced alphabet, and
    three routines whose bundles tie in time across routines and clocks."""
    out = []
    clocks = ['s', 't2'] if mode == 'rt' else ['s', 't2', 'a']
    for c in clocks:
        for a in A3:
            for b in A3:
                for x in A3:
                    for d1 in (0, 0.25):
                        for d2 in (0, 0.25):
                            out.append(make_prog(c, [a, b, x], [d1, d2]))
    tie = [('send', 0.25), ('send', 0), ('sendb', 0.25, 0.5), ('sendm',)]
    for c1 in clocks:
        for c2 in clocks:
            for a in tie:
                for b in tie:
                    for x in tie:
                        out.append(make_prog(
                            's', [a, ('send', 0)], [0.25],
                            second=[(c1, [b, ('send', 0.25)], [0.25]),
                                    (c2, [('send', 0.25), x], [0.25])]))
    return out


def programs(tier, mode):
    out = []
    A = stmts_alphabet(tier)
    clocks = ['s', 't2'] if mode == 'rt' else ['s', 't2', 'a']
    for c in clocks:
        for a in A:
            out.append(make_prog(c, [a], []))
            for d in (0, 0.25):
                for b in A:
                    out.append(make_prog(c, [a, b], [d]))
    # the program keeps a nested bundle in one list object and sends it
    # several times at different logical times
    for c in clocks:
        for L, L2 in ((0.25, 0.5), (0, 0.25), (None, None)):
            p = make_prog(c, [], [])
            p['routines']['r0'] = [
                ['yield', 0.25], ['sendbo', L, L2, 41], ['yield', 0.25],
                ['sendbo', L, L2, 42], ['yield', 0.5],
                ['sendbo', L, L2, 43]]
            p['horizon'] = 5.0
            out.append(p)
    # two routines sending at equal logical times, different clocks
    for c2 in clocks:
        for a in A[:5]:
            for b in A[:5]:
                out.append(make_prog('s', [a, ('send', 0.25)], [0.25],
                                     second=(c2, [b, ('send', 0)], [0.25])))
    # byte-identical bundles sent more than once at one logical time (the
    # same statement repeated, A B A, two routines in unison): the score
    # lists EVERY bundle, in send order
    if mode == 'nrt':
        for c in clocks:
            for a in [('send', None), ('send', 0), ('send', 0.25),
                      ('sendm',), ('sendb', 0, 0.5)]:
                def st(tag, a=a):
                    if a[0] == 'send':
                        return ['send', a[1], tag]
                    if a[0] == 'sendm':
                        return ['sendm', tag]
                    return ['sendb', a[1], a[2], tag]
                for body in ([st(11), st(11)], [st(11), st(12), st(11)],
                             [st(11), ['yield', 0], st(11)],
                             [st(11), ['yield', 0.25], st(11), st(11)]):
                    p = make_prog(c, [], [])
                    p['routines']['r0'] = body
                    p['dup'] = True
                    out.append(p)
                for c2 in clocks:
                    p = make_prog(c, [], [])
                    p['routines']['r0'] = [st(11), ['yield', 0.5], st(12)]
                    p['routines']['r1'] = [st(11), ['yield', 0.5], st(12)]
                    p['actors']['main'].append(['play', 'r1', c2, 0])
                    p['clocks'][c2] = c05.CLOCKSPEC[c2]
                    p['dup'] = True
                    out.append(p)
    # a routine stepped by hand (next()) from the main thread, and a clock
    # driven one, whose body takes physical time before it sends: the
    # timetag is the routine's logical time + L, not the send instant
    if mode == 'rt':
        for a in A:
            for blk in (0.25, 1.0):
                p = make_prog('s', [a], [])
                body = p['routines']['r0']
                p['routines']['r0'] = [['block', blk]] + body + \
                    [['yieldv', 'x']]
                p['actors']['main'] = [['sleep', 0.5], ['next', 'r0']]
                p['handstep'] = 0.5
                p['horizon'] = 4.0
                out.append(p)
                q = make_prog('s', [a], [])
                q['routines']['r0'] = [['yield', 0.5], ['block', blk]] + \
                    q['routines']['r0']
                q['horizon'] = 5.0
                out.append(q)
    # sends from outside routines at instants where no task is due
    for a in A:
        for dt in (0.125, 0.375):
            if mode == 'rt':
                out.append(make_prog('s', [('send', 0)], [0.25],
                                     outside=[(dt, a)]))
            else:
                out.append(make_prog('s', [('send', 0)], [0.25],
                                     outside=[(0, a)]))
    return out


# ---------------------------------------------------------------------------
# Reference: what every send must put on the wire / in the score
# ---------------------------------------------------------------------------

def expected_sends(prog, mode):
    """List in program order per sender of dict(tag, kind, who, t (logical
    seconds of the send), L, L2, refused)."""
    if prog.get('handstep') is not None:
        sends = []
        for st in prog['routines']['r0']:
            if st[0] in ('send', 'sendm', 'sendb'):
                sends.append(_send(st, 'r0', prog['handstep'], True))
                if sends[-1]['refused']:
                    break
        return sends
    exp_t = c05.expected(prog)
    sends = []
    for rid, stmts in prog['routines'].items():
        k = 0
        for st in stmts:
            if st[0] == 'yield':
                k += 1
            elif st[0] in ('send', 'sendm', 'sendb', 'sendbo'):
                sends.append(_send(st, rid, exp_t[rid][k][0], True))
                if sends[-1]['refused']:
                    break     # the exception ends the routine
    t = 0.0
    for st in prog['actors']['main']:
        if st[0] == 'sleep':
            t += st[1] if mode == 'rt' else 0.0
        elif st[0] in ('send', 'sendm', 'sendb'):
            sends.append(_send(st, 'main', t, False))
    return sends


def _send(st, who, t, in_routine):
    d = {'who': who, 't': t, 'in_routine': in_routine,
         'kind': 'sendb' if st[0] == 'sendbo' else st[0]}
    if st[0] == 'send':
        d.update(L=st[1], tag=st[2], refused=False)
    elif st[0] == 'sendm':
        d.update(L=None, tag=st[1], refused=False)
    else:
        L, L2 = st[1], st[2]
        d.update(L=L, L2=L2, tag=st[3])
        # nested bundles may not precede their parent (OSC 1.0)
        d['refused'] = L is not None and (L2 is None or L > L2)
    return d


def rt_timetag(t, L):
    if L is None or L < 0:
        return osc10.IMMEDIATELY
    return ntp(t + L)


def check_rt(prog, res):
    dis = []
    if res['status'] != 'ok':
        return [(res['status'], 'execution completes', res.get('detail'),
                 '')]
    for name, exc in res['dead']:
        dis.append(('clock-thread-died', None, [name, exc], ''))
    sends = {s['tag']: s for s in expected_sends(prog, 'rt')}
    raised = {}
    for e in res['trace']:
        if e[0] == 'raises':
            st = e[2]
            tag = st[-1]
            raised[tag] = e[3]
            if e[3] == 'ProgramDataAltered':
                dis.append(('program-bundle-list-altered', 'unchanged',
                            e[4], str(st)))
    task_instants = {e[3] for e in res['trace'] if e[0] in ('res', 'wake')}
    for e in res['trace']:
        if e[0] == 'send' and e[1] == 'main' and e[3] in sends:
            # a main-thread send that coincides with a task execution (same
            # virtual instant, possible only through injected lateness) is
            # outside the statement: its timetag is a don't-care
            sends[e[3]] = dict(sends[e[3]], t=e[4],
                               racing=e[4] in task_instants)
    seen = {}
    for now, hexd in res['sent']:
        try:
            pkt = osc10.decode(bytes.fromhex(hexd))
        except osc10.OscError as ex:
            dis.append(('rt-datagram-not-osc', 'OSC 1.0', str(ex), hexd))
            continue
        msgs = osc10.flatten(pkt)
        if not msgs:
            dis.append(('rt-empty-datagram', None, hexd, ''))
            continue
        tag = msgs[0][2][0][1] if msgs[0][2] else None
        if tag in seen:
            dis.append(('rt-sent-twice', 1, 2, f'tag {tag}'))
        seen[tag] = (now, pkt)
    for tag in seen:
        if tag not in sends:
            dis.append(('rt-send-after-refused-bundle', 'routine ended by '
                        'the refusal', f'datagram {tag} sent', ''))
    for tag, s in sends.items():
        if s['refused']:
            if tag in seen:
                dis.append(('rt-nested-before-parent-accepted', 'refused',
                            'sent', str(s)))
            elif tag not in raised:
                dis.append(('rt-nested-before-parent-silent', 'an exception',
                            'nothing', str(s)))
            continue
        if tag in raised:
            dis.append(('rt-send-raises', 'sent', raised[tag], str(s)))
            continue
        if tag not in seen:
            dis.append(('rt-not-sent', 'sent', 'missing', str(s)))
            continue
        now, pkt = seen[tag]
        where = 'routine' if s['in_routine'] else 'outside'
        if s['kind'] == 'sendm':
            if pkt['type'] != 'message':
                dis.append(('rt-message-wrapped', 'message', pkt['type'], ''))
            continue
        if pkt['type'] != 'bundle':
            dis.append(('rt-bundle-not-bundle', 'bundle', pkt['type'], ''))
            continue
        if s.get('racing'):
            continue
        want = rt_timetag(s['t'], s['L'])
        if abs(pkt['timetag'] - want) > 2:
            kind = 'immediately' if want == 1 else 'logical-plus-latency'
            dis.append((f'rt-timetag-{kind}-{where}', want, pkt['timetag'],
                        f'{s}; physical send instant {now}; difference '
                        f'{(pkt["timetag"] - want) / 2 ** 32} s'))
        if s['kind'] == 'sendb':
            inner = [e for e in pkt['elements'] if e['type'] == 'bundle']
            if len(inner) != 1:
                dis.append(('rt-nested-structure', 1, len(inner), str(s)))
            else:
                w2 = rt_timetag(s['t'], s['L2'])
                if abs(inner[0]['timetag'] - w2) > 2:
                    dis.append((f'rt-nested-timetag-{where}', w2,
                                inner[0]['timetag'], str(s)))
    return dis


def check_nrt(prog, res):
    dis = []
    sends = expected_sends(prog, 'nrt')
    order = []      # execution order of sends = order of 'send' events
    for e in res['trace']:
        if e[0] == 'send':
            order.append((e[1], e[3]))
    bytag = {s['tag']: s for s in sends}
    # the k-th send of a tag by a sender is the k-th expected one (programs
    # may repeat a byte-identical send)
    perkey = {}
    for s in sends:
        perkey.setdefault((s['who'], s['tag']), []).append(s)
    exp = []
    for i, (who, tag) in enumerate(order):
        q = perkey.get((who, tag))
        s = q.pop(0) if q else None
        if s is None:
            dis.append(('nrt-send-after-refused-bundle', 'routine ended by '
                        'the refusal', f'send {tag} executed', ''))
            continue
        if s['refused']:
            continue
        L = s['L']
        base = s['t'] if s['in_routine'] else 0.0
        t = base + (0.0 if (L is None or L < 0) else L)
        if s['kind'] == 'sendm':
            t = base
        exp.append((t, i, tag, s))
    exp.sort(key=lambda x: (x[0], x[1]))
    score = res['score']
    if not score or score[0][1][0] != '/g_new':
        dis.append(('nrt-score-head', '/g_new first', score[:1], ''))
    body = score[1:-1]
    got = [(b[0], b[1][1] if len(b) > 1 and len(b[1]) > 1 else None)
           for b in body]
    want = [(t, tag) for t, _, tag, _ in exp]
    if got != want:
        kind = 'nrt-score-times' if sorted(g[1] for g in got) == \
            sorted(w[1] for w in want) and [g[1] for g in got] == \
            [w[1] for w in want] else 'nrt-score-order-or-content'
        dis.append((kind, want, got,
                    'score entries (time, tag) between root node and tail'))
    for (t, _, tag, s), b in zip(exp, body):
        if s['kind'] == 'sendb':
            base = s['t'] if s['in_routine'] else 0.0
            L2 = s['L2']
            want2 = base + (0.0 if (L2 is None or L2 < 0) else L2)
            inner = [x for x in b[1:] if isinstance(x[0], (int, float))]
            if len(inner) != 1 or inner[0][0] != want2:
                dis.append(('nrt-nested-time', want2,
                            inner[0][0] if inner else None, str(s)))
    # tail marker: last entry, at the last instant + tail
    last = score[-1]
    if last[1][0] != '/c_set':
        dis.append(('nrt-tail-marker', '/c_set last', last, ''))
    elif any(last[0] < b[0] for b in score):
        dis.append(('nrt-tail-before-entries', '>= all', last[0], ''))
    # raw form = concatenation of length-prefixed encodings of the list
    try:
        enc = b''.join(_enc_entry(b) for b in score)
        if enc.hex() != res['raw']:
            dis.append(('nrt-raw-differs-from-list', enc.hex()[:200],
                        res['raw'][:200], ''))
    except Exception as ex:
        dis.append(('nrt-raw-unencodable', None, repr(ex), ''))
    for e in res['trace']:
        if e[0] == 'raises' and e[3] == 'ProgramDataAltered':
            dis.append(('program-bundle-list-altered', 'unchanged', e[4],
                        str(e[2])))
            continue
        if e[0] == 'raises' and e[2][0] in ('send', 'sendm', 'sendb',
                                           'sendbo'):
            s = bytag.get(e[2][-1])
            if s is not None and not s['refused']:
                dis.append(('nrt-send-raises', 'accepted', e[3:], str(s)))
    refused_in_score = [tag for _, tag in got
                        if tag in bytag and bytag[tag]['refused']]
    if refused_in_score:
        dis.append(('nrt-nested-before-parent-accepted', [],
                    refused_in_score, ''))
    return dis


def _enc_entry(b):
    def struct_of(x):
        if isinstance(x[0], str):
            return {'type': 'message', 'address': x[0],
                    'args': list(x[1:])}
        return {'type': 'bundle', 'timetag': int(x[0] * 2 ** 32),
                'elements': [struct_of(e) for e in x[1:]]}
    raw = osc10.encode(struct_of(b))
    return struct.pack('>i', len(raw)) + raw


# ---------------------------------------------------------------------------
# Incoming bundles: time argument delivered to receive functions
# ---------------------------------------------------------------------------

def recv_programs():
    out = []
    for at in (0.125, 0.5):
        for tt in ('immediate', 'msg', 0.25, 1.0, -0.5):
            if tt == 'msg':
                data = osc10.encode_message('/in', [7])
            elif tt == 'immediate':
                data = osc10.encode_bundle(1, [
                    {'type': 'message', 'address': '/in', 'args': [7]}])
            else:
                data = osc10.encode_bundle(ntp(at + tt), [
                    {'type': 'message', 'address': '/in', 'args': [7]},
                    {'type': 'bundle', 'timetag': ntp(at + tt + 0.25),
                     'elements': [{'type': 'message', 'address': '/in2',
                                   'args': [8]}]}])
            out.append({'clocks': {'s': ['system']}, 'routines': {},
                        'funcs': {}, 'recv': True, 'recv_at': at,
                        'recv_tt': tt,
                        'actors': {'main': [['sleep', at],
                                            ['deliver', data.hex(), 57110]]},
                        'horizon': 3.0})
    return out


def check_recv(prog, res):
    dis = []
    if res['status'] != 'ok':
        return [(res['status'], 'completes', res.get('detail'), '')]
    at, tt = prog['recv_at'], prog['recv_tt']
    got = [e for e in res['trace'] if e[0] == 'recv']
    if tt in ('msg', 'immediate'):
        want = [(['/in', 7], at)]
    else:
        want = [(['/in', 7], at + tt), (['/in2', 8], at + tt + 0.25)]
    have = [(e[1], e[2]) for e in got]
    if [w[0] for w in want] != [h[0] for h in have]:
        dis.append(('recv-messages', want, have, ''))
        return dis
    for (m, t), (_, ht) in zip(want, have):
        if abs(ht - t) > 2 * 2.0 ** -32:
            dis.append(('recv-time-argument', t, ht, str(m)))
    return dis


# ---------------------------------------------------------------------------
# Workers
# ---------------------------------------------------------------------------

def work_rt(job):
    from mc import rtprog
    from mc.engines import schedx
    acc = progenum.Acc(max_samples=1)
    for prog in job['progs']:
        checker = check_recv if prog.get('recv') else check_rt

        def run(prefix, prog=prog):
            return rtprog.run_rt(prog, prefix)

        def on_result(choices, points, res, prog=prog, checker=checker):
            pre, late = schedx.cost_of(points, choices)
            case = {'mode': 'rt', 'prog': prog, 'choices': list(choices)}
            for kind, exp, obs, detail in checker(prog, res):
                acc.violation(kind, case, exp, obs, detail,
                              size=(pre + late) * 100000 + len(choices) * 100
                              + len(core.canon(prog)) // 10)
            acc.case(case, (pre + late) > 0, res['sent'],
                     steps=res['steps'])
        r = schedx.explore(run, job['max_pre'], job['max_late'], on_result)
        acc.count('executions', r['executions'])
    return acc.result()


def work_nrt(job):
    from mc import rtprog
    acc = progenum.Acc(max_samples=2)
    for prog in job['progs']:
        res = rtprog.run_nrt(prog, tail=0.5)
        case = {'mode': 'nrt', 'prog': prog}
        for kind, exp, obs, detail in check_nrt(prog, res):
            acc.violation(kind, case, exp, obs, detail)
        acc.case(case, len(res['score']) > 3, res['score'],
                 steps=len(res['trace']))
    return acc.result()


def replay(job):
    from mc import rtprog
    case = job['case']
    prog = case['prog']
    if case.get('mode') == 'nrt':
        res = rtprog.run_nrt(prog, tail=0.5)
        dis = check_nrt(prog, res)
        extra = {'score': res['score']}
    else:
        _, _, res = rtprog.run_rt(prog, case['choices'])
        dis = (check_recv if prog.get('recv') else check_rt)(prog, res)
        extra = {'sent': res['sent']}
    return dict(extra, violates=any(d[0] == job['kind'] for d in dis),
                disagreements=[[d[0], repr(d[1])[:300], repr(d[2])[:300]]
                               for d in dis], trace=res['trace'])


def main(ctx):
    ctx.rule = (
        'Programs: a routine on SystemClock/TempoClock(2) (NRT also AppClock) '
        'sending 1-2 of {send_bundle(L), send_msg, nested bundle (L, L2)} '
        'with L in {None,-1,0,0.25}, separated by yields {0,0.25}; two '
        'routines sending at equal times; every 3-send routine over a 7-statement alphabet and three routines on all clock combinations whose bundles tie in time (quick: a seed-selected 1/8 resp. 1/4 slice); sends from outside routines at '
        'instants where no task is due; incoming bundles with five timetag '
        'variants. RT: every schedule with <=P preemptions and <=L late '
        'timers, datagrams decoded with mc/oracles/osc10.py; NRT: score list '
        'and raw form. Non-trivial (RT) = execution with >=1 deviation; (NRT) '
        '= score with more than one user bundle.')
    ctx.assumptions += [
        'virtual epoch T0=1024 s and dyadic times make every expected timetag '
        'exact; 2 LSB (2^-31 s) tolerance is still allowed',
        'sends from the main thread happen only while no task is executing',
        'logical times come from the reference of C05 (mc/checks/c05.py '
        'expected())']
    rt = programs(ctx.tier, 'rt') + recv_programs()
    nrt = programs(ctx.tier, 'nrt')
    rt3, nrt3 = programs3('rt'), programs3('nrt')
    if ctx.tier == 'quick':
        rt3 = rt3[core.pick_slice(ctx.seed, 8)::8]
        nrt3 = nrt3[core.pick_slice(ctx.seed, 4)::4]
    rt, nrt = rt + rt3, nrt + nrt3
    bounds = [(2, 1)] if ctx.tier == 'quick' else [(3, 2)]
    for mp, ml in bounds:
        jobs = [{'progs': c, 'max_pre': mp, 'max_late': ml}
                for c in c05.chunks(rt, 96)]
        progenum.run(ctx, MODNAME, 'work_rt', jobs, mode='rt',
                     bound=f'RT <= {mp} preemptions, <= {ml} late timers')
    jobs = [{'progs': c} for c in c05.chunks(nrt, 32)]
    progenum.run(ctx, MODNAME, 'work_nrt', jobs, mode='nrt', bound='NRT')
    ctx.extra['rt_programs'] = len(rt)
    ctx.extra['nrt_programs'] = len(nrt)
