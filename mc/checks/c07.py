"""C07 - bundles are stamped with logical time plus latency; scores are ordered.

RT half (E3, shares the C05 driver): routine bodies send messages, bundles
and nested bundles with latencies {None, -1, 0, 0.25}; every schedule within
the bound; captured datagrams are decoded with the independent OSC codec.
NRT half (E1): the same programs; main.process().list / .raw.

Audit widening (programs_wide): further latencies, bundle shapes (general
statement ['sx', via, template, tag]), entry points (send_clumped_bundles,
Server.bind, NetAddr.sync, bundles inside messages), function tasks, inner
routines, a second plain thread, AppClock in RT, NRT tail times.  The
interpreter extension lives in this module (Run7), mc/rtprog.py is shared."""

import copy
import struct
from fractions import Fraction

from mc import core
from mc.engines import progenum
from mc.oracles import osc10
from mc.checks import c05

MODE = 'rt'
MODNAME = 'mc.checks.c07'

T0 = 1024.0
NTP_OFFSET = 2208988800
LATS = [None, -1, 0, 0.25]
SUBLATS = [None, 0, 0.25, 0.5]


def REPLAY_MODE(v):
    return v['case'].get('mode', 'rt')


def ntp(elapsed):
    """Exact timetag of elapsed seconds (dyadic) in RT-virtual mode."""
    return int((T0 + NTP_OFFSET + elapsed) * 2 ** 32)


def ntp_sum(t, L):
    """Timetag of t + L for arbitrary (also non-dyadic) floats: the exact
    rational sum of the two doubles, truncated.  The library adds the two
    doubles first (one rounding, < 2^-20 LSB): covered by the 2 LSB
    tolerance.  Equals ntp(t + L) for dyadic values."""
    return int((Fraction(t) + Fraction(L)) * 2 ** 32) + \
        (int(T0) + NTP_OFFSET) * 2 ** 32


# ---------------------------------------------------------------------------
# Programs
# ---------------------------------------------------------------------------

def stmts_alphabet(tier):
    out = [('send', L) for L in LATS]
    out.append(('sendm',))
    subs = SUBLATS if tier == 'thorough' else [None, 0, 0.5]
    for L in (None, 0, 0.25):
        for L2 in subs:
            out.append(('sendb', L, L2))
    return out


def make_prog(clock, items, yields, outside=None, second=None):
    """items: send statements of routine r0, separated by `yields`."""
    tag = [10]

    def stmt(it):
        tag[0] += 1
        if it[0] == 'send':
            return ['send', it[1], tag[0]]
        if it[0] == 'sendm':
            return ['sendm', tag[0]]
        if it[0] in ('sx', 'sxq'):
            return [it[0], it[1], fill(it[2], tag[0]), tag[0]]
        return ['sendb', it[1], it[2], tag[0]]
    body = []
    for i, it in enumerate(items):
        body.append(stmt(it))
        if i < len(yields):
            body.append(['yield', yields[i]])
    routines = {'r0': body}
    main = [['play', 'r0', clock, 0]]
    used = {clock}
    if second:
        more = second if isinstance(second, list) else [second]
        for n, (c2, items2, y2) in enumerate(more):
            b2 = []
            for i, it in enumerate(items2):
                b2.append(stmt(it))
                if i < len(y2):
                    b2.append(['yield', y2[i]])
            routines[f'r{n + 1}'] = b2
            main.append(['play', f'r{n + 1}', c2, 0])
            used.add(c2)
    if outside:
        for dt, it in outside:
            main.append(['sleep', dt])
            main.append(stmt(it))
    clocks = {'s': ['system']}
    for c in sorted(used):
        clocks[c] = c05.CLOCKSPEC[c]
    return {'clocks': clocks, 'routines': routines, 'funcs': {},
            'actors': {'main': main},
            'horizon': 2.0 * sum(yields) + 3.0}


def fill(shape, tag):
    """Bundle / message template -> plain data: 'T' becomes the tag."""
    if isinstance(shape, (list, tuple)):
        return [fill(x, tag) for x in shape]
    return tag if shape == 'T' else shape


A3 = [('send', None), ('send', 0), ('send', 0.25), ('sendm',),
      ('sendb', 0, 0.5), ('sendb', 0.25, 0), ('sendb', None, None)]


def programs3(mode):
    """Larger family: every 3-send routine over a reduced alphabet, and
    three routines whose bundles tie in time across routines and clocks."""
    out = []
    clocks = ['s', 't2'] if mode == 'rt' else ['s', 't2', 'a']
    for c in clocks:
        for a in A3:
            for b in A3:
                for x in A3:
                    for d1 in (0, 0.25):
                        for d2 in (0, 0.25):
                            out.append(make_prog(c, [a, b, x], [d1, d2]))
    tie = [('send', 0.25), ('send', 0), ('sendb', 0.25, 0.5), ('sendm',)]
    for c1 in clocks:
        for c2 in clocks:
            for a in tie:
                for b in tie:
                    for x in tie:
                        out.append(make_prog(
                            's', [a, ('send', 0)], [0.25],
                            second=[(c1, [b, ('send', 0.25)], [0.25]),
                                    (c2, [('send', 0.25), x], [0.25])]))
    return out


def programs(tier, mode):
    out = []
    A = stmts_alphabet(tier)
    clocks = ['s', 't2'] if mode == 'rt' else ['s', 't2', 'a']
    for c in clocks:
        for a in A:
            out.append(make_prog(c, [a], []))
            for d in (0, 0.25):
                for b in A:
                    out.append(make_prog(c, [a, b], [d]))
    # the program keeps a nested bundle in one list object and sends it
    # several times at different logical times
    for c in clocks:
        for L, L2 in ((0.25, 0.5), (0, 0.25), (None, None)):
            p = make_prog(c, [], [])
            p['routines']['r0'] = [
                ['yield', 0.25], ['sendbo', L, L2, 41], ['yield', 0.25],
                ['sendbo', L, L2, 42], ['yield', 0.5],
                ['sendbo', L, L2, 43]]
            p['horizon'] = 5.0
            out.append(p)
    # two routines sending at equal logical times, different clocks
    for c2 in clocks:
        for a in A[:5]:
            for b in A[:5]:
                out.append(make_prog('s', [a, ('send', 0.25)], [0.25],
                                     second=(c2, [b, ('send', 0)], [0.25])))
    # byte-identical bundles sent more than once at one logical time (the
    # same statement repeated, A B A, two routines in unison): the score
    # lists EVERY bundle, in send order
    if mode == 'nrt':
        for c in clocks:
            for a in [('send', None), ('send', 0), ('send', 0.25),
                      ('sendm',), ('sendb', 0, 0.5)]:
                def st(tag, a=a):
                    if a[0] == 'send':
                        return ['send', a[1], tag]
                    if a[0] == 'sendm':
                        return ['sendm', tag]
                    return ['sendb', a[1], a[2], tag]
                for body in ([st(11), st(11)], [st(11), st(12), st(11)],
                             [st(11), ['yield', 0], st(11)],
                             [st(11), ['yield', 0.25], st(11), st(11)]):
                    p = make_prog(c, [], [])
                    p['routines']['r0'] = body
                    p['dup'] = True
                    out.append(p)
                for c2 in clocks:
                    p = make_prog(c, [], [])
                    p['routines']['r0'] = [st(11), ['yield', 0.5], st(12)]
                    p['routines']['r1'] = [st(11), ['yield', 0.5], st(12)]
                    p['actors']['main'].append(['play', 'r1', c2, 0])
                    p['clocks'][c2] = c05.CLOCKSPEC[c2]
                    p['dup'] = True
                    out.append(p)
    # a routine stepped by hand (next()) from the main thread, and a clock
    # driven one, whose body takes physical time before it sends: the
    # timetag is the routine's logical time + L, not the send instant
    if mode == 'rt':
        for a in A:
            for blk in (0.25, 1.0):
                p = make_prog('s', [a], [])
                body = p['routines']['r0']
                p['routines']['r0'] = [['block', blk]] + body + \
                    [['yieldv', 'x']]
                p['actors']['main'] = [['sleep', 0.5], ['next', 'r0']]
                p['handstep'] = 0.5
                p['horizon'] = 4.0
                out.append(p)
                q = make_prog('s', [a], [])
                q['routines']['r0'] = [['yield', 0.5], ['block', blk]] + \
                    q['routines']['r0']
                q['horizon'] = 5.0
                out.append(q)
    # sends from outside routines at instants where no task is due
    for a in A:
        for dt in (0.125, 0.375):
            if mode == 'rt':
                out.append(make_prog('s', [('send', 0)], [0.25],
                                     outside=[(dt, a)]))
            else:
                out.append(make_prog('s', [('send', 0)], [0.25],
                                     outside=[(0, a)]))
    return out


# ---------------------------------------------------------------------------
# Wider families (audit): latencies beyond {None,-1,0,0.25}, bundle shapes
# beyond one nested bundle, other entry points, function tasks, inner
# routines, AppClock in RT, tail times
# ---------------------------------------------------------------------------

# below zero but above -1, float zero, int and float one, non-dyadic (the
# default server latency is 0.2), long, tiny, very long
WIDE = [-0.25, 0.0, 1, 1.0, 0.1, 0.2, 3.0, 2.0 ** -20, 100.0]
WPAIRS = [(0.1, 0.1), (0.1, 0.2), (0.2, 0.1), (1, 1.0), (1.0, 1), (0, 0.1),
          (0.1, 0), (-1, 0.25), (-0.25, 0), (None, -1), (0, -1),
          (0.25, -0.25), (3.0, 100.0), (100.0, 3.0), (0.0, 0), (1, 0.25),
          (0.25, 1), (2.0 ** -20, 0), (0, 2.0 ** -20)]
P_LATS = [None, -1, 0, 0.25]
C_LATS = [None, -1, 0, 0.25, 0.5]


def shapes():
    """(via, template) of the general send statement; every message of one
    send carries the tag 'T' as first argument."""
    out = []
    for P in P_LATS:
        for C in C_LATS:
            for D in C_LATS:
                # three levels; two nested bundles side by side
                out.append(('bundle', [P, ['/t', 'T'],
                                       [C, ['/u', 'T'], [D, ['/v', 'T']]]]))
                out.append(('bundle', [P, ['/t', 'T'], [C, ['/u', 'T']],
                                       [D, ['/v', 'T']]]))
            # nested bundle first; nested bundle only
            out.append(('bundle', [P, [C, ['/u', 'T']], ['/t', 'T']]))
            out.append(('bundle', [P, [C, ['/u', 'T']]]))
            out.append(('clumped', [P, ['/t', 'T'], [C, ['/u', 'T']]]))
            # a bundle inside a message (completion message) that does not
            # precede the enclosing bundle
            if nested_rule(P, C) is False:
                out.append(('bundle', [P, ['/t', 'T', [C, ['/u', 'T']]]]))
                out.append(('bundle', [P, ['/t', 'T', [C, ['/u', 'T']]],
                                       [C, ['/v', 'T']]]))
        out.append(('clumped', [P, ['/t', 'T']]))
        out.append(('clumped', [P, ['/t', 'T'], ['/u', 'T']]))
        out.append(('bind', [P, ['/t', 'T'], ['/u', 'T']]))
        out.append(('bundle', [P, ['/t', 'T', ['/u', 'T']]]))
    for C in C_LATS + [0.2, 1]:
        out.append(('msg', [None, ['/t', 'T', [C, ['/u', 'T']]]]))
        out.append(('msg', [None, ['/t', 'T', [C, ['/u', 'T'],
                                               [C, ['/v', 'T']]]]]))
    out.append(('msg', [None, ['/t', 'T', ['/u', 'T']]]))
    out.append(('msg', [None, ['/t', 'T', ['/u', 'T', [0.25, ['/v', 'T']]]]]))
    for L in (0.2, 0.1, 1):
        out.append(('bind', [L, ['/t', 'T']]))
        out.append(('clumped', [L, ['/t', 'T']]))
    return out


def func_prog(cid, sends0, sends1, routine=None):
    """A plain function scheduled at 0.5 beats that re-schedules itself
    once after 0.25 and sends at both calls (tags from 61 / 71)."""
    def stmts(items, tag):
        out = []
        for it in items:
            tag += 1
            if it[0] == 'send':
                out.append(['send', it[1], tag])
            elif it[0] == 'sendm':
                out.append(['sendm', tag])
            elif it[0] == 'sx':
                out.append(['sx', it[1], fill(it[2], tag), tag])
            else:
                out.append(['sendb', it[1], it[2], tag])
        return out
    if routine:
        p = make_prog(routine[0], routine[1], routine[2])
    else:
        p = make_prog('s', [], [])
        p['routines'] = {}
        p['actors']['main'] = []
    p['clocks'][cid] = c05.CLOCKSPEC[cid]
    p['funcs'] = {'f0': {'returns': [0.25, None],
                         'sends': {'0': stmts(sends0, 60),
                                   '1': stmts(sends1, 70)}}}
    p['actors']['main'].append(['sched', cid, 0.5, 'f0'])
    p['horizon'] = 4.0
    return p


def programs_wide(mode):
    """-> (programs every run explores, programs of which the quick tier
    explores a seed-selected slice)."""
    core_, extra = [], []
    clocks = ['s', 't2'] if mode == 'rt' else ['s', 't2', 'a']
    # 1. latencies
    for c in clocks:
        for L in WIDE:
            core_.append(make_prog(c, [('send', 0), ('send', L)], [0.25]))
        for L, L2 in WPAIRS:
            core_.append(make_prog(c, [('send', 0), ('sendb', L, L2)],
                                   [0.25]))
    for L in WIDE:
        core_.append(make_prog('s', [('send', 0)], [0.25],
                               outside=[(0.125 if mode == 'rt' else 0,
                                         ('send', L))]))
    # 2. bundle shapes and entry points: in a routine at a logical time > 0,
    # outside routines, in a function task
    sh = shapes()
    for via, b in sh:
        core_.append(make_prog('s', [('send', 0), ('sx', via, b)], [0.25]))
        for c in clocks[1:]:
            extra.append(make_prog(c, [('send', 0), ('sx', via, b)], [0.25]))
        extra.append(make_prog('s', [('send', 0)], [0.25],
                               outside=[(0.125 if mode == 'rt' else 0,
                                         ('sx', via, b))]))
        extra.append(func_prog('s', [('send', 0.25)], [('sx', via, b)]))
    # 3. function tasks ("outside routines" at a time > 0): plain sends on
    # every clock, alone and next to a routine whose bundles tie with theirs
    fa = [('send', None), ('send', -1), ('send', 0), ('send', 0.25),
          ('send', 0.2), ('sendm',), ('sendb', 0, 0.5), ('sendb', 0.25, 0.25),
          ('sendb', None, 0), ('sendb', 0.25, 0)]
    for c in (['s', 't2'] if mode == 'rt' else ['s', 't2', 'a']):
        for a in fa:
            for b in fa[:7]:
                (core_ if c == 's' else extra).append(
                    func_prog(c, [a], [b, ('send', 0)]))
    for a in fa[:7]:
        for b in (('send', 0.5), ('send', 0.25), ('sendm',)):
            core_.append(func_prog(
                's', [a, ('send', 0.5)], [('send', 0.25)],
                routine=('s', [('send', 0.25), b, ('send', 0)],
                         [0.25, 0.25])))
    # 4. an inner routine stepped with next() by a clock driven one sends
    # at the caller's logical time
    ia = [('send', 0), ('send', 0.25), ('send', None), ('sendm',),
          ('sendb', 0, 0.5), ('sendb', None, None), ('send', 0.2)]
    for c in clocks:
        for a in ia:
            for b in ia:
                p = make_prog(c, [a, b], [])
                st = p['routines']['r0']
                p['routines']['n0'] = [st[0], ['yieldv', 'x'], st[1],
                                       ['yieldv', 'y']]
                p['routines']['r0'] = [['yield', 0.25], ['next', 'n0'],
                                       ['yield', 0.5], ['next', 'n0']]
                p['horizon'] = 4.5
                (core_ if c == 's' else extra).append(p)
    if mode == 'nrt':
        # 4a. the SAME (send time > 0, latency) pair converted outside
        # routines (a function task: absolute) and inside a routine
        # (logical time + latency) in one program, in both orders, through
        # every entry point: each bundle keeps its own time in the list
        # and in the bytes
        ct = [('send', 0.5), ('send', 0), ('send', 0.25), ('send', None),
              ('send', -1), ('sendm',), ('sendb', 0.25, 0.5),
              ('sendb', None, 0), ('sendb', 0, 0),
              ('sx', 'bundle', [0.25, ['/t', 'T', [0.5, ['/u', 'T']]]]),
              ('sx', 'bundle', [0, ['/t', 'T'],
                                [0.25, ['/u', 'T'], [0.5, ['/v', 'T']]]]),
              ('sx', 'msg', [None, ['/t', 'T', [0.25, ['/u', 'T']]]]),
              ('sx', 'msg', [None, ['/t', 'T', ['/u', 'T',
                                               [0.5, ['/v', 'T']]]]]),
              ('sx', 'clumped', [0.25, ['/t', 'T']]),
              ('sx', 'clumped', [0.25, ['/t', 'T'], [0.5, ['/u', 'T']]]),
              ('sx', 'bind', [0.25, ['/t', 'T'], ['/u', 'T']]),
              ('sx', 'bind', [0, ['/t', 'T']])]
        for cr in clocks:
            for cf in clocks:
                for it in ct:
                    for func_first in (True, False):
                        p = make_prog(cr, [it], [])
                        p['routines']['r0'] = \
                            [['yield', 0.5 * c05.TEMPO[cr]]] + \
                            p['routines']['r0']
                        p['clocks'][cf] = c05.CLOCKSPEC[cf]
                        fs = make_prog('s', [it], [])['routines']['r0'][0]
                        fs = fs[:-1] + [61]
                        if fs[0] == 'sx':
                            fs[2] = fill(it[2], 61)
                        tf = c05.TEMPO[cf]
                        if func_first:
                            # queued before the routine re-schedules itself
                            p['funcs'] = {'f0': {'returns': [None],
                                                 'sends': {'0': [fs]}}}
                            p['actors']['main'].append(
                                ['sched', cf, 0.5 * tf, 'f0'])
                        else:
                            p['funcs'] = {'f0': {
                                'returns': [0.25 * tf, None],
                                'sends': {'1': [fs]}}}
                            p['actors']['main'].append(
                                ['sched', cf, 0.25 * tf, 'f0'])
                        p['horizon'] = 4.0
                        assert context_pairs(p), p
                        core_.append(p)
    if mode == 'rt':
        # 4b. NetAddr.sync(latency=L, elements=...) from a routine
        for c in clocks:
            for L in P_LATS + [0.2, 1]:
                for b in ([L, ['/t', 'T']], [L, ['/t', 'T'], ['/u', 'T']]):
                    (core_ if c == 's' else extra).append(make_prog(
                        c, [('send', 0), ('sx', 'sync', b)], [0.25]))
        # 4c. a plain thread other than the main thread sends while a
        # routine plays ("outside routines": the current time + L)
        xa = [('send', None), ('send', -1), ('send', 0), ('send', 0.25),
              ('send', 0.2), ('sendm',), ('sendb', 0, 0.5),
              ('sendb', None, 0), ('sendb', 0.25, 0),
              ('sx', 'bundle', [0, ['/t', 'T', [0.25, ['/u', 'T']]]]),
              ('sx', 'msg', [None, ['/t', 'T', [0.25, ['/u', 'T']]]]),
              ('sx', 'bind', [0.25, ['/t', 'T'], ['/u', 'T']])]
        for a in xa:
            for dt in (0.125, 0.375):
                p = make_prog('s', [('send', 0)], [0.25],
                              outside=[(dt, a)])
                m = p['actors']['main']
                p['actors'] = {'main': m[:1], 'X': m[1:]}
                (core_ if dt == 0.125 else extra).append(p)
        # 4c'. a plain function task whose body takes physical time (its
        # clock thread is in the middle of the awake call for 0.5 s) while
        # the main thread or a second plain thread sends: outside routines
        # the timetag is the current time (the physical instant of the
        # send call) + L, not the scheduled time of that unrelated task
        ba = [('bundle', [0, ['/t', 'T']]), ('bundle', [0.25, ['/t', 'T']]),
              ('bundle', [0.2, ['/t', 'T']]), ('bundle', [1, ['/t', 'T']]),
              ('bundle', [None, ['/t', 'T']]),
              ('bundle', [0, ['/t', 'T'], [0.25, ['/u', 'T']]]),
              ('bundle', [0.25, ['/t', 'T'],
                          [0.25, ['/u', 'T'], [0.5, ['/v', 'T']]]]),
              ('bundle', [None, ['/t', 'T'], [0, ['/u', 'T']]]),
              ('bundle', [0, ['/t', 'T', [0.25, ['/u', 'T']]]]),
              ('msg', [None, ['/t', 'T', [0, ['/u', 'T']]]]),
              ('msg', [None, ['/t', 'T', [0.25, ['/u', 'T']]]]),
              ('clumped', [0, ['/t', 'T']]),
              ('clumped', [0.25, ['/t', 'T'], [0.5, ['/u', 'T']]]),
              ('bind', [0, ['/t', 'T']]),
              ('bind', [0.25, ['/t', 'T'], ['/u', 'T']])]
        for c in ('s', 't2', 'a'):
            for via, b in ba:
                for who in ('main', 'X'):
                    p = make_prog('s', [], [])
                    p['routines'] = {}
                    p['clocks'][c] = c05.CLOCKSPEC[c]
                    # woken at 0.25 s, busy until 0.75 s
                    p['funcs'] = {'f0': {'returns': [None], 'sends': {
                        '0': [['block', 0.5]]}}}
                    m = [['sched', c, 0.25 * c05.TEMPO[c], 'f0']]
                    snd = [['sleep', 0.5], ['sxq', via, fill(b, 81), 81]]
                    p['actors'] = {'main': m + snd} if who == 'main' \
                        else {'main': m, 'X': snd}
                    p['busy_task'] = [0.25, 0.75]
                    p['horizon'] = 3.0
                    core_.append(p)
        # 4d. the other entry points from a routine stepped by hand and from
        # a clock driven one whose body takes physical time before it sends
        hs = [('sx', 'msg', [None, ['/t', 'T', [0, ['/u', 'T']]]]),
              ('sx', 'msg', [None, ['/t', 'T', [0.25, ['/u', 'T']]]]),
              ('sx', 'bundle', [0, ['/t', 'T', [0.25, ['/u', 'T']]]]),
              ('sx', 'bundle', [0.25, ['/t', 'T'],
                                [0.25, ['/u', 'T'], [0.5, ['/v', 'T']]]]),
              ('sx', 'clumped', [0, ['/t', 'T']]),
              ('sx', 'clumped', [0.25, ['/t', 'T'], [0.5, ['/u', 'T']]]),
              ('sx', 'bind', [0, ['/t', 'T']]),
              ('sx', 'bind', [0.25, ['/t', 'T'], ['/u', 'T']]),
              ('sx', 'sync', [0, ['/t', 'T']]),
              ('sx', 'sync', [0.25, ['/t', 'T']]),
              ('send', 0.2), ('send', 1), ('sendb', 0.1, 0.2)]
        for a in hs:
            for blk in (0.25, 1.0):
                p = make_prog('s', [a], [])
                body = p['routines']['r0']
                p['routines']['r0'] = [['block', blk]] + body + \
                    [['yieldv', 'x']]
                p['actors']['main'] = [['sleep', 0.5], ['next', 'r0']]
                p['handstep'] = 0.5
                p['horizon'] = 4.0
                q = make_prog('s', [a], [])
                q['routines']['r0'] = [['yield', 0.5], ['block', blk]] + \
                    q['routines']['r0']
                q['horizon'] = 5.0
                if blk == 0.25:
                    core_ += [p, q]
                else:
                    extra += [p, q]
        # 5. AppClock: its logical time follows late wake-ups by design; the
        # timetag is the logical time the routine observes plus L
        aa = [('send', None), ('send', -1), ('send', 0), ('send', 0.25),
              ('sendm',), ('sendb', 0, 0.5), ('sendb', 0.25, 0),
              ('send', 0.2)]
        for a in aa:
            for b in aa:
                for d in (0, 0.25):
                    p = make_prog('a', [a, b], [d])
                    p['observed_base'] = True
                    (core_ if d else extra).append(p)
    else:
        # 6. tail times
        ta = [('send', 0), ('send', 0.25), ('sendm',), ('send', 1.0)]
        for tail in (0, 0.25, 2, 0.1):
            for c in clocks:
                for a in ta:
                    for b in ta:
                        p = make_prog(c, [a, b], [0.25])
                        p['tail'] = tail
                        core_.append(p)
                    p = func_prog(c, [a], [('send', 0)])
                    p['tail'] = tail
                    core_.append(p)
    return core_, extra


# ---------------------------------------------------------------------------
# Reference: what every send must put on the wire / in the score
# ---------------------------------------------------------------------------

def expected_sends(prog, mode):
    """List in program order per sender of dict(tag, kind, who, t (logical
    seconds of the send), L, L2, refused)."""
    if prog.get('handstep') is not None:
        sends = []
        for st in prog['routines']['r0']:
            if st[0] in ('send', 'sendm', 'sendb', 'sx'):
                sends.append(_send(st, 'r0', prog['handstep'], True))
                if sends[-1]['refused']:
                    break
        return sends
    exp_t = c05.expected(prog)
    inner = inner_routines(prog)
    sends = []
    for rid, stmts in prog['routines'].items():
        k = 0
        for i, st in enumerate(stmts):
            if st[0] == 'yield' or (st[0] == 'yieldv' and rid in inner):
                k += 1
            elif st[0] in SENDOPS:
                sends.append(_send(st, rid, exp_t[rid][k][0], True))
                if sends[-1]['refused']:
                    break     # the exception ends the routine
                if sends[-1]['refused'] is None:
                    # undecided refusal: only as the last statement
                    assert i == len(stmts) - 1 and rid not in inner, prog
    for actor, ops in prog['actors'].items():
        if actor != 'main' and mode != 'rt':
            continue          # NRT runs the main actor only
        t = 0.0
        for st in ops:
            if st[0] == 'sleep':
                t += st[1] if mode == 'rt' else 0.0
            elif st[0] in ('send', 'sendm', 'sendb', 'sx', 'sxq'):
                sends.append(_send(st, actor, t, False))
    # plain functions scheduled on a clock are "outside routines"
    ft = func_times(prog)
    for fid, spec in prog.get('funcs', {}).items():
        for k, t in enumerate(ft.get(fid, [])):
            for st in spec.get('sends', {}).get(str(k), []):
                if st[0] in SENDOPS:
                    sends.append(dict(_send(st, fid, t, False),
                                      functask=True))
    return sends


SENDOPS = ('send', 'sendm', 'sendb', 'sendbo', 'sx', 'sxq')


def inner_routines(prog):
    """Routines stepped with next() by another routine (they run at the
    caller's logical time; their 'yieldv' statements end a step)."""
    return {st[1] for stmts in prog['routines'].values() for st in stmts
            if st[0] == 'next'}


def func_times(prog):
    """{fid: [seconds of call 0, call 1, ...]} of the function tasks the
    main actor schedules at time zero (delta and returned deltas are in the
    clock's beats)."""
    out = {}
    for op in prog['actors']['main']:
        if op[0] == 'sched' and op[3] in prog.get('funcs', {}):
            tempo = c05.TEMPO[op[1]]
            b = op[2]
            times = [b / tempo]
            for r in prog['funcs'][op[3]].get('returns', [None]):
                if isinstance(r, (int, float)) and not isinstance(r, bool):
                    b += r
                    times.append(b / tempo)
                else:
                    break
            out[op[3]] = times
    return out


def expected_end(prog):
    """Last logical instant at which anything runs in the NRT run."""
    exp_t = c05.expected(prog)
    inner = inner_routines(prog)
    end = 0.0
    for rid, stmts in prog['routines'].items():
        if rid in inner or rid not in exp_t:
            continue
        k = 0
        end = max(end, exp_t[rid][0][0])
        for st in stmts:
            if st[0] == 'yield':
                k += 1
                end = max(end, exp_t[rid][k][0])
            elif st[0] in SENDOPS and _send(st, rid, 0.0, True)['refused']:
                break
    for times in func_times(prog).values():
        end = max([end] + times)
    return end


def is_imm(L):
    """None or below zero = immediately."""
    return L is None or L < 0


def nested_rule(P, C):
    """Nested bundle with latency C inside a bundle with latency P.
    True: precedes its parent, must be refused; False: must be accepted;
    None: both mean "immediately", the statement does not decide."""
    if P is None:
        return False
    if P >= 0:
        return C is None or C < P
    if C is not None and C >= 0:
        return False
    return None


def sx_refusal(b):
    """nested_rule over every parent/child pair of a bundle template."""
    res = []
    for e in b[1:]:
        if isinstance(e[0], str):
            continue
        res.append(nested_rule(b[0], e[0]))
        res.append(sx_refusal(e))
    if any(r is True for r in res):
        return True
    if any(r is None for r in res):
        return None
    return False


def _send(st, who, t, in_routine):
    d = {'who': who, 't': t, 'in_routine': in_routine,
         'kind': {'sendbo': 'sendb', 'sxq': 'sx'}.get(st[0], st[0])}
    if st[0] == 'send':
        d.update(L=st[1], tag=st[2], refused=False)
    elif st[0] == 'sendm':
        d.update(L=None, tag=st[1], refused=False)
    elif st[0] in ('sx', 'sxq'):
        via, b = st[1], st[2]
        d.update(via=via, b=b, tag=st[3], L=b[0])
        # messages carry no time of their own; lists inside messages
        # (completion messages) are not bundle elements
        d['refused'] = False if via in ('msg', 'bind', 'sync') \
            else sx_refusal(b)
    else:
        L, L2 = st[1], st[2]
        d.update(L=L, L2=L2, tag=st[3])
        # nested bundles may not precede their parent (OSC 1.0)
        d['refused'] = nested_rule(L, L2)
    return d


ANY_INT = '<any int>'


def sx_struct(b, stamp):
    """Decoded form a bundle/message template must have on the wire;
    stamp(latency) -> timetag.  A list inside a message travels as a blob
    holding the encoded message / bundle."""
    def msg(m):
        args = []
        for a in m[1:]:
            if isinstance(a, list):
                args.append({'blob': msg(a) if isinstance(a[0], str)
                             else bun(a)})
            else:
                args.append(a)
        return {'type': 'message', 'address': m[0], 'args': args}

    def bun(x):
        return {'type': 'bundle', 'timetag': stamp(x[0]),
                'elements': [msg(e) if isinstance(e[0], str) else bun(e)
                             for e in x[1:]]}
    return msg(b) if isinstance(b[0], str) else bun(b)


def sx_compare(exp, got, tol, level='top'):
    """-> [(what, expected, observed)], what in structure|top|nested|blob."""
    if exp['type'] != got.get('type'):
        return [('structure', exp['type'], got.get('type'))]
    out = []
    if exp['type'] == 'bundle':
        if abs(got['timetag'] - exp['timetag']) > tol:
            out.append((level, exp['timetag'], got['timetag']))
        if len(exp['elements']) != len(got['elements']):
            return out + [('structure', len(exp['elements']),
                           len(got['elements']))]
        sub = 'nested' if level == 'top' else level
        for e, g in zip(exp['elements'], got['elements']):
            out += sx_compare(e, g, tol, sub)
        return out
    if exp['address'] != got['address'] or \
            len(exp['args']) != len(got['args']):
        return [('structure', [exp['address'], len(exp['args'])],
                 [got['address'], len(got['args'])])]
    for a, g in zip(exp['args'], got['args']):
        if isinstance(a, dict):
            if not isinstance(g, (bytes, bytearray)):
                out.append(('structure', 'blob', repr(g)))
                continue
            try:
                inner = osc10.decode(bytes(g))
            except osc10.OscError as ex:
                out.append(('structure', 'blob holding an OSC packet',
                            str(ex)))
                continue
            out += sx_compare(a['blob'], inner, tol, 'blob')
        elif a == ANY_INT:
            if type(g) is not int:
                out.append(('structure', a, g))
        elif type(a) is not type(g) or a != g:
            out.append(('structure', a, g))
    return out


def rt_timetag(t, L):
    if L is None or L < 0:
        return osc10.IMMEDIATELY
    return ntp_sum(t, L)


def check_rt(prog, res):
    dis = []
    if res['status'] != 'ok':
        return [(res['status'], 'execution completes', res.get('detail'),
                 '')]
    for name, exc in res['dead']:
        dis.append(('clock-thread-died', None, [name, exc], ''))
    sends = {s['tag']: s for s in expected_sends(prog, 'rt')}
    raised = {}
    for e in res['trace']:
        if e[0] == 'raises':
            st = e[2]
            tag = st[-1]
            raised[tag] = e[3]
            if e[3] == 'ProgramDataAltered':
                dis.append(('program-bundle-list-altered', 'unchanged',
                            e[4], str(st)))
    task_instants = {e[3] for e in res['trace'] if e[0] in ('res', 'wake')}
    for e in res['trace']:
        if e[0] == 'send' and e[1] in prog['actors'] and e[3] in sends:
            # a send from the main thread (or another plain thread) that
            # coincides with a task execution (same virtual instant,
            # possible only through injected lateness) is outside the
            # statement: its timetag is a don't-care
            sends[e[3]] = dict(sends[e[3]], t=e[4],
                               racing=e[4] in task_instants)
        elif e[0] == 'send' and e[3] in sends and \
                sends[e[3]].get('functask'):
            # a function task woken late: "the current time" may be read as
            # the time it was scheduled for or as the physical instant
            sends[e[3]] = dict(sends[e[3]], alt=e[4])
        elif e[0] == 'send' and e[3] in sends and prog.get('observed_base'):
            # AppClock drifts by design under late wake-ups: the logical
            # time is the one the routine itself observes
            sends[e[3]] = dict(sends[e[3]], t=e[5])
    seen = {}
    for now, hexd in res['sent']:
        try:
            pkt = osc10.decode(bytes.fromhex(hexd))
        except osc10.OscError as ex:
            dis.append(('rt-datagram-not-osc', 'OSC 1.0', str(ex), hexd))
            continue
        msgs = osc10.flatten(pkt)
        if not msgs:
            dis.append(('rt-empty-datagram', None, hexd, ''))
            continue
        tag = msgs[0][2][0][1] if msgs[0][2] else None
        if tag in seen:
            dis.append(('rt-sent-twice', 1, 2, f'tag {tag}'))
        seen[tag] = (now, pkt)
    for tag in seen:
        if tag not in sends:
            dis.append(('rt-send-after-refused-bundle', 'routine ended by '
                        'the refusal', f'datagram {tag} sent', ''))
    for tag, s in sends.items():
        if s['refused']:
            if tag in seen:
                dis.append(('rt-nested-before-parent-accepted', 'refused',
                            'sent', str(s)))
            elif tag not in raised:
                dis.append(('rt-nested-before-parent-silent', 'an exception',
                            'nothing', str(s)))
            continue
        if tag in raised:
            if s['refused'] is None:
                continue      # undecided by the statement
            dis.append(('rt-send-raises' + _via(s), 'sent', raised[tag],
                        str(s)))
            continue
        if tag not in seen:
            dis.append(('rt-not-sent', 'sent', 'missing', str(s)))
            continue
        now, pkt = seen[tag]
        where = 'functask' if s.get('functask') else \
            'routine' if s['in_routine'] else 'outside'
        if s['kind'] == 'sendm' or s.get('via') == 'msg':
            if pkt['type'] != 'message':
                dis.append(('rt-message-wrapped', 'message', pkt['type'], ''))
                continue
            if s['kind'] == 'sendm':
                continue
        elif pkt['type'] != 'bundle':
            dis.append(('rt-bundle-not-bundle', 'bundle', pkt['type'], ''))
            continue
        if s.get('racing'):
            continue
        cands = [_rt_content(s, pkt, s['t'], where, now)]
        if 'alt' in s and cands[0]:
            cands.append(_rt_content(s, pkt, s['alt'], where, now))
        dis += min(cands, key=len)
    return dis


def _via(s):
    """Kind suffix for sends through another entry point than send_bundle /
    send_msg."""
    return '-' + s['via'] if s.get('via') in ('clumped', 'bind', 'sync') \
        else ''


def _rt_content(s, pkt, t, where, now):
    """Disagreements of one decoded datagram with send s stamped from t."""
    dis = []
    if s['kind'] == 'sx':
        tmpl = s['b'][1] if s['via'] == 'msg' else s['b']
        if s['via'] == 'sync':
            tmpl = tmpl + [['/sync', ANY_INT]]
        exp = sx_struct(tmpl, lambda L: rt_timetag(t, L))
        for what, want, got in sx_compare(exp, pkt, 2):
            if what == 'structure':
                dis.append(('rt-sx-structure', want, got, str(s)))
            elif what == 'top':
                kind = 'immediately' if want == 1 else 'logical-plus-latency'
                dis.append((f'rt-timetag-{kind}-{where}', want, got,
                            f'{s}; physical send instant {now}; difference '
                            f'{(got - want) / 2 ** 32} s'))
            else:
                dis.append((f'rt-{what}-timetag-{where}', want, got,
                            f'{s}; difference {(got - want) / 2 ** 32} s'))
        return dis
    want = rt_timetag(t, s['L'])
    if abs(pkt['timetag'] - want) > 2:
        kind = 'immediately' if want == 1 else 'logical-plus-latency'
        dis.append((f'rt-timetag-{kind}-{where}', want, pkt['timetag'],
                    f'{s}; physical send instant {now}; difference '
                    f'{(pkt["timetag"] - want) / 2 ** 32} s'))
    if s['kind'] == 'sendb':
        inner = [e for e in pkt['elements'] if e['type'] == 'bundle']
        if len(inner) != 1:
            dis.append(('rt-nested-structure', 1, len(inner), str(s)))
        else:
            w2 = rt_timetag(t, s['L2'])
            if abs(inner[0]['timetag'] - w2) > 2:
                dis.append((f'rt-nested-timetag-{where}', w2,
                            inner[0]['timetag'], str(s)))
    return dis


def check_nrt(prog, res):
    dis = []
    sends = expected_sends(prog, 'nrt')
    order = []      # execution order of sends = order of 'send' events
    for e in res['trace']:
        if e[0] == 'send':
            order.append((e[1], e[3]))
    bytag = {s['tag']: s for s in sends}
    # the k-th send of a tag by a sender is the k-th expected one (programs
    # may repeat a byte-identical send)
    perkey = {}
    for s in sends:
        perkey.setdefault((s['who'], s['tag']), []).append(s)
    exp = []
    raised_tags = {e[2][-1] for e in res['trace'] if e[0] == 'raises'
                   and e[2][0] in SENDOPS}
    for i, (who, tag) in enumerate(order):
        q = perkey.get((who, tag))
        s = q.pop(0) if q else None
        if s is None:
            dis.append(('nrt-send-after-refused-bundle', 'routine ended by '
                        'the refusal', f'send {tag} executed', ''))
            continue
        if s['refused']:
            continue
        if s['refused'] is None and tag in raised_tags:
            continue          # undecided by the statement
        if tag in raised_tags and not prog.get('dup'):
            continue          # reported below as nrt-send-raises
        exp.append((entry_time(s), i, tag, s))
    exp.sort(key=lambda x: (x[0], x[1]))
    score = res['score']
    if not score or score[0][1][0] != '/g_new':
        dis.append(('nrt-score-head', '/g_new first', score[:1], ''))
    # user bundles: everything after the root node except the tail marker
    # (whose place is checked below)
    body_idx = [i for i in range(1, len(score))
                if score[i][1][0] != '/c_set']
    body = [score[i] for i in body_idx]
    got = [(b[0], _entry_tag(b)) for b in body]
    want = [(t, tag) for t, _, tag, _ in exp]
    if got != want:
        kind = 'nrt-score-times' if sorted(g[1] for g in got) == \
            sorted(w[1] for w in want) and [g[1] for g in got] == \
            [w[1] for w in want] else 'nrt-score-order-or-content'
        dis.append((kind, want, got,
                    'score entries (time, tag) between root node and tail'))
    for (t, _, tag, s), b in zip(exp, body):
        if s['kind'] == 'sendb':
            base = s['t'] if s['in_routine'] else 0.0
            L2 = s['L2']
            want2 = base + (0.0 if (L2 is None or L2 < 0) else L2)
            inner = [x for x in b[1:] if isinstance(x[0], (int, float))]
            if len(inner) != 1 or inner[0][0] != want2:
                dis.append(('nrt-nested-time', want2,
                            inner[0][0] if inner else None, str(s)))
        elif s['kind'] == 'sx':
            base = s['t'] if s['in_routine'] else 0.0
            want_b = sx_list(s['b'], base, s['via'])
            diff = _list_diff(want_b, b, top=True)
            if diff:
                dis.append((f'nrt-sx-{diff}', want_b, b, str(s)))
    # tail marker: last entry, at the last instant + tail
    last = score[-1]
    tail = prog.get('tail', 0.5)
    t_end = expected_end(prog)
    if last[1][0] != '/c_set':
        marks = [i for i, b in enumerate(score) if b[1][0] == '/c_set']
        if len(marks) == 1 and score[marks[0]][0] == t_end + tail and \
                all(b[0] > t_end + tail for b in score[marks[0] + 1:]):
            # the marker is where "last instant + tail" puts it, but
            # bundles whose latency reaches beyond it follow it
            dis.append(('nrt-tail-marker-before-late-bundle', '/c_set last',
                        score[marks[0]:], f'last instant {t_end}, tail '
                        f'{tail}'))
        else:
            dis.append(('nrt-tail-marker', '/c_set last', last, ''))
    elif any(last[0] < b[0] for b in score):
        dis.append(('nrt-tail-before-entries', '>= all', last[0], ''))
    elif all(t <= t_end for t, _, _, _ in exp) and last[0] != t_end + tail:
        # nothing is stamped later than the last instant of the run: the
        # marker is at exactly that instant plus the tail time
        dis.append(('nrt-tail-time', t_end + tail, last[0],
                    f'last instant {t_end}, tail {tail}'))
    # raw form = concatenation of length-prefixed encodings of the list
    bases = {}
    for (t, _, tag, s), i in zip(exp, body_idx):
        bases[i] = s['t'] if s['in_routine'] else 0.0
    try:
        enc = b''.join(_enc_entry(b, bases.get(i))
                       for i, b in enumerate(score))
        if enc.hex() != res['raw']:
            # programs that convert one and the same (send time > 0,
            # latency) pair inside AND outside routines have a kind of
            # their own: they show a confusion of the two contexts within
            # one fresh process
            kind = 'nrt-raw-differs-from-list' + (
                '-same-pair-inside-and-outside' if context_pairs(prog)
                else '')
            dis.append((kind, enc.hex()[:200], res['raw'][:200],
                        _raw_detail(score, bases, res['raw'])))
    except Exception as ex:
        dis.append(('nrt-raw-unencodable', None, repr(ex), ''))
    for e in res['trace']:
        if e[0] == 'raises' and e[3] == 'ProgramDataAltered':
            dis.append(('program-bundle-list-altered', 'unchanged', e[4],
                        str(e[2])))
            continue
        if e[0] == 'raises' and e[2][0] in SENDOPS:
            s = bytag.get(e[2][-1])
            if s is not None and s['refused'] is False:
                dis.append(('nrt-send-raises' + _via(s), 'accepted', e[3:],
                            str(s)))
    refused_in_score = [tag for _, tag in got
                        if tag in bytag and bytag[tag]['refused']]
    if refused_in_score:
        dis.append(('nrt-nested-before-parent-accepted', [],
                    refused_in_score, ''))
    return dis


def _enc_entry(b, base=None):
    """Length-prefixed encoding of one score list entry.  `base` (the send
    instant of the entry, when it is known) is only needed for lists inside
    messages: they travel as blobs, and the list keeps a bundle in there as
    the program wrote it (latency relative to the send instant)."""
    def struct_of(x):
        if isinstance(x[0], str):
            args = [osc10.encode(blob_of(a))
                    if isinstance(a, list) and a and base is not None else a
                    for a in x[1:]]
            return {'type': 'message', 'address': x[0], 'args': args}
        return {'type': 'bundle', 'timetag': int(x[0] * 2 ** 32),
                'elements': [struct_of(e) for e in x[1:]]}

    def blob_of(a):
        if isinstance(a[0], str):
            return struct_of(a)
        L = 0.0 if is_imm(a[0]) else a[0]
        return {'type': 'bundle', 'timetag': int((L + base) * 2 ** 32),
                'elements': [blob_of(e) for e in a[1:]]}
    raw = osc10.encode(struct_of(b))
    return struct.pack('>i', len(raw)) + raw


def _raw_detail(score, bases, rawhex):
    """First score entry whose bytes differ from its encoding."""
    raw = bytes.fromhex(rawhex)
    pos = 0
    for i, b in enumerate(score):
        try:
            e = _enc_entry(b, bases.get(i))
        except Exception as ex:
            return f'entry {i} {b}: {ex!r}'
        got = raw[pos:pos + len(e)]
        if got != e:
            try:
                dec = osc10.decode(got[4:])
            except osc10.OscError as ex:
                dec = str(ex)
            return (f'entry {i}: list has {b}, the bytes at its place '
                    f'decode to {dec} (timetag / 2^32 = '
                    f'{dec["timetag"] / 2 ** 32 if isinstance(dec, dict) and "timetag" in dec else None})')
        pos += len(e)
    return f'{len(raw) - pos} bytes after the last entry'


def send_latencies(s):
    """Every latency one send converts into a time (all bundle levels,
    bundles inside messages; a message is sent as a bundle of latency 0 in
    NRT)."""
    def bun(b):
        out = [b[0]]
        for e in b[1:]:
            out += msg(e) if isinstance(e[0], str) else bun(e)
        return out

    def msg(m):
        out = []
        for a in m[1:]:
            if isinstance(a, list) and a:
                out += msg(a) if isinstance(a[0], str) else bun(a)
        return out
    if s['kind'] == 'send':
        return [s['L']]
    if s['kind'] == 'sendm':
        return [0.0]
    if s['kind'] == 'sendb':
        return [s['L'], s['L2']]
    if s['via'] == 'msg':
        return [0.0] + msg(s['b'][1])
    return bun(s['b'])


def context_pairs(prog):
    """(send time, latency) pairs with send time > 0 that the program
    converts both inside a routine (logical time + latency) and outside
    routines (absolute)."""
    inside, outside = set(), set()
    for s in expected_sends(prog, 'nrt'):
        if s['refused'] is not False or s['t'] <= 0:
            continue
        for L in send_latencies(s):
            (inside if s['in_routine'] else outside).add((s['t'], L))
    return sorted(inside & outside, key=repr)


def entry_time(s):
    """Score time of an accepted send (NRT): logical time + latency inside
    routines, absolute from zero outside; messages at the current time."""
    base = s['t'] if s['in_routine'] else 0.0
    if s['kind'] == 'sendm' or s.get('via') == 'msg':
        return base
    return base + (0.0 if is_imm(s['L']) else s['L'])


def _entry_tag(b):
    """First argument of the first message of a score entry."""
    for e in b[1:]:
        if isinstance(e[0], str):
            return e[1] if len(e) > 1 else None
        return _entry_tag(e)
    return None


def sx_list(b, base, via='bundle'):
    """Score list form of a template: nested bundles at absolute times,
    messages as the program wrote them."""
    if via == 'msg':
        return [base, copy.deepcopy(b[1])]
    out = [base + (0.0 if is_imm(b[0]) else b[0])]
    for e in b[1:]:
        out.append(copy.deepcopy(e) if isinstance(e[0], str)
                   else sx_list(e, base))
    return out


def _list_diff(want, got, top=False):
    """'' or what differs between two score list entries; lists inside
    messages are compared as the program wrote them only in length (how the
    list shows a blob is not decided by the statement)."""
    if not isinstance(got, list) or len(want) != len(got):
        return 'entry-structure'
    if isinstance(want[0], str):
        for a, g in zip(want, got):
            if isinstance(a, list):
                continue
            if type(a) is not type(g) or a != g:
                return 'entry-structure'
        return ''
    if isinstance(got[0], bool) or not isinstance(got[0], (int, float)):
        return 'entry-structure'
    if want[0] != got[0]:
        return 'time' if top else 'nested-time'
    for a, g in zip(want[1:], got[1:]):
        d = _list_diff(a, g)
        if d:
            return d
    return ''


# ---------------------------------------------------------------------------
# Incoming bundles: time argument delivered to receive functions
# ---------------------------------------------------------------------------

def recv_programs():
    out = []
    for at in (0.125, 0.5):
        for tt in ('immediate', 'msg', 0.25, 1.0, -0.5, 'deep'):
            if tt == 'deep':
                # three levels, later and later
                data = osc10.encode_bundle(ntp(at + 0.25), [
                    {'type': 'message', 'address': '/in', 'args': [7]},
                    {'type': 'bundle', 'timetag': ntp(at + 0.5),
                     'elements': [
                         {'type': 'message', 'address': '/in2', 'args': [8]},
                         {'type': 'bundle', 'timetag': ntp(at + 1.0),
                          'elements': [{'type': 'message', 'address': '/in3',
                                        'args': [9]}]}]}])
            elif tt == 'msg':
                data = osc10.encode_message('/in', [7])
            elif tt == 'immediate':
                data = osc10.encode_bundle(1, [
                    {'type': 'message', 'address': '/in', 'args': [7]}])
            else:
                data = osc10.encode_bundle(ntp(at + tt), [
                    {'type': 'message', 'address': '/in', 'args': [7]},
                    {'type': 'bundle', 'timetag': ntp(at + tt + 0.25),
                     'elements': [{'type': 'message', 'address': '/in2',
                                   'args': [8]}]}])
            out.append({'clocks': {'s': ['system']}, 'routines': {},
                        'funcs': {}, 'recv': True, 'recv_at': at,
                        'recv_tt': tt,
                        'actors': {'main': [['sleep', at],
                                            ['deliver', data.hex(), 57110]]},
                        'horizon': 3.0})
    return out


def check_recv(prog, res):
    dis = []
    if res['status'] != 'ok':
        return [(res['status'], 'completes', res.get('detail'), '')]
    at, tt = prog['recv_at'], prog['recv_tt']
    got = [e for e in res['trace'] if e[0] == 'recv']
    if tt in ('msg', 'immediate'):
        want = [(['/in', 7], at)]
    elif tt == 'deep':
        want = [(['/in', 7], at + 0.25), (['/in2', 8], at + 0.5),
                (['/in3', 9], at + 1.0)]
    else:
        want = [(['/in', 7], at + tt), (['/in2', 8], at + tt + 0.25)]
    have = [(e[1], e[2]) for e in got]
    if [w[0] for w in want] != [h[0] for h in have]:
        dis.append(('recv-messages', want, have, ''))
        return dis
    for (m, t), (_, ht) in zip(want, have):
        if abs(ht - t) > 2 * 2.0 ** -32:
            dis.append(('recv-time-argument', t, ht, str(m)))
    return dis


# ---------------------------------------------------------------------------
# Interpreter extension (mc/rtprog.py is shared and stays as it is): the
# general send statement ['sx', via, template, tag] and function tasks that
# send ('sends': {call index: [statements]}).
# ---------------------------------------------------------------------------

_RUN7 = None


def _run_class():
    global _RUN7
    if _RUN7 is not None:
        return _RUN7
    from mc import rtprog

    class Run7(rtprog.Run):
        def _func(self, fid, spec):
            f = super()._func(fid, spec)
            sends = spec.get('sends')
            if not sends or spec.get('kind') == 'awakeable':
                return f
            run = self

            def g(_, clock):
                k = run.calls.get(fid, 0)
                r = f(_, clock)
                for st in sends.get(str(k), []):
                    run.do(st, fid, clock)
                return r
            g.__qualname__ = fid
            return g

        def do(self, st, who, clock=None):
            if st[0] not in ('sx', 'sxq'):
                return super().do(st, who, clock)
            from sc3.base.main import main
            via, tag = st[1], st[3]
            # 'sxq': no read of the library's time before the call (outside
            # routines such a read waits for a running awake call to end,
            # the send would then no longer happen DURING that call)
            self.ev('send', who, 'sx', tag, self.now(),
                    main.current_tt._seconds if st[0] == 'sx' else None)
            try:
                data = copy.deepcopy(st[2])    # fresh lists for every send
                addr = self._addr()
                if via == 'bundle':
                    addr.send_bundle(*data)
                elif via == 'clumped':
                    addr.send_clumped_bundles(*data)
                elif via == 'msg':
                    addr.send_msg(*data[1])
                elif via == 'bind':
                    # Server.bind(): messages collected and sent as one
                    # bundle with the server's latency
                    from sc3.synth.server import Server
                    srv = Server.default
                    old = srv.latency
                    srv.latency = data[0]
                    try:
                        with srv.bind():
                            for m in data[1:]:
                                srv.addr.send_msg(*m)
                    finally:
                        srv.latency = old
                elif via == 'sync':
                    # NetAddr.sync(latency=, elements=) as a routine uses
                    # it: the first step sends elements + ['/sync', id] in
                    # one bundle and queues the routine on a condition
                    # (private, dropped here); the responder it registers
                    # is removed again
                    from sc3.base.responders import OscFunc
                    before = set(OscFunc._all_func_proxies)
                    gen = addr.sync(None, data[0], data[1:])
                    try:
                        next(gen)
                    finally:
                        gen.close()
                        for pr in set(OscFunc._all_func_proxies) - before:
                            pr.free()
                else:
                    raise ValueError(f'unknown via {via}')
            except Exception as e:
                if type(e).__name__ in ('Abort',):
                    raise
                self.ev('raises', who, st, type(e).__name__, str(e)[:200])
                if who in self.routines:
                    raise
    _RUN7 = Run7
    return Run7


class _Patched:
    """rtprog.run_rt / run_nrt with the extended interpreter class."""

    def __enter__(self):
        from mc import rtprog
        self.old = rtprog.Run
        rtprog.Run = _run_class()

    def __exit__(self, *exc):
        from mc import rtprog
        rtprog.Run = self.old
        return False


def run_rt(prog, prefix):
    from mc import rtprog
    # ids of '/sync' messages come from a process wide counter: restart it,
    # so that an execution does not depend on the ones before it
    import itertools
    import sc3.base.builtins as bi
    if hasattr(bi, '_uid_counter'):
        bi._uid_counter = itertools.count()
    with _Patched():
        return rtprog.run_rt(prog, prefix)


def run_nrt(prog):
    from mc import rtprog
    with _Patched():
        return rtprog.run_nrt(prog, tail=prog.get('tail', 0.5))


# ---------------------------------------------------------------------------
# Workers
# ---------------------------------------------------------------------------

def work_rt(job):
    from mc.engines import schedx
    acc = progenum.Acc(max_samples=1)
    for prog in job['progs']:
        checker = check_recv if prog.get('recv') else check_rt

        def run(prefix, prog=prog):
            return run_rt(prog, prefix)

        def on_result(choices, points, res, prog=prog, checker=checker):
            pre, late = schedx.cost_of(points, choices)
            case = {'mode': 'rt', 'prog': prog, 'choices': list(choices)}
            for kind, exp, obs, detail in checker(prog, res):
                acc.violation(kind, case, exp, obs, detail,
                              size=(pre + late) * 100000 + len(choices) * 100
                              + len(core.canon(prog)) // 10)
            acc.case(case, (pre + late) > 0, res['sent'],
                     steps=res['steps'])
        r = schedx.explore(run, job['max_pre'], job['max_late'], on_result)
        acc.count('executions', r['executions'])
    return acc.result()


def work_nrt(job):
    acc = progenum.Acc(max_samples=2)
    for prog in job['progs']:
        res = run_nrt(prog)
        case = {'mode': 'nrt', 'prog': prog}
        for kind, exp, obs, detail in check_nrt(prog, res):
            acc.violation(kind, case, exp, obs, detail)
        acc.case(case, len(res['score']) > 3, res['score'],
                 steps=len(res['trace']))
    return acc.result()


def replay(job):
    case = job['case']
    prog = case['prog']
    if case.get('mode') == 'nrt':
        res = run_nrt(prog)
        dis = check_nrt(prog, res)
        extra = {'score': res['score']}
    else:
        _, _, res = run_rt(prog, case['choices'])
        dis = (check_recv if prog.get('recv') else check_rt)(prog, res)
        extra = {'sent': res['sent']}
    return dict(extra, violates=any(d[0] == job['kind'] for d in dis),
                disagreements=[[d[0], repr(d[1])[:300], repr(d[2])[:300]]
                               for d in dis], trace=res['trace'])


# ---------------------------------------------------------------------------
# Known findings (predicates on the failing case)
# ---------------------------------------------------------------------------

def _all_stmts(prog):
    for stmts in prog['routines'].values():
        yield from stmts
    yield from prog['actors']['main']
    for spec in prog.get('funcs', {}).values():
        for stmts in spec.get('sends', {}).values():
            yield from stmts


def latency_beyond_tail(v):
    """NRT: an accepted bundle is stamped later than the last instant of the
    run plus the tail time."""
    prog = v['case']['prog']
    if v['case'].get('mode') != 'nrt':
        return False
    limit = expected_end(prog) + prog.get('tail', 0.5)
    return any(s['refused'] is False and entry_time(s) > limit
               for s in expected_sends(prog, 'nrt'))


def clumped_nested_none(v):
    """send_clumped_bundles with a nested bundle whose latency is None."""
    def has_none(b):
        return any(not isinstance(e[0], str) and
                   (e[0] is None or has_none(e)) for e in b[1:])
    cl = [st for st in _all_stmts(v['case']['prog'])
          if st[0] == 'sx' and st[1] == 'clumped']
    return bool(cl) and all(has_none(st[2]) for st in cl) and \
        'ValueError' in str(v['observed'])


PREDICATES = {'latency_beyond_tail': latency_beyond_tail,
              'clumped_nested_none': clumped_nested_none}


def main(ctx):
    ctx.rule = (
        'Programs: a routine on SystemClock/TempoClock(2) (NRT also AppClock) '
        'sending 1-2 of {send_bundle(L), send_msg, nested bundle (L, L2)} '
        'with L in {None,-1,0,0.25}, separated by yields {0,0.25}; two '
        'routines sending at equal times; every 3-send routine over a 7-statement alphabet and three routines on all clock combinations whose bundles tie in time (quick: a seed-selected 1/8 resp. 1/4 slice); sends from outside routines at '
        'instants where no task is due; incoming bundles with six timetag '
        'variants. Wide families: latencies {-0.25,0.0,1,1.0,0.1,0.2,3.0,'
        '2^-20,100.0} and 19 (L,L2) pairs; 324 bundle shapes / entry points '
        '(three levels, two nested siblings, nested first / only, bundles '
        'inside messages, send_clumped_bundles, Server.bind, NetAddr.sync) '
        'over L in {None,-1,0,0.25} x L2,L3 in {None,-1,0,0.25,0.5} sent '
        'from a routine at a logical time > 0 on every clock, from outside '
        'and from a function task; function tasks (outside routines at a '
        'time > 0) alone and tying with a routine; inner routines stepped '
        'with next(); (NRT) the same (send time > 0, latency) pair converted '
        'by a function task (absolute) and by a routine (logical + L) in '
        'one program, both orders, 17 statements over every entry point, '
        'all clock pairs; sends from a second plain thread; sends from the main '
        'or a second thread through every entry point WHILE a plain '
        'function task on SystemClock/TempoClock/AppClock is in the '
        'middle of its awake call (body takes 0.5 s): stamped from the '
        'physical instant of the send call; routines stepped by '
        'hand or loaded before sending through every entry point; AppClock '
        'routines in RT (logical time as observed by the routine); NRT tail '
        'times {0,0.25,2,0.1} (quick: a seed-selected 1/4 slice of the RT '
        'variants on other clocks / outside / in function tasks). RT: every schedule with <=P preemptions and <=L late '
        'timers, datagrams decoded with mc/oracles/osc10.py; NRT: score list '
        'and raw form. Non-trivial (RT) = execution with >=1 deviation; (NRT) '
        '= score with more than one user bundle.')
    ctx.assumptions += [
        'virtual epoch T0=1024 s and dyadic times make every expected timetag '
        'exact; 2 LSB (2^-31 s) tolerance is still allowed',
        'sends from the main thread happen only while no task is executing',
        'logical times come from the reference of C05 (mc/checks/c05.py '
        'expected())',
        'a nested bundle below zero / None inside a parent below zero (both '
        '"immediately") may be refused or sent; a function task woken late '
        'may stamp from its scheduled or from the physical time; how '
        'score.list shows a list inside a message is not checked (its bytes '
        'in score.raw are)',
        'the tail marker is required to be last; its time is required to be '
        'last instant + tail only when no bundle is stamped later than the '
        'last instant']
    rt = programs(ctx.tier, 'rt') + recv_programs()
    nrt = programs(ctx.tier, 'nrt')
    rt3, nrt3 = programs3('rt'), programs3('nrt')
    if ctx.tier == 'quick':
        rt3 = rt3[core.pick_slice(ctx.seed, 8)::8]
        nrt3 = nrt3[core.pick_slice(ctx.seed, 4)::4]
    rtw, rtx = programs_wide('rt')
    nrtw, nrtx = programs_wide('nrt')
    if ctx.tier == 'quick':
        rtx = rtx[core.pick_slice(ctx.seed, 4)::4]
    rt, nrt = rt + rt3 + rtw + rtx, nrt + nrt3 + nrtw + nrtx
    bounds = [(2, 1)] if ctx.tier == 'quick' else [(3, 2)]
    for mp, ml in bounds:
        jobs = [{'progs': c, 'max_pre': mp, 'max_late': ml}
                for c in c05.chunks(rt, 96)]
        progenum.run(ctx, MODNAME, 'work_rt', jobs, mode='rt',
                     bound=f'RT <= {mp} preemptions, <= {ml} late timers')
    jobs = [{'progs': c} for c in c05.chunks(nrt, 32)]
    progenum.run(ctx, MODNAME, 'work_nrt', jobs, mode='nrt', bound='NRT')
    ctx.extra['rt_programs'] = len(rt)
    ctx.extra['nrt_programs'] = len(nrt)
