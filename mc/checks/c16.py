"""C16 - bus, buffer and node-id allocation is safe and complete.

E2 (histbfs) over the real ContiguousBlockAllocator, the real Server-level
constructors (AudioBus / ControlBus / Buffer on per-client allocators) and the
real NodeIDAllocator, against mc/oracles/alloc_ref.py (a set of live ranges in
a partition; a window of node ids).

The allocator breaks ties between equally good free blocks with
`sc3.base.builtins.choice` on a list made from a set of blocks hashed by
address.  The harness rebinds that module global for the duration of each
allocating call: the candidates are sorted by start address and the answer is
taken from the operation itself (`['alloc', n, picks]`), so every answer is a
branch of the search and a history fully determines the run."""

import copy
import contextlib

from mc import core
from mc.engines import histbfs
from mc.oracles import alloc_ref

MODE = 'nrt'
MODNAME = 'mc.checks.c16'


# ---- the tie-break seam ----------------------------------------------------

class Chooser:
    """Stand-in for builtins.choice: sorts the candidates by (start, size) and
    answers with the next pick of the operation.  `strict=False` (dry runs on
    copies) answers 0 beyond the given prefix and records the arities."""

    def __init__(self, picks, strict):
        self.picks = list(picks)
        self.strict = strict
        self.arities = []

    def __call__(self, lst):
        c = sorted(lst, key=lambda b: (getattr(b, 'start', 0),
                                       getattr(b, 'size', 0)))
        i = len(self.arities)
        self.arities.append(len(c))
        if not c:
            raise IndexError('Cannot choose from an empty sequence')
        if i < len(self.picks):
            p = self.picks[i]
        elif self.strict:
            raise core.HarnessError(
                f'tie-break #{i} not determined by the operation '
                f'(picks={self.picks})')
        else:
            p = 0
        if p >= len(c):
            raise core.HarnessError(
                f'tie-break pick {p} out of range ({len(c)} candidates)')
        return c[p]


@contextlib.contextmanager
def tiebreak(ch):
    from sc3.base import builtins as bi
    from sc3.synth import _engine
    if _engine.bi is not bi or not hasattr(bi, 'choice'):
        raise core.HarnessError('tie-break seam moved: _engine.bi.choice')
    old = bi.choice
    bi.choice = ch
    try:
        yield ch
    finally:
        bi.choice = old


def pick_menus(allocator, n):
    """All sequences of tie-break answers alloc(n) can be asked for in the
    current state, found by dry runs on deep copies of the allocator."""
    res = []
    stack = [[]]
    while stack:
        prefix = stack.pop()
        c = copy.deepcopy(allocator)
        with tiebreak(Chooser(prefix, strict=False)) as ch:
            try:
                c.alloc(n)
            except core.HarnessError:
                raise
            except Exception:
                pass
        full = prefix + [0] * (len(ch.arities) - len(prefix))
        res.append(full)
        for i in range(len(prefix), len(ch.arities)):
            for j in range(1, ch.arities[i]):
                stack.append(full[:i] + [j])
    res.sort()
    return res


def impl_key(a):
    """Everything the block allocator's future behaviour depends on."""
    off = a.addr_offset
    arr = [None if b is None else [b.start, b.size, bool(b.used)]
           for b in a._array]
    freed = []
    for size, set_ in a._freed.items():          # dict order matters
        blocks = []
        for b in set_:
            i = b.start - off
            same = 0 <= i < len(a._array) and a._array[i] is b
            blocks.append([b.start, b.size, bool(b.used), same])
        freed.append([size, sorted(blocks)])
    return [arr, freed, a.top, a.pos, a.size, off]


def _exc(e):
    return f'raises {type(e).__name__}: {e}'[:200]


# ---- system 1: the block allocator -----------------------------------------

class AllocSys:
    """params: size, pos (reserved), addr_offset, ns (request sizes)."""

    def __init__(self, params):
        from sc3.synth import _engine
        size, pos, off = params['size'], params['pos'], params['addr_offset']
        self.a = _engine.ContiguousBlockAllocator(size, pos, off)
        self.ref = alloc_ref.RangeModel(off + pos, off + size)
        self.ns = params['ns']
        self.tag = 'off0' if off == 0 else 'off+'
        self.freed_earlier = set()
        self.last = None

    def ops(self):
        o = []
        for n in self.ns:
            for picks in pick_menus(self.a, n):
                o.append(['alloc', n, picks])
        for st in sorted(self.ref.live):
            o.append(['free', st])
        for st in sorted(self.freed_earlier - set(self.ref.live)):
            o.append(['refree', st])
        o.append(['free', None])
        return o

    def apply(self, op):
        dis = []
        name = op[0]
        if name == 'alloc':
            _, n, picks = op
            with tiebreak(Chooser(picks, strict=True)) as ch:
                try:
                    obs = self.a.alloc(n)
                except core.HarnessError:
                    raise
                except Exception as e:
                    obs = _exc(e)
            if len(ch.arities) != len(picks):
                raise core.HarnessError(
                    f'operation {op} fixed {len(picks)} tie-breaks, the '
                    f'allocator asked {len(ch.arities)}')
            if isinstance(obs, str):
                dis.append((f'alloc-raises/{self.tag}', 'a start or None',
                            obs, f'live {self.ref.listing()}'))
            else:
                for prob, exp, o in self.ref.judge_alloc(n, obs):
                    dis.append((f'alloc-{prob}/{self.tag}', exp, o,
                                f'alloc({n}) -> {obs!r}; live '
                                f'{self.ref.listing()}; partition '
                                f'[{self.ref.lo}, {self.ref.hi})'))
        elif name in ('free', 'refree'):
            addr = op[1]
            was_live = self.ref.free(addr)
            if name == 'refree' and was_live:
                raise core.HarnessError(f'{op}: address is live')
            if name == 'free' and addr is not None and not was_live:
                raise core.HarnessError(f'{op}: address is not live')
            if was_live:
                self.freed_earlier.add(addr)
            try:
                self.a.free(addr)
                obs = None            # the return value is a don't-care
            except Exception as e:
                obs = _exc(e)
                kind = 'free-raises' if was_live else 'double-free-raises'
                dis.append((f'{kind}/{self.tag}', 'no exception', obs,
                            f'live {self.ref.listing()}'))
        else:
            raise core.HarnessError(f'bad op {op}')
        self.last = [name, obs, self.ref.listing()]
        return dis

    def key(self):
        return [self.ref.listing(), sorted(self.freed_earlier),
                impl_key(self.a)]

    def nontrivial(self):
        # state-determined (part of the key), so the count does not depend
        # on which history reaches a state first
        return bool(self.freed_earlier)

    def outcome(self):
        return self.last


# ---- system 2: node ids ----------------------------------------------------

class NodeIdSys:
    """params: user, initial.  One operation: alloc()."""

    def __init__(self, params):
        from sc3.synth import _engine
        self.a = _engine.NodeIDAllocator(params['user'], params['initial'])
        self.ref = alloc_ref.NodeIdModel(params['user'], params['initial'])
        self.last = None

    def ops(self):
        return [['alloc']]

    def apply(self, op):
        if op != ['alloc']:
            raise core.HarnessError(f'bad op {op}')
        try:
            x = self.a.alloc()
        except Exception as e:
            self.last = _exc(e)
            return [('nodeid-raises', 'an id', self.last, '')]
        self.last = x
        return [(f'nodeid-{p}', e, o,
                 f'allocation #{self.ref.count} of user {self.ref.user}, '
                 f'initial id {self.ref.initial}')
                for p, e, o in self.ref.judge(x)]

    def key(self):
        return [self.ref.count]

    def nontrivial(self):
        return self.ref.wrapped()

    def outcome(self):
        return self.last


# ---- system 3: the server level --------------------------------------------

_server = None
IO_CHANNELS = 4      # 2 outputs + 2 inputs in front of the private buses


def _get_server():
    """One never-booted Server per worker (a booted NRT server is pinned to a
    single login); every execution re-creates its allocators with the
    library's own `_set_client_id` -> `_new_allocators`."""
    global _server
    if _server is None:
        from sc3.base.netaddr import NetAddr
        from sc3.synth.server import Server, ServerOptions
        _server = Server('c16', NetAddr('127.0.0.1', 57216), ServerOptions())
    return _server


class ServerSys:
    """params: client, logins, control, audio, buffers (server-wide counts;
    audio excludes the i/o channels), reserved, initial_node_id, kinds (which
    object kinds the operation menu offers)."""

    def __init__(self, params):
        from sc3.base.main import main
        main.reset()
        s = _get_server()
        o = s.options
        o.max_logins = params['logins']
        o.input_channels = o.output_channels = IO_CHANNELS // 2
        o.control_buses = params['control']
        o.audio_buses = params['audio'] + IO_CHANNELS
        o.buffers = params['buffers']
        o.reserved_control_buses = params['reserved']
        o.reserved_audio_buses = params['reserved']
        o.reserved_buffers = params['reserved']
        o.initial_node_id = params['initial_node_id']
        if s._status_watcher.max_logins != params['logins']:
            raise core.HarnessError('server does not use options.max_logins')
        s._set_client_id(params['client'])
        if s.client_id != params['client']:
            raise core.HarnessError('client id not accepted')
        self.s = s
        c, L, r = params['client'], params['logins'], params['reserved']
        self.ref = {
            'control': alloc_ref.RangeModel(*alloc_ref.partition(
                o.control_buses, L, c, 0, r)),
            'audio': alloc_ref.RangeModel(*alloc_ref.partition(
                o.audio_buses, L, c, IO_CHANNELS, r)),
            'buffer': alloc_ref.RangeModel(*alloc_ref.partition(
                o.buffers, L, c, 0, r)),
        }
        self.nodes = alloc_ref.NodeIdModel(c, params['initial_node_id'])
        self.tag = 'client0' if c == 0 else 'client+'
        self.kinds = params['kinds']
        self.objs = []       # [space, [objects], start, live]
        self.last = None

    def _allocator(self, space):
        return {'control': self.s._control_bus_allocator,
                'audio': self.s._audio_bus_allocator,
                'buffer': self.s._buffer_allocator}[space]

    def ops(self):
        o = []
        for name, space, ns in (('cbus', 'control', (1, 2)),
                                ('abus', 'audio', (1, 2)),
                                ('buf', 'buffer', (1,)),
                                ('bufs', 'buffer', (2, 3))):
            if space not in self.kinds:
                continue
            for n in ns:
                for picks in pick_menus(self._allocator(space), n):
                    o.append([name, n, picks])
        for i in range(len(self.objs)):
            o.append(['free', i])
        if 'node' in self.kinds:
            o.append(['node'])
        return o

    def _construct(self, name, n):
        from sc3.synth.bus import AudioBus, ControlBus
        from sc3.synth.buffer import Buffer
        if name == 'cbus':
            b = ControlBus(n, self.s)
            return [b], b.index
        if name == 'abus':
            b = AudioBus(n, self.s)
            return [b], b.index
        if name == 'buf':
            b = Buffer(8, 1, self.s)
            return [b], b.bufnum
        bs = Buffer.new_consecutive(n, 8, 1, self.s)
        nums = [b.bufnum for b in bs]
        if nums != list(range(nums[0], nums[0] + n)):
            return bs, nums          # judged as a bad value
        return bs, nums[0]

    @staticmethod
    def _no_space(name, e):
        from sc3.synth.bus import BusException
        if name in ('cbus', 'abus'):
            return isinstance(e, BusException)
        return type(e) is Exception and str(e).startswith('No ')

    def apply(self, op):
        dis = []
        name = op[0]
        if name in ('cbus', 'abus', 'buf', 'bufs'):
            _, n, picks = op
            space = {'cbus': 'control', 'abus': 'audio'}.get(name, 'buffer')
            ref = self.ref[space]
            objs = None
            with tiebreak(Chooser(picks, strict=True)) as ch:
                try:
                    objs, obs = self._construct(name, n)
                except core.HarnessError:
                    raise
                except Exception as e:
                    obs = None if self._no_space(name, e) else _exc(e)
            if len(ch.arities) != len(picks):
                raise core.HarnessError(
                    f'operation {op} fixed {len(picks)} tie-breaks, the '
                    f'allocator asked {len(ch.arities)}')
            if isinstance(obs, str):
                dis.append((f'server-{space}-ctor-raises/{self.tag}',
                            'an object or the no-space error', obs, ''))
            else:
                for prob, exp, o in ref.judge_alloc(n, obs):
                    dis.append((f'server-{space}-{prob}/{self.tag}', exp, o,
                                f'{name}({n}) -> {obs!r}; live '
                                f'{ref.listing()}; partition '
                                f'[{ref.lo}, {ref.hi})'))
                if objs is not None:
                    self.objs.append([space, objs, obs, True])
        elif name == 'free':
            ent = self.objs[op[1]]
            space, objs, start, live = ent
            if live:
                if not self.ref[space].free(start):
                    raise core.HarnessError(f'{op}: model lost a live range')
                ent[3] = False
            obs = None
            try:
                for b in objs:          # a consecutive group is freed as one
                    b.free()
            except Exception as e:
                obs = _exc(e)
                kind = 'free-raises' if live else 'double-free-raises'
                dis.append((f'server-{space}-{kind}/{self.tag}',
                            'no exception', obs, ''))
        elif name == 'node':
            try:
                obs = self.s._next_node_id()
            except Exception as e:
                obs = _exc(e)
                dis.append((f'server-nodeid-raises/{self.tag}', 'an id', obs,
                            ''))
            else:
                for p, e, o in self.nodes.judge(obs):
                    dis.append((f'server-nodeid-{p}/{self.tag}', e, o,
                                f'client {self.nodes.user}'))
        else:
            raise core.HarnessError(f'bad op {op}')
        self.last = [name, obs, [self.ref[k].listing()
                                 for k in ('control', 'audio', 'buffer')]]
        return dis

    def key(self):
        return [[self.ref[k].listing() for k in ('control', 'audio',
                                                 'buffer')],
                [[e[0], e[2], len(e[1]), e[3]] for e in self.objs],
                [impl_key(self._allocator(k))
                 for k in ('control', 'audio', 'buffer')],
                self.nodes.count]

    def nontrivial(self):
        return any(not e[3] for e in self.objs)

    def outcome(self):
        return self.last


SYSTEMS = {'alloc': AllocSys, 'nodeid': NodeIdSys, 'server': ServerSys}
replay = histbfs.replay


# ---- known findings ---------------------------------------------------------

def offset_positive(v, **_):
    """The failing configuration has a non-zero address offset (client id >= 1,
    or any audio bus allocator: the i/o channels shift it)."""
    c = v['case']
    if c['system'] == 'alloc':
        return c['params']['addr_offset'] > 0
    if c['system'] == 'server':
        return c['params']['client'] > 0 or '-audio-' in v['kind']
    return False


PREDICATES = {'offset_positive': offset_positive}


# ---- parent -----------------------------------------------------------------

def alloc_configs(sizes, ns, offsets):
    out = []
    for size in sizes:
        for pos in (0, 1):
            for off in offsets(size):
                out.append({'size': size, 'pos': pos, 'addr_offset': off,
                            'ns': list(ns)})
    return out


def main(ctx):
    ctx.rule = (
        'E2 BFS over all histories of alloc(1|2|3) x every tie-break answer, '
        'free(start of a live range), free(a start freed earlier that is not '
        'live now), free(None) on the real ContiguousBlockAllocator for every '
        'listed (size, reserved pos, address offset); over histories of '
        'ControlBus/AudioBus/Buffer/Buffer.new_consecutive constructors, '
        'free, second free and node-id requests on a real Server for client '
        'ids 0 and 1 of 2 logins (thorough: also 2 of 3); over node-id '
        'allocation counts for users 0, 1, 31 across the '
        'wrap-around.  States are deduplicated on (live ranges of the model, '
        'starts freed earlier, block table, free lists in dictionary order '
        'with block identity, top).  Non-trivial = the history contains at '
        'least one free of a live range (every later operation then works on '
        'freed / merged space; every tie-break with >= 2 candidates and every '
        'double free of an earlier handle lies in such a history; histories '
        'of allocations and free(None) only are counted trivial); for node '
        'ids: the count exceeds the id window.')
    ctx.assumptions += [
        'reference model mc/oracles/alloc_ref.py: live ranges in a partition; '
        'any placement inside the partition and disjoint from live ranges is '
        'accepted, "no space" is accepted iff no free run of that length '
        'exists, return values of free are not compared',
        'the only nondeterminism of the allocator is builtins.choice over a '
        'set of blocks; candidates are sorted by start and every index is '
        'explored (a hidden second source would surface as a diverging '
        'replay)',
        'per-client partitions: the index space behind the i/o channels is '
        'divided into max_logins equal slices, client c owns the c-th; node '
        'id range of client c is [c*2^26, (c+1)*2^26), window '
        '[initial id, 2^26-1] below the client prefix',
        'a Buffer.new_consecutive group is freed as a whole (the library '
        'documents that freeing members individually is unsupported)',
    ]
    quick = ctx.tier == 'quick'
    if quick:
        cfgs = alloc_configs((4, 5, 6), (1, 2, 3),
                             lambda s: (0, 2, s, s + 2, 2 * s))
        depth = 8
    else:
        cfgs = alloc_configs((4, 5, 6, 7), (1, 2, 3),
                             lambda s: (0, 2, s, s + 2, 2 * s))
        cfgs += alloc_configs((8,), (1, 2, 4), lambda s: (0, 2, s, s + 2))
        depth = {4: 16, 5: 16, 6: 12, 7: 11, 8: 10}
    for p in cfgs:
        histbfs.run(ctx, MODNAME, 'alloc', p,
                    depth=depth if quick else depth[p['size']])
    for user in (0, 1, 31):
        for initial in (1000, 2 ** 26 - 3):
            histbfs.run(ctx, MODNAME, 'nodeid',
                        {'user': user, 'initial': initial},
                        depth=8 if quick else 16)
    clients = [(0, 2), (1, 2)] if quick else [(0, 2), (1, 2), (2, 3)]
    for client, logins in clients:
        for reserved in (0, 1):
            base = {'client': client, 'logins': logins,
                    'control': 4 * logins + 1, 'audio': 5 * logins + 1,
                    'buffers': 4 * logins, 'reserved': reserved,
                    'initial_node_id': 1000 if reserved == 0
                    else 2 ** 26 - 3}
            # all object kinds interleaved (cross-wiring of the allocators)
            histbfs.run(ctx, MODNAME, 'server',
                        dict(base, kinds=['control', 'audio', 'buffer',
                                          'node']),
                        depth=4 if quick else 5)
            # one kind at a time, deeper
            for kind in ('control', 'audio', 'buffer'):
                histbfs.run(ctx, MODNAME, 'server', dict(base, kinds=[kind]),
                            depth=6 if quick else 8)
    closed = [k for k, b in ctx.bounds.items()
              if k.startswith('alloc:') and b['levels']
              and b['levels'][-1]['new_states'] == 0]
    ctx.extra['alloc_configs'] = len(cfgs)
    ctx.extra['alloc_configs_with_closed_state_space'] = (
        len(closed) if not ctx.violations
        else 'n/a: violating states are not expanded')
    ctx.extra['closed_note'] = (
        'for these configurations the search reached a fixed point: every '
        'reachable (model, allocator) state was expanded, so the result '
        'holds for histories of any length (modulo the state key)')
    for v in ctx.violations.values():
        v['standalone'] = standalone(v['case'])


def standalone(case):
    """Python source (only sc3 imports) that re-runs an allocator / node-id
    history; None for server-level cases."""
    p, hist = case['params'], case['history']
    if case['system'] == 'nodeid':
        return ('from sc3.synth._engine import NodeIDAllocator\n'
                f"a = NodeIDAllocator({p['user']}, {p['initial']})\n"
                f'print([a.alloc() for _ in range({len(hist)})])\n')
    if case['system'] != 'alloc':
        return None
    lines = ['from sc3.synth._engine import ContiguousBlockAllocator',
             'import sc3.base.builtins as bi',
             'picks = []',
             '# tie-breaks: candidates sorted by start, answer fixed per call',
             'bi.choice = lambda lst: sorted(lst, key=lambda b: b.start)'
             '[picks.pop(0)]',
             f"a = ContiguousBlockAllocator({p['size']}, {p['pos']}, "
             f"{p['addr_offset']})  # partition "
             f"[{p['addr_offset'] + p['pos']}, "
             f"{p['addr_offset'] + p['size']})"]
    for op in hist:
        if op[0] == 'alloc':
            lines.append(f'picks[:] = {op[2]}; print("alloc({op[1]}) ->", '
                         f'a.alloc({op[1]}))')
        else:
            lines.append(f'a.free({op[1]})')
    return '\n'.join(lines) + '\n'
