"""C16 - bus, buffer and node-id allocation is safe and complete.

E2 (histbfs) over the real ContiguousBlockAllocator, the real Server-level
constructors (AudioBus / ControlBus / Buffer on per-client allocators) and the
real NodeIDAllocator, against mc/oracles/alloc_ref.py (a set of live ranges in
a partition; a window of node ids).

The allocator breaks ties between equally good free blocks with
`sc3.base.builtins.choice` on a list made from a set of blocks hashed by
address.  The harness rebinds that module global for the duration of each
allocating call: the candidates are sorted by start address and the answer is
taken from the operation itself (`['alloc', n, picks]`), so every answer is a
branch of the search and a history fully determines the run.

Besides alloc / free / second free the menus contain the other ways an index
reaches `allocator.free`: frees of addresses that are not the start of a live
range (objects made with an explicit index, sub-buses, foreign indices just
outside the allocator's range) and `Buffer.free_all` with the handles it
outlives.  All runs of a tier are explored level by level in one pool map
(`run_many`, same worker function and bookkeeping as histbfs.run)."""

import copy
import contextlib

from mc import core
from mc.engines import histbfs
from mc.oracles import alloc_ref

MODE = 'nrt'
MODNAME = 'mc.checks.c16'


# ---- the tie-break seam ----------------------------------------------------

class Chooser:
    """Stand-in for builtins.choice: sorts the candidates by (start, size) and
    answers with the next pick of the operation.  `strict=False` (dry runs on
    copies) answers 0 beyond the given prefix and records the arities."""

    def __init__(self, picks, strict):
        self.picks = list(picks)
        self.strict = strict
        self.arities = []

    def __call__(self, lst):
        c = sorted(lst, key=lambda b: (getattr(b, 'start', 0),
                                       getattr(b, 'size', 0)))
        i = len(self.arities)
        self.arities.append(len(c))
        if not c:
            raise IndexError('Cannot choose from an empty sequence')
        if i < len(self.picks):
            p = self.picks[i]
        elif self.strict:
            raise core.HarnessError(
                f'tie-break #{i} not determined by the operation '
                f'(picks={self.picks})')
        else:
            p = 0
        if p >= len(c):
            raise core.HarnessError(
                f'tie-break pick {p} out of range ({len(c)} candidates)')
        return c[p]


@contextlib.contextmanager
def tiebreak(ch):
    from sc3.base import builtins as bi
    from sc3.synth import _engine
    if _engine.bi is not bi or not hasattr(bi, 'choice'):
        raise core.HarnessError('tie-break seam moved: _engine.bi.choice')
    old = bi.choice
    bi.choice = ch
    try:
        yield ch
    finally:
        bi.choice = old


def pick_menus(allocator, n):
    """All sequences of tie-break answers alloc(n) can be asked for in the
    current state, found by dry runs on deep copies of the allocator."""
    res = []
    stack = [[]]
    while stack:
        prefix = stack.pop()
        c = copy.deepcopy(allocator)
        with tiebreak(Chooser(prefix, strict=False)) as ch:
            try:
                c.alloc(n)
            except core.HarnessError:
                raise
            except Exception:
                pass
        full = prefix + [0] * (len(ch.arities) - len(prefix))
        res.append(full)
        for i in range(len(prefix), len(ch.arities)):
            for j in range(1, ch.arities[i]):
                stack.append(full[:i] + [j])
    res.sort()
    return res


def impl_key(a):
    """Everything the block allocator's future behaviour depends on."""
    off = a.addr_offset
    arr = [None if b is None else [b.start, b.size, bool(b.used)]
           for b in a._array]
    freed = []
    for size, set_ in a._freed.items():          # dict order matters
        blocks = []
        for b in set_:
            i = b.start - off
            same = 0 <= i < len(a._array) and a._array[i] is b
            blocks.append([b.start, b.size, bool(b.used), same])
        freed.append([size, sorted(blocks)])
    return [arr, freed, a.top, a.pos, a.size, off]


def _exc(e):
    return f'raises {type(e).__name__}: {e}'[:200]


# ---- system 1: the block allocator -----------------------------------------

class AllocSys:
    """params: size, pos (reserved), addr_offset, ns (request sizes), xfree
    (optional: the menu also offers free(addr) for every address that is not
    the start of a live range nor a start freed earlier: inside a live range,
    the start of a never allocated block, a reserved index, and the foreign
    addresses just outside the allocator's own index range - what
    `Bus(n, server, index).free()` / `bus.sub_bus(k).free()` send to the
    allocator)."""

    def __init__(self, params):
        from sc3.synth import _engine
        size, pos, off = params['size'], params['pos'], params['addr_offset']
        self.a = _engine.ContiguousBlockAllocator(size, pos, off)
        self.ref = alloc_ref.RangeModel(off + pos, off + size)
        self.ns = params['ns']
        self.tag = 'off0' if off == 0 else 'off+'
        self.freed_earlier = set()
        self.last = None
        self.xfree = bool(params.get('xfree'))
        self.span = (off, size)

    def xfree_addresses(self):
        off, size = self.span
        own = [a for a in range(off, off + size)
               if a not in self.ref.live and a not in self.freed_earlier]
        below = list(range(max(0, off - size - 1), off))
        return sorted(set(own + below + [off + size]))

    def ops(self):
        o = []
        for n in self.ns:
            for picks in pick_menus(self.a, n):
                o.append(['alloc', n, picks])
        for st in sorted(self.ref.live):
            o.append(['free', st])
        for st in sorted(self.freed_earlier - set(self.ref.live)):
            o.append(['refree', st])
        o.append(['free', None])
        if self.xfree:
            for a in self.xfree_addresses():
                o.append(['xfree', a])
        return o

    def apply(self, op):
        dis = []
        name = op[0]
        if name == 'xfree':
            # a free of an address the allocator never handed out (or not at
            # this start): the model does not change; whether the call
            # raises is a don't-care, later answers are judged as always
            addr = op[1]
            if addr in self.ref.live or addr in self.freed_earlier:
                raise core.HarnessError(f'{op}: not a foreign address')
            if not self.tag.endswith('/after-xfree'):
                self.tag += '/after-xfree'
            try:
                self.a.free(addr)
                obs = None
            except Exception as e:
                obs = _exc(e)
        elif name == 'alloc':
            _, n, picks = op
            with tiebreak(Chooser(picks, strict=True)) as ch:
                try:
                    obs = self.a.alloc(n)
                except core.HarnessError:
                    raise
                except Exception as e:
                    obs = _exc(e)
            if len(ch.arities) != len(picks):
                raise core.HarnessError(
                    f'operation {op} fixed {len(picks)} tie-breaks, the '
                    f'allocator asked {len(ch.arities)}')
            if isinstance(obs, str):
                dis.append((f'alloc-raises/{self.tag}', 'a start or None',
                            obs, f'live {self.ref.listing()}'))
            else:
                for prob, exp, o in self.ref.judge_alloc(n, obs):
                    dis.append((f'alloc-{prob}/{self.tag}', exp, o,
                                f'alloc({n}) -> {obs!r}; live '
                                f'{self.ref.listing()}; partition '
                                f'[{self.ref.lo}, {self.ref.hi})'))
        elif name in ('free', 'refree'):
            addr = op[1]
            was_live = self.ref.free(addr)
            if name == 'refree' and was_live:
                raise core.HarnessError(f'{op}: address is live')
            if name == 'free' and addr is not None and not was_live:
                raise core.HarnessError(f'{op}: address is not live')
            if was_live:
                self.freed_earlier.add(addr)
            try:
                self.a.free(addr)
                obs = None            # the return value is a don't-care
            except Exception as e:
                obs = _exc(e)
                kind = 'free-raises' if was_live else 'double-free-raises'
                dis.append((f'{kind}/{self.tag}', 'no exception', obs,
                            f'live {self.ref.listing()}'))
        else:
            raise core.HarnessError(f'bad op {op}')
        self.last = [name, obs, self.ref.listing()]
        return dis

    def key(self):
        return [self.ref.listing(), sorted(self.freed_earlier),
                impl_key(self.a)]

    def nontrivial(self):
        # state-determined (part of the key), so the count does not depend
        # on which history reaches a state first
        return bool(self.freed_earlier)

    def outcome(self):
        return self.last


# ---- system 2: node ids ----------------------------------------------------

class NodeIdSys:
    """params: user, initial.  One operation: alloc()."""

    def __init__(self, params):
        from sc3.synth import _engine
        self.a = _engine.NodeIDAllocator(params['user'], params['initial'])
        self.ref = alloc_ref.NodeIdModel(params['user'], params['initial'])
        self.last = None

    def ops(self):
        return [['alloc']]

    def apply(self, op):
        if op != ['alloc']:
            raise core.HarnessError(f'bad op {op}')
        try:
            x = self.a.alloc()
        except Exception as e:
            self.last = _exc(e)
            return [('nodeid-raises', 'an id', self.last, '')]
        self.last = x
        return [(f'nodeid-{p}', e, o,
                 f'allocation #{self.ref.count} of user {self.ref.user}, '
                 f'initial id {self.ref.initial}')
                for p, e, o in self.ref.judge(x)]

    def key(self):
        return [self.ref.count]

    def nontrivial(self):
        return self.ref.wrapped()

    def outcome(self):
        return self.last


# ---- system 3: the server level --------------------------------------------

_server = None
IO_CHANNELS = 4      # 2 outputs + 2 inputs in front of the private buses


def _get_server():
    """One never-booted Server per worker (a booted NRT server is pinned to a
    single login); every execution re-creates its allocators with the
    library's own `_set_client_id` -> `_new_allocators`."""
    global _server
    if _server is None:
        from sc3.base.netaddr import NetAddr
        from sc3.synth.server import Server, ServerOptions
        _server = Server('c16', NetAddr('127.0.0.1', 57216), ServerOptions())
    return _server


SPACES = ('control', 'audio', 'buffer')


def _reserved(params):
    r = params['reserved']
    return dict(r) if isinstance(r, dict) else {k: r for k in SPACES}


def _io(params):
    return (params.get('outs', IO_CHANNELS // 2),
            params.get('ins', IO_CHANNELS // 2))


class ServerSys:
    """params: client, logins, control, audio, buffers (server-wide counts;
    audio excludes the i/o channels), reserved (one number or one per index
    space), outs / ins (hardware channels in front of the private audio
    buses, default 2 + 2), initial_node_id, kinds (which object kinds the
    operation menu offers: 'control', 'audio', 'buffer', 'node'; 'gnode' =
    node ids through Group.basic_new; 'free_all' = Buffer.free_all; 'x' =
    objects made with an explicit index / bufnum outside the live starts and
    freed at once)."""

    def __init__(self, params):
        from sc3.base.main import main
        main.reset()
        s = _get_server()
        o = s.options
        o.max_logins = params['logins']
        o.output_channels, o.input_channels = _io(params)
        first = sum(_io(params))
        res = _reserved(params)
        o.control_buses = params['control']
        o.audio_buses = params['audio'] + first
        o.buffers = params['buffers']
        o.reserved_control_buses = res['control']
        o.reserved_audio_buses = res['audio']
        o.reserved_buffers = res['buffer']
        o.initial_node_id = params['initial_node_id']
        if s._status_watcher.max_logins != params['logins']:
            raise core.HarnessError('server does not use options.max_logins')
        s._set_client_id(params['client'])
        if s.client_id != params['client']:
            raise core.HarnessError('client id not accepted')
        self.s = s
        c, L = params['client'], params['logins']
        self.ref = {
            'control': alloc_ref.RangeModel(*alloc_ref.partition(
                o.control_buses, L, c, 0, res['control'])),
            'audio': alloc_ref.RangeModel(*alloc_ref.partition(
                o.audio_buses, L, c, first, res['audio'])),
            'buffer': alloc_ref.RangeModel(*alloc_ref.partition(
                o.buffers, L, c, 0, res['buffer'])),
        }
        self.nodes = alloc_ref.NodeIdModel(c, params['initial_node_id'])
        self.tag = 'client0' if c == 0 else 'client+'
        self.kinds = params['kinds']
        self.objs = []       # [space, [objects], start, live, stale]
        self.last = None

    def _allocator(self, space):
        return {'control': self.s._control_bus_allocator,
                'audio': self.s._audio_bus_allocator,
                'buffer': self.s._buffer_allocator}[space]

    def ops(self):
        o = []
        for name, space, ns in (('cbus', 'control', (1, 2)),
                                ('abus', 'audio', (1, 2)),
                                ('buf', 'buffer', (1,)),
                                ('bufs', 'buffer', (1, 2, 3))):
            if space not in self.kinds:
                continue
            for n in ns:
                for picks in pick_menus(self._allocator(space), n):
                    o.append([name, n, picks])
        for i, ent in enumerate(self.objs):
            # a handle outlived by Buffer.free_all still carries its number:
            # freeing it is a double free unless that number is the start of
            # a range handed out since (aliasing: not decided, not offered)
            if ent[4] and any(st in self.ref[ent[0]].live
                              for st in self._ids(ent)):
                continue
            o.append(['free', i])
        if 'node' in self.kinds:
            o.append(['node'])
        if 'gnode' in self.kinds:
            o.append(['gnode'])
        if 'free_all' in self.kinds:
            o.append(['free_all'])
        if 'x' in self.kinds:
            for space in SPACES:
                if space in self.kinds:
                    for k in self.x_indices(space):
                        o.append(['xfree', space, k])
        return o

    @staticmethod
    def _ids(ent):
        return list(range(ent[2], ent[2] + len(ent[1]))) \
            if ent[0] == 'buffer' else [ent[2]]

    def x_indices(self, space):
        """Explicit indices for throw-away objects: the first index of the
        whole space, the index just below the first one this client may use
        (a reserved one, an i/o channel or the previous client's last), the
        index just above the partition, and the second index of every live
        range of two or more."""
        ref = self.ref[space]
        ks = {0, ref.lo - 1, ref.hi}
        ks |= {s + 1 for s, m in ref.live.items() if m >= 2}
        return sorted(k for k in ks if k >= 0 and k not in ref.live)

    def _construct(self, name, n):
        from sc3.synth.bus import AudioBus, ControlBus
        from sc3.synth.buffer import Buffer
        if name == 'cbus':
            b = ControlBus(n, self.s)
            return [b], b.index
        if name == 'abus':
            b = AudioBus(n, self.s)
            return [b], b.index
        if name == 'buf':
            b = Buffer(8, 1, self.s)
            return [b], b.bufnum
        bs = Buffer.new_consecutive(n, 8, 1, self.s)
        nums = [b.bufnum for b in bs]
        if nums != list(range(nums[0], nums[0] + n)):
            return bs, nums          # judged as a bad value
        return bs, nums[0]

    @staticmethod
    def _no_space(name, e):
        from sc3.synth.bus import BusException
        if name in ('cbus', 'abus'):
            return isinstance(e, BusException)
        return type(e) is Exception and str(e).startswith('No ')

    def apply(self, op):
        dis = []
        name = op[0]
        if name in ('cbus', 'abus', 'buf', 'bufs'):
            _, n, picks = op
            space = {'cbus': 'control', 'abus': 'audio'}.get(name, 'buffer')
            ref = self.ref[space]
            objs = None
            with tiebreak(Chooser(picks, strict=True)) as ch:
                try:
                    objs, obs = self._construct(name, n)
                except core.HarnessError:
                    raise
                except Exception as e:
                    obs = None if self._no_space(name, e) else _exc(e)
            if len(ch.arities) != len(picks):
                raise core.HarnessError(
                    f'operation {op} fixed {len(picks)} tie-breaks, the '
                    f'allocator asked {len(ch.arities)}')
            if isinstance(obs, str):
                dis.append((f'server-{space}-ctor-raises/{self.tag}',
                            'an object or the no-space error', obs, ''))
            else:
                for prob, exp, o in ref.judge_alloc(n, obs):
                    dis.append((f'server-{space}-{prob}/{self.tag}', exp, o,
                                f'{name}({n}) -> {obs!r}; live '
                                f'{ref.listing()}; partition '
                                f'[{ref.lo}, {ref.hi})'))
                if objs is not None:
                    self.objs.append([space, objs, obs, True, False])
        elif name == 'free':
            ent = self.objs[op[1]]
            space, objs, start, live, stale = ent
            if stale and any(st in self.ref[space].live
                             for st in self._ids(ent)):
                raise core.HarnessError(f'{op}: stale handle aliases a live '
                                        'range')
            ent[4] = False       # its numbers are gone after this free
            if live:
                if not self.ref[space].free(start):
                    raise core.HarnessError(f'{op}: model lost a live range')
                ent[3] = False
            obs = None
            try:
                for b in objs:          # a consecutive group is freed as one
                    b.free()
            except Exception as e:
                obs = _exc(e)
                kind = 'free-raises' if live else 'double-free-raises'
                dis.append((f'server-{space}-{kind}/{self.tag}',
                            'no exception', obs, ''))
        elif name == 'free_all':
            # every buffer number of this client is returned; the handles
            # keep their numbers (stale)
            from sc3.synth.buffer import Buffer
            self.ref['buffer'].live.clear()
            for ent in self.objs:
                if ent[0] == 'buffer' and ent[3]:
                    ent[3] = False
                    ent[4] = True
            obs = None
            try:
                Buffer.free_all(self.s)
            except Exception as e:
                obs = _exc(e)
                dis.append((f'server-buffer-free-all-raises/{self.tag}',
                            'no exception', obs, ''))
        elif name == 'xfree':
            # an object made with an explicit index never allocates; freeing
            # it hands an index to the allocator that is not the start of a
            # live range: nothing changes in the model.  Exceptions are a
            # don't-care.
            _, space, k = op
            if k in self.ref[space].live:
                raise core.HarnessError(f'{op}: index is a live start')
            if not self.tag.endswith('/after-xfree'):
                self.tag += '/after-xfree'
            from sc3.synth.bus import AudioBus, ControlBus
            from sc3.synth.buffer import Buffer
            try:
                if space == 'control':
                    b = ControlBus(1, self.s, k)
                elif space == 'audio':
                    b = AudioBus(1, self.s, k)
                else:
                    b = Buffer(8, 1, self.s, k)
                b.free()
                obs = None
            except Exception as e:
                obs = _exc(e)
        elif name in ('node', 'gnode'):
            try:
                if name == 'node':
                    obs = self.s._next_node_id()
                else:
                    from sc3.synth.node import Group
                    obs = Group.basic_new(self.s).node_id
            except Exception as e:
                obs = _exc(e)
                dis.append((f'server-nodeid-raises/{self.tag}', 'an id', obs,
                            ''))
            else:
                for p, e, o in self.nodes.judge(obs):
                    dis.append((f'server-nodeid-{p}/{self.tag}', e, o,
                                f'client {self.nodes.user}'))
        else:
            raise core.HarnessError(f'bad op {op}')
        self.last = [name, obs, [self.ref[k].listing()
                                 for k in ('control', 'audio', 'buffer')]]
        return dis

    def key(self):
        return [[self.ref[k].listing() for k in ('control', 'audio',
                                                 'buffer')],
                [[e[0], e[2], len(e[1]), e[3], e[4]] for e in self.objs],
                [impl_key(self._allocator(k))
                 for k in ('control', 'audio', 'buffer')],
                self.nodes.count]

    def nontrivial(self):
        return any(not e[3] for e in self.objs)

    def outcome(self):
        return self.last


SYSTEMS = {'alloc': AllocSys, 'nodeid': NodeIdSys, 'server': ServerSys}
replay = histbfs.replay


# ---- known findings ---------------------------------------------------------

def offset_positive(v, **_):
    """The failing configuration has a non-zero address offset (client id >= 1,
    or any audio bus allocator: the i/o channels shift it)."""
    c = v['case']
    if c['system'] == 'alloc':
        return c['params']['addr_offset'] > 0
    if c['system'] == 'server':
        return c['params']['client'] > 0 or '-audio-' in v['kind']
    return False


def foreign_free_below_offset(v, **_):
    """The history hands the failing allocator, before the failing request,
    an index below its address offset and not more than its size below
    (`array[addr - addr_offset]` with a negative index counts from the end)."""
    c = v['case']
    p, hist = c['params'], c['history'][:-1]
    if c['system'] == 'alloc':
        off, size = p['addr_offset'], p['size']
        return any(op[0] == 'xfree' and off - size <= op[1] < off
                   for op in hist)
    if c['system'] == 'server':
        L, cl = p['logins'], p['client']
        first = sum(_io(p))
        for space, total, lead in (('control', p['control'], 0),
                                   ('audio', p['audio'] + first, first),
                                   ('buffer', p['buffers'], 0)):
            if f'-{space}-' not in v['kind']:
                continue
            lo, hi = alloc_ref.partition(total, L, cl, lead, 0)
            if any(op[0] == 'xfree' and op[1] == space
                   and lo - (hi - lo) <= op[2] < lo for op in hist):
                return True
    return False


PREDICATES = {'offset_positive': offset_positive,
              'foreign_free_below_offset': foreign_free_below_offset}


# ---- parent -----------------------------------------------------------------

def alloc_configs(sizes, ns, offsets, poss=(0, 1), **more):
    out = []
    for size in sizes:
        for pos in poss:
            for off in offsets(size):
                out.append(dict({'size': size, 'pos': pos, 'addr_offset': off,
                                 'ns': list(ns(size, pos)) if callable(ns)
                                 else list(ns)}, **more))
    return out


def expand_tagged(job):
    """Worker: histbfs.expand, the result labelled with the run it is for."""
    r = histbfs.expand(job)
    r['run'] = job['run']
    return r


def run_many(ctx, runs, mode='nrt', batch=32):
    """histbfs.run for several (system, params, depth) at once: the same
    level-synchronous BFS per run (same worker function, same bookkeeping and
    ctx.bounds entries), but the frontier batches of all runs of one level
    share one pool map, and results are consumed in job order.  A single run
    has frontiers far too small to occupy the workers."""
    st = [{'seen': {'<root>'}, 'frontier': [[]], 'states': 1, 'levels': [],
           'completed': 0, 'active': True} for _ in runs]
    for level in range(1, max(r['depth'] for r in runs) + 1):
        jobs = []
        for ri, (r, s) in enumerate(zip(runs, st)):
            if not s['active']:
                continue
            if level > r['depth']:
                s['active'] = False
                continue
            if not s['frontier']:
                s['completed'] = r['depth']   # exhausted below the bound
                s['active'] = False
                continue
            fr = s['frontier']
            order = core.shard_order(len(fr), ctx.seed + level)
            fr = [fr[i] for i in order]
            s['frontier_in'] = len(fr)
            s['nxt'] = []
            s['ntr'] = 0
            for i in range(0, len(fr), batch):
                jobs.append({'module': MODNAME, 'system': r['system'],
                             'params': r['params'], 'hists': fr[i:i + batch],
                             'run': ri})
        if not jobs:
            break
        for res in ctx.map(mode, MODNAME, 'expand_tagged', jobs,
                           ordered=True):
            r, s = runs[res['run']], st[res['run']]
            s['ntr'] += res['tr']
            ctx.violation_count += res['nviol'] - len(res['viol'])
            for v in res['viol']:
                v['case']['module'] = MODNAME
                ctx.violation(v)
            for o in res['out']:
                ctx.outcomes.add(o)
            for h2, k, nt, ok in res['children']:
                if k in s['seen']:
                    continue
                s['seen'].add(k)
                s['states'] += 1
                if nt:
                    ctx.nontrivial += 1
                if ok:
                    s['nxt'].append(h2)
                if len(ctx.samples) < 4 and nt and \
                        level >= min(r['depth'], 3):
                    ctx.samples.append({'system': r['system'],
                                        'params': r['params'],
                                        'history': h2})
        timeout = ctx.out_of_time()
        for r, s in zip(runs, st):
            if not s['active'] or 'nxt' not in s:
                continue
            ctx.transitions += s['ntr']
            ctx.evaluations += s['ntr']
            ctx.traces += s['ntr']
            s['levels'].append({'depth': level,
                                'frontier_in': s['frontier_in'],
                                'transitions': s['ntr'],
                                'new_states': len(s['nxt'])})
            s['nxt'].sort(key=core.canon)
            s['frontier'] = s.pop('nxt')
            s['completed'] = level
            if timeout:
                ctx.caps.append(f"{r['label']}: time cap hit after depth "
                                f"{level}")
                s['active'] = False
    for r, s in zip(runs, st):
        ctx.states += s['states']
        ctx.bounds[r['label']] = {'depth_completed': s['completed'],
                                  'states': s['states'],
                                  'levels': s['levels']}


def _run(runs, system, params, depth):
    runs.append({'system': system, 'params': params, 'depth': depth,
                 'label': f'{system}:{core.canon(params)}'})


NODE_USERS = (0, 1, 2, 30, 31)
NODE_INITIALS = (0, 1000, 2 ** 26 - 3, 2 ** 26 - 2, 2 ** 26 - 1)
# (client, logins); quick runs the first two and one more chosen by the seed
CLIENTS = [(0, 2), (1, 2), (2, 3), (0, 1), (1, 3), (0, 3)]
# reserved indices per space and the initial node id that goes with them:
# every space is run without and with reserved indices, and within one
# configuration all three differ (like every other option value of the
# three spaces: a value read from the wrong option shows)
VARIANTS = [({'control': 0, 'audio': 1, 'buffer': 2}, 1000),
            ({'control': 1, 'audio': 2, 'buffer': 0}, 2 ** 26 - 3),
            ({'control': 2, 'audio': 0, 'buffer': 1}, 2 ** 26 - 2)]


def server_base(client, logins, reserved, initial):
    """Per-client shares 4 / 5 / 6 (control / audio / buffer), each total with
    the largest remainder that must be discarded (logins - 1); 3 outputs + 1
    input in front of the private audio buses."""
    return {'client': client, 'logins': logins,
            'control': 4 * logins + logins - 1,
            'audio': 5 * logins + logins - 1,
            'buffers': 6 * logins + logins - 1,
            'outs': 3, 'ins': 1,
            'reserved': reserved, 'initial_node_id': initial}


def wide_ns(size, pos):
    """1, 2, 3, the whole partition and one more than the partition."""
    return sorted({1, 2, 3, size - pos, size - pos + 1})


def main(ctx):
    ctx.rule = (
        'E2 BFS over all histories of alloc(1|2|3) x every tie-break answer, '
        'free(start of a live range), free(a start freed earlier that is not '
        'live now), free(None) on the real ContiguousBlockAllocator for every '
        'listed (size, reserved pos 0/1/2, address offset); a second family '
        '("xfree") adds alloc(whole partition), alloc(partition + 1) and '
        'free(a) for every other address a of the allocator\'s index range '
        '(inside a live range, never allocated, reserved) and for the '
        'size + 1 addresses below and the one above it; over histories of '
        'ControlBus/AudioBus/Buffer/Buffer.new_consecutive constructors, '
        'free, second free, Buffer.free_all and frees of the outlived '
        'handles, throw-away objects with an explicit index (first index of '
        'the space, just below / above the partition, second index of a live '
        'range) and node-id requests (Server._next_node_id, '
        'Group.basic_new) on a real Server whose three index spaces have '
        'pairwise different sizes and reserved counts, for client ids 0 and '
        '1 of 2 logins plus one of (2 of 3, 0 of 1, 1 of 3, 0 of 3) chosen '
        'by the seed (thorough: all six); over node-id allocation counts for '
        'users 0, 1, 2, 30, 31 x initial ids 0, 1000, 2^26-3, 2^26-2, 2^26-1 '
        'across the wrap-around.  States are deduplicated on (live ranges of '
        'the model, starts freed earlier, block table, free lists in '
        'dictionary order with block identity, top).  Non-trivial = the '
        'history contains at least one free of a live range (every later '
        'operation then works on freed / merged space; every tie-break with '
        '>= 2 candidates and every double free of an earlier handle lies in '
        'such a history; histories of allocations and frees that free '
        'nothing are counted trivial); for node ids: the count exceeds the '
        'id window.')
    ctx.assumptions += [
        'reference model mc/oracles/alloc_ref.py: live ranges in a partition; '
        'any placement inside the partition and disjoint from live ranges is '
        'accepted, "no space" is accepted iff no free run of that length '
        'exists, return values of free are not compared',
        'the only nondeterminism of the allocator is builtins.choice over a '
        'set of blocks; candidates are sorted by start and every index is '
        'explored (a hidden second source would surface as a diverging '
        'replay)',
        'per-client partitions: the index space behind the i/o channels is '
        'divided into max_logins equal slices, client c owns the c-th; node '
        'id range of client c is [c*2^26, (c+1)*2^26), window '
        '[initial id, 2^26-1] below the client prefix',
        'a Buffer.new_consecutive group is freed as a whole (the library '
        'documents that freeing members individually is unsupported)',
        'a free of an index that is not the start of a live range (explicit '
        'index objects, sub-buses, handles outlived by Buffer.free_all) '
        'changes nothing in the model; whether it raises is not decided by '
        'the statement and not compared (only a second free of a handle and '
        'Buffer.free_all must not raise).  A handle outlived by free_all '
        'whose number has been handed out again is not freed (aliasing is '
        'not decided)',
    ]
    quick = ctx.tier == 'quick'
    offs = lambda s: (0, 2, s, s + 2, 2 * s)
    runs = []
    if quick:
        cfgs = alloc_configs((4, 5, 6), (1, 2, 3), offs)
        cfgs += alloc_configs((5,), (1, 2, 3), offs, poss=(2,))
        depth = {4: 8, 5: 8, 6: 8}
        wide = alloc_configs((4, 5), wide_ns, offs, poss=(0, 1, 2),
                             xfree=True)
        wdepth = {4: 6, 5: 6}
    else:
        cfgs = alloc_configs((4, 5, 6, 7), (1, 2, 3), offs)
        cfgs += alloc_configs((5, 6), (1, 2, 3), offs, poss=(2,))
        cfgs += alloc_configs((8,), (1, 2, 4), lambda s: (0, 2, s, s + 2))
        depth = {4: 16, 5: 16, 6: 12, 7: 11, 8: 10}
        wide = alloc_configs((4, 5, 6), wide_ns, offs, poss=(0, 1, 2),
                             xfree=True)
        wdepth = {4: 12, 5: 10, 6: 9}
    for p in cfgs:
        _run(runs, 'alloc', p, depth[p['size']])
    for p in wide:
        _run(runs, 'alloc', p, wdepth[p['size']])
    for user in NODE_USERS:
        for initial in NODE_INITIALS:
            _run(runs, 'nodeid', {'user': user, 'initial': initial},
                 8 if quick else 16)
    if quick:
        clients = CLIENTS[:2] + [CLIENTS[2 + core.pick_slice(ctx.seed, 4)]]
    else:
        clients = CLIENTS
    for client, logins in clients:
        for reserved, initial in VARIANTS[:2] if quick else VARIANTS:
            base = server_base(client, logins, reserved, initial)
            # all object kinds interleaved (cross-wiring of the allocators)
            _run(runs, 'server',
                 dict(base, kinds=['control', 'audio', 'buffer', 'node',
                                   'gnode', 'free_all']),
                 4 if quick else 5)
            # one kind at a time, deeper, with explicit-index objects
            # (thorough: one level less for buffer partitions above 4)
            big = 6 - reserved['buffer'] > 4
            for kind in SPACES:
                if kind == 'buffer':
                    d = 6 if quick else 7 if big else 8
                else:
                    d = 7 if quick else 8
                _run(runs, 'server', dict(base, kinds=[kind, 'x']), d)
            # buffers with Buffer.free_all and the handles it outlives
            _run(runs, 'server', dict(base, kinds=['buffer', 'free_all']),
                 5 if quick else 6 if big else 7)
    run_many(ctx, runs)
    closed = [k for k, b in ctx.bounds.items()
              if k.startswith('alloc:') and b['levels']
              and b['levels'][-1]['new_states'] == 0]
    ctx.extra['alloc_configs'] = len(cfgs) + len(wide)
    ctx.extra['alloc_configs_xfree_family'] = len(wide)
    ctx.extra['server_configs'] = [list(c) for c in clients]
    ctx.extra['alloc_configs_with_closed_state_space'] = (
        len(closed) if not ctx.violations
        else 'n/a: violating states are not expanded')
    ctx.extra['closed_note'] = (
        'for these configurations the search reached a fixed point: every '
        'reachable (model, allocator) state was expanded, so the result '
        'holds for histories of any length (modulo the state key)')
    for v in ctx.violations.values():
        v['standalone'] = standalone(v['case'])


def standalone(case):
    """Python source (only sc3 imports) that re-runs an allocator / node-id
    history; None for server-level cases."""
    p, hist = case['params'], case['history']
    if case['system'] == 'nodeid':
        return ('from sc3.synth._engine import NodeIDAllocator\n'
                f"a = NodeIDAllocator({p['user']}, {p['initial']})\n"
                f'print([a.alloc() for _ in range({len(hist)})])\n')
    if case['system'] != 'alloc':
        return None
    lines = ['from sc3.synth._engine import ContiguousBlockAllocator',
             'import sc3.base.builtins as bi',
             'picks = []',
             '# tie-breaks: candidates sorted by start, answer fixed per call',
             'bi.choice = lambda lst: sorted(lst, key=lambda b: b.start)'
             '[picks.pop(0)]',
             f"a = ContiguousBlockAllocator({p['size']}, {p['pos']}, "
             f"{p['addr_offset']})  # partition "
             f"[{p['addr_offset'] + p['pos']}, "
             f"{p['addr_offset'] + p['size']})"]
    for op in hist:
        if op[0] == 'alloc':
            lines.append(f'picks[:] = {op[2]}; print("alloc({op[1]}) ->", '
                         f'a.alloc({op[1]}))')
        elif op[0] == 'xfree':
            lines.append(f'try: a.free({op[1]})  # not a live start\n'
                         'except Exception as e: print(repr(e))')
        else:
            lines.append(f'a.free({op[1]})')
    return '\n'.join(lines) + '\n'
