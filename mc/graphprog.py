"""Straight-line SSA graph programs: generator, builder through the real sc3
API, reference interpreter (AST -> polynomials) and evaluator of decoded SCgf
units.  Shared by C01, C02 and C20.

A program is plain data:
    {'stmts': [[op, arg, ...], ...], 'outs': <output option>, 'tagbase': int}
arg: a leaf name ('A','B','K','N','L','P','I'), a JSON number/bool constant or
a value reference 'v<k>' (k < index of the statement).
Leaves (created on first use, same object on every later use):
    A, B  SinOsc.ar(tag)      audio, side-effect free
    K     SinOsc.kr(tag)      control, side-effect free
    N     LFNoise0.ar(tag)    audio, stateful (never removable)
    L     Line.kr(tag,1,1,0)  control, stateful (never removable)
    P     function parameter p=0.25        (control-rate control)
    I     function parameter i:'ir'=0.75   (scalar control)
ops: neg add sub mul div madd sum3 sum4 abs min lpf
outs: 'last' | 'each' | 'list' | 'twice' | 'none'
"""

from fractions import Fraction

from mc.oracles import poly, scgf, server_ops

LEAVES = {
    'A': ('SinOsc', 2, True), 'B': ('SinOsc', 2, True),
    'K': ('SinOsc', 1, True), 'N': ('LFNoise0', 2, False),
    'L': ('Line', 1, False), 'P': ('Control', 1, True),
    'I': ('Control', 0, True)}
LEAF_ORDER = ['A', 'B', 'K', 'N', 'L', 'P', 'I']
RATE_RANK = {'A': 2, 'B': 2, 'K': 1, 'N': 2, 'L': 1, 'P': 1, 'I': 0}
ARITY = {'neg': 1, 'abs': 1, 'add': 2, 'sub': 2, 'mul': 2, 'div': 2,
         'min': 2, 'madd': 3, 'sum3': 3, 'sum4': 4, 'lpf': 1}


def is_const(a):
    return isinstance(a, (int, float, bool))


def is_val(a):
    return isinstance(a, str) and a[0] == 'v'


def tag_of(prog, name):
    """float32-exact tag constant of a leaf or of an lpf statement."""
    base = prog.get('tagbase', 100)
    if name in LEAVES:
        return float(base + LEAF_ORDER.index(name))
    return float(base + 16 + int(name[1:]))  # 'F<k>' : lpf at statement k


# --------------------------------------------------------------------------
# Reference interpretation of the AST (never touches sc3)
# --------------------------------------------------------------------------

class IllFormed(Exception):
    """The program has no real-number meaning (e.g. division by zero) or is
    not a well-formed graph function by the rule of DESIGN.md C01."""


LANE_OPS = ('neg', 'add', 'sub', 'mul', 'div', 'madd')


def flatten_lanes(prog):
    """A program with 'lanes': [map0, map1, ...] is written over lane-generic
    leaves; in the real build every leaf X is the channel list [map0[X],
    map1[X], ...] and every statement multichannel-expands.  Its meaning is
    that of the scalar program which runs the statements once per lane (leaf
    names mapped, value references shifted) and groups the lanes of each
    output value into one output unit."""
    lanes = prog['lanes']
    n = len(prog['stmts'])
    flat = []
    for j, m in enumerate(lanes):
        for st in prog['stmts']:
            if st[0] not in LANE_OPS:
                raise IllFormed(f'{st[0]} is not used in lane programs')
            row = [st[0]]
            for a in st[1:]:
                if is_val(a):
                    row.append(f'v{int(a[1:]) + j * n}')
                elif is_const(a):
                    row.append(a)
                else:
                    row.append(m.get(a, a))
            flat.append(row)
    o = prog['outs']
    if o == 'last':
        vs = [n - 1]
    elif o == 'each':
        vs = list(range(n))
    else:
        raise IllFormed(f'outs {o} with lanes')
    groups = [[i + j * n for j in range(len(lanes))] for i in vs]
    return {'stmts': flat, 'outs': 'groups', 'groups': groups,
            'tagbase': prog.get('tagbase', 100)}


def interpret(prog):
    """-> dict(vals=[poly], rank=[max rate rank of atoms], outs=[(rate, bus,
    [poly])], leaves=set used, lpf={k: input poly}, nontrivial=bool)."""
    if prog.get('lanes'):
        r = interpret(flatten_lanes(prog))
        r['nontrivial'] = True      # every statement expands over the lanes
        return r
    vals = []
    audio = []       # value certainly audio rate (normal form has audio atom)
    leaves = []
    lpf = {}
    flags = {'shortcut': False, 'shared': False, 'rewrite': False,
             'dead': False}
    uses = {}

    def atom_rank(p):
        r = 0
        for n in poly.atoms_of(p):
            r = max(r, _atom_rank(n))
        return r

    def ev(a):
        if is_const(a):
            return poly.const(Fraction(float(a)))
        if is_val(a):
            return vals[int(a[1:])]
        if a not in leaves:
            leaves.append(a)
        return poly.atom(a)

    for k, st in enumerate(prog['stmts']):
        op, args = st[0], st[1:]
        if len(args) != ARITY[op]:
            raise IllFormed(f'arity of {st}')
        if all(is_const(a) for a in args):
            raise IllFormed('constant-only statement is plain Python')
        for a in args:
            if not is_const(a):
                uses[a] = uses.get(a, 0) + 1
            elif float(a) in (0.0, 1.0, -1.0):
                flags['shortcut'] = True
        if len(set(map(repr, args))) < len(args):
            flags['shared'] = True
        ps = [ev(a) for a in args]
        if all(poly.is_const(p) for p in ps):
            # every operand has a constant value: the library may hold plain
            # numbers here (x*0 folds to 0.0), and arithmetic on them is
            # plain Python (e.g. -1 / -3 is not float32 exact): not decided
            # by the property
            raise IllFormed('all operands are constant-valued')
        if op in ('add', 'sub') and any(
                is_val(a) and prog['stmts'][int(a[1:])][0] in
                ('add', 'mul', 'neg', 'sum3', 'madd', 'sub') for a in args):
            flags['rewrite'] = True
        if op == 'neg':
            v = poly.neg(ps[0])
        elif op == 'add':
            v = poly.add(ps[0], ps[1])
        elif op == 'sub':
            v = poly.sub(ps[0], ps[1])
        elif op == 'mul':
            v = poly.mul(ps[0], ps[1])
        elif op == 'div':
            if poly.is_const(ps[1]) and poly.const_value(ps[1]) == 0:
                raise IllFormed('division by a zero signal')
            v = poly.div(ps[0], ps[1])
        elif op == 'madd':
            v = poly.add(poly.mul(ps[0], ps[1]), ps[2])
        elif op in ('sum3', 'sum4'):
            v = poly.ZERO
            for p in ps:
                v = poly.add(v, p)
        elif op == 'abs':
            if poly.is_const(ps[0]):
                # the library may hold a plain number here (x*0 folds to 0.0)
                # and abs() of it is plain Python: not decided by the property
                raise IllFormed('opaque operator on a constant')
            v = poly.app('un5', ps[0])
        elif op == 'min':
            if args[0] not in LEAVES:
                raise IllFormed('min needs a signal leaf as receiver')
            v = poly.app('bin12', ps[0], ps[1])
        elif op == 'lpf':
            if atom_rank(ps[0]) < 2:
                raise IllFormed('LPF.ar needs an audio-rate input')
            name = f'F{k}'
            lpf[name] = ps[0]
            v = poly.atom(name)
        vals.append(v)

    n = len(vals)
    o = prog['outs']
    if o == 'last':
        groups = [[n - 1]]
    elif o == 'each':
        groups = [[i] for i in range(n)]
    elif o == 'list':
        groups = [list(range(n))]
    elif o == 'twice':
        groups = [[n - 1], [n - 1]]
    elif o == 'none':
        groups = []
    elif o == 'groups':
        groups = prog['groups']
    else:
        raise IllFormed(f'outs {o}')
    outs = []
    live = set()
    for g in groups:
        ps = [vals[i] for i in g]
        rate = 2 if all(atom_rank(p) == 2 for p in ps) else 1
        outs.append((rate, ps))
        for i in g:
            uses['v%d' % i] = uses.get('v%d' % i, 0) + 1
            live.add(i)
    # liveness for the non-triviality rule
    for k in range(n - 1, -1, -1):
        if k in live:
            for a in prog['stmts'][k][1:]:
                if is_val(a):
                    live.add(int(a[1:]))
    if len(live) < n:
        flags['dead'] = True
    if any(c > 1 for c in uses.values()):
        flags['shared'] = True
    return {'vals': vals, 'outs': outs, 'leaves': leaves, 'lpf': lpf,
            'nontrivial': any(flags.values()), 'flags': flags}


def _atom_rank(name):
    if name in RATE_RANK:
        return RATE_RANK[name]
    if name[0] == 'F':
        return 2
    # opaque application: max over the atoms it mentions (by name scan)
    r = 0
    for leaf, rk in RATE_RANK.items():
        if leaf in name:
            r = max(r, rk)
    if 'F' in name:
        r = 2
    return r


# --------------------------------------------------------------------------
# Building the program through the real library
# --------------------------------------------------------------------------

def make_function(prog):
    """A real graph function whose body interprets the program with sc3
    objects.  The signature carries p / i only when the program uses them."""
    used = set()
    for st in prog['stmts']:
        for a in st[1:]:
            if a in LEAVES:
                used.add(a)

    lanes = prog.get('lanes')
    if lanes:
        used = {m.get(a, a) for m in lanes for a in used}

    def body(params):
        from sc3.synth.ugens import oscillators, noise, line, filter, inout
        from sc3.synth.ugen import ChannelList
        env = dict(params)
        vals = []

        def get(a):
            if is_const(a):
                return a
            if is_val(a):
                return vals[int(a[1:])]
            if lanes:
                return ChannelList([leaf(m.get(a, a)) for m in lanes])
            return leaf(a)

        def leaf(a):
            if a not in env:
                t = tag_of(prog, a)
                if a in ('A', 'B'):
                    env[a] = oscillators.SinOsc.ar(t)
                elif a == 'K':
                    env[a] = oscillators.SinOsc.kr(t)
                elif a == 'N':
                    env[a] = noise.LFNoise0.ar(t)
                elif a == 'L':
                    env[a] = line.Line.kr(t, 1, 1, 0)
            return env[a]

        for k, st in enumerate(prog['stmts']):
            op = st[0]
            xs = [get(a) for a in st[1:]]
            if op == 'neg':
                v = -xs[0]
            elif op == 'add':
                v = xs[0] + xs[1]
            elif op == 'sub':
                v = xs[0] - xs[1]
            elif op == 'mul':
                v = xs[0] * xs[1]
            elif op == 'div':
                v = xs[0] / xs[1]
            elif op == 'madd':
                from sc3.synth.ugen import MulAdd
                v = xs[0].madd(xs[1], xs[2]) if hasattr(xs[0], 'madd') \
                    else MulAdd.new(xs[0], xs[1], xs[2])
            elif op in ('sum3', 'sum4'):
                v = ChannelList(xs).sum()
            elif op == 'abs':
                v = abs(xs[0])
            elif op == 'min':
                v = xs[0].min(xs[1])
            elif op == 'lpf':
                v = filter.LPF.ar(xs[0], tag_of(prog, f'F{k}'))
            vals.append(v)
        return vals

    def emit(vals, ref_outs, groups):
        from sc3.synth.ugens import inout
        for (rate, _), g in zip(ref_outs, groups):
            chans = [vals[i] for i in g]
            arg = chans[0] if len(chans) == 1 else chans
            if lanes:
                arg = vals[g[0] % n]    # one channel list: a channel per lane
            if rate == 2:
                inout.Out.ar(0, arg)
            else:
                inout.Out.kr(1, arg)

    ref = interpret(prog)
    n = len(prog['stmts'])
    o = prog['outs']
    groups = {'last': [[n - 1]], 'each': [[i] for i in range(n)],
              'list': [list(range(n))], 'twice': [[n - 1], [n - 1]],
              'none': []}[o]

    def run(params):
        emit(body(params), ref['outs'], groups)

    if 'P' in used and 'I' in used:
        def graph(p=0.25, i: 'ir' = 0.75):
            run({'P': p, 'I': i})
    elif 'P' in used:
        def graph(p=0.25):
            run({'P': p})
    elif 'I' in used:
        def graph(i: 'ir' = 0.75):
            run({'I': i})
    else:
        def graph():
            run({})
    return graph, ref


def build(prog, name='g'):
    """-> (bytes, ref). Raises whatever the library raises."""
    from sc3.synth.synthdef import SynthDef
    graph, ref = make_function(prog)
    sd = SynthDef(name, graph)
    return sd_bytes(sd), ref


def sd_bytes(sd):
    """bytes of a definition; releases the memoryview the library keeps on
    its BytesIO so that interpreter shutdown stays quiet."""
    mv = sd.as_bytes()
    data = bytes(mv)
    if isinstance(mv, memoryview):
        sd._bytes = None
        mv.release()
    return data


# --------------------------------------------------------------------------
# Meaning of a decoded definition
# --------------------------------------------------------------------------

ARITH = {'BinaryOpUGen', 'UnaryOpUGen', 'MulAdd', 'Sum3', 'Sum4'}
CONTROLS = {'Control', 'TrigControl', 'AudioControl', 'LagControl'}


def evaluate(d, prog):
    """Evaluate every unit output of a decoded definition `d` bottom-up.
    -> dict(problems=[(kind, detail)], outs=[(rate, [poly])],
            atoms={name: count}, lpf={name: input poly}, rates ok...)"""
    problems = []
    tags = {}
    for name in LEAF_ORDER:
        tags[tag_of(prog, name)] = name
    for k, st in enumerate(prog['stmts']):
        if st[0] == 'lpf':
            tags[tag_of(prog, f'F{k}')] = f'F{k}'
    ctl = {idx: nm for nm, idx in d['param_names']}
    consts = d['constants']
    vals = []     # per unit: list of polys (one per output)
    atoms = {}
    lpf = {}
    outs = []

    def inval(inp):
        if inp[0] == 'c':
            return poly.const(Fraction(consts[inp[1]])), 0
        _, u, o = inp
        return vals[u][o], d['units'][u]['outputs'][o]

    for i, u in enumerate(d['units']):
        name = u['name']
        ins = [inval(x) for x in u['inputs']]
        ps = [p for p, _ in ins]
        inrate = max([r for _, r in ins], default=0)
        if name in ARITH:
            if u['rate'] != inrate:
                problems.append((
                    'arith-rate-not-max-of-inputs',
                    f'unit {i} {name} special {u["special"]} has rate '
                    f'{u["rate"]}, inputs have rates '
                    f'{[r for _, r in ins]}'))
            if u['outputs'] != [u['rate']]:
                problems.append(('output-rate-inconsistent',
                                 f'unit {i} {name} outputs {u["outputs"]} '
                                 f'rate {u["rate"]}'))
        if name == 'BinaryOpUGen':
            if len(ps) != 2:
                problems.append(('bad-arity', f'unit {i} {name}'))
                vals.append([poly.atom(f'?{i}')])
                continue
            s = u['special']
            if s == server_ops.BIN['add']:
                v = poly.add(*ps)
            elif s == server_ops.BIN['sub']:
                v = poly.sub(*ps)
            elif s == server_ops.BIN['mul']:
                v = poly.mul(*ps)
            elif s == server_ops.BIN['fdiv']:
                v = poly.div(*ps)
            else:
                v = poly.app(f'bin{s}', *ps)
            vals.append([v])
        elif name == 'UnaryOpUGen':
            if len(ps) != 1:
                problems.append(('bad-arity', f'unit {i} {name}'))
                vals.append([poly.atom(f'?{i}')])
                continue
            s = u['special']
            vals.append([poly.neg(ps[0]) if s == server_ops.UN['neg']
                         else poly.app(f'un{s}', ps[0])])
        elif name == 'MulAdd':
            if len(ps) != 3:
                problems.append(('bad-arity', f'unit {i} {name}'))
                vals.append([poly.atom(f'?{i}')])
                continue
            vals.append([poly.add(poly.mul(ps[0], ps[1]), ps[2])])
        elif name in ('Sum3', 'Sum4'):
            if len(ps) != int(name[-1]):
                problems.append(('bad-arity', f'unit {i} {name}'))
            v = poly.ZERO
            for p in ps:
                v = poly.add(v, p)
            vals.append([v])
        elif name == 'DC':
            vals.append(list(ps))
        elif name in CONTROLS:
            row = []
            for o in range(len(u['outputs'])):
                slot = u['special'] + o
                nm = ctl.get(slot)
                leaf = {'p': 'P', 'i': 'I'}.get(nm)
                if leaf is None:
                    row.append(poly.atom(f'ctl{slot}'))
                else:
                    row.append(poly.atom(leaf))
                    atoms[leaf] = atoms.get(leaf, 0) + 1
                    want = LEAVES[leaf][1]
                    if u['outputs'][o] != want or u['rate'] != want:
                        problems.append((
                            'leaf-rate-changed',
                            f'control {nm} rate {u["rate"]}/'
                            f'{u["outputs"][o]}, created {want}'))
            vals.append(row)
        elif name in ('SinOsc', 'LFNoise0', 'Line', 'LPF'):
            tagpos = 1 if name == 'LPF' else 0
            tinp = u['inputs'][tagpos] if len(u['inputs']) > tagpos else None
            leaf = None
            if tinp is not None and tinp[0] == 'c':
                leaf = tags.get(consts[tinp[1]])
            if leaf is None:
                problems.append(('untagged-unit',
                                 f'unit {i} {name} inputs {u["inputs"]}'))
                vals.append([poly.atom(f'?{i}')])
                continue
            atoms[leaf] = atoms.get(leaf, 0) + 1
            if name == 'LPF':
                lpf[leaf] = ps[0]
                want_cls, want_rate = 'LPF', 2
            else:
                want_cls, want_rate, _ = LEAVES[leaf]
            if name != want_cls or u['rate'] != want_rate or \
                    u['outputs'] != [want_rate]:
                problems.append((
                    'leaf-rate-changed',
                    f'unit {i} {name} rate {u["rate"]} outputs '
                    f'{u["outputs"]}; created as {want_cls} rate '
                    f'{want_rate}'))
            vals.append([poly.atom(leaf)])
        elif name == 'Out':
            if u['outputs']:
                problems.append(('out-has-outputs', f'unit {i}'))
            outs.append((u['rate'], ps[0] if ps else None, ps[1:]))
            vals.append([])
        else:
            problems.append(('unexpected-unit', f'unit {i} {name}'))
            vals.append([poly.atom(f'?{i}.{o}')
                         for o in range(len(u['outputs']))])
    return {'problems': problems, 'outs': outs, 'atoms': atoms, 'lpf': lpf}


def compare(prog, ref, d):
    """All disagreements between the decoded definition and the reference
    meaning of the program: [(kind, expected, observed, detail)]."""
    dis = []
    bad = scgf.validate(d)
    if bad:
        dis.append(('scgf-integrity', [], bad[:4], ''))
        return dis
    ev = evaluate(d, prog)
    for kind, detail in ev['problems']:
        dis.append((kind, None, detail, ''))
    # output units: multiset of (rate, bus, channel polynomials)
    want = sorted((r, (0 if r == 2 else 1),
                   tuple(poly.show(p) for p in ps)) for r, ps in ref['outs'])
    got = []
    for r, bus, ps in ev['outs']:
        b = None
        if bus is not None and poly.is_const(bus):
            b = int(poly.const_value(bus))
        got.append((r, b, tuple(poly.show(p) for p in ps)))
    got.sort(key=repr)
    want.sort(key=repr)
    if got != want:
        dis.append(('output-units-differ', want, got,
                    'multiset of (rate, bus, channel normal forms)'))
    # stateful / tagged atoms
    for leaf in ref['leaves']:
        cls, rate, pure = LEAVES[leaf]
        n = ev['atoms'].get(leaf, 0)
        if leaf in ('P', 'I'):
            continue
        if n > 1:
            dis.append(('atom-duplicated', 1, n, leaf))
        if not pure and n == 0:
            dis.append(('stateful-unit-dropped', 1, 0, leaf))
    for leaf, n in ev['atoms'].items():
        if leaf in LEAVES and leaf not in ref['leaves'] and \
                leaf not in ('P', 'I'):
            dis.append(('atom-invented', 0, n, leaf))
        if leaf[0] == 'F' and n > 1:
            dis.append(('atom-duplicated', 1, n, leaf))
    for name, p in ev['lpf'].items():
        rp = ref['lpf'].get(name)
        if rp is None or poly.canon(rp) != poly.canon(p):
            dis.append(('filter-input-differs',
                        None if rp is None else poly.show(rp), poly.show(p),
                        name))
    return dis


# --------------------------------------------------------------------------
# Enumeration
# --------------------------------------------------------------------------

def statements(k, pool):
    """All statements at position k (values v0..v(k-1) available) over a pool
    description: dict(sig=[leaves], const=[numbers], tern=[...], sum=[...],
    sum4=[...], ops=[...]).  Canonical order, simplest first."""
    vals = [f'v{i}' for i in range(k)]
    sig = list(pool['sig']) + vals
    full = sig + list(pool['const'])
    ops = pool['ops']
    out = []
    for op in ('neg', 'abs'):
        if op in ops:
            for a in sig:
                out.append([op, a])
    for op in ('add', 'sub', 'mul', 'div'):
        if op in ops:
            for a in full:
                for b in full:
                    if is_const(a) and is_const(b):
                        continue
                    out.append([op, a, b])
    if 'min' in ops:
        for a in pool['sig']:
            for b in list(pool.get('minb', [])) + vals:
                out.append(['min', a, b])
    if 'lpf' in ops:
        for a in sig:
            out.append(['lpf', a])
    if 'madd' in ops:
        tern = list(pool['tern']) + vals
        for a in sig:
            for m in tern:
                for c in tern:
                    out.append(['madd', a, m, c])
    if 'sum3' in ops:
        s = list(pool['sum']) + vals
        for a in s:
            for b in s:
                for c in s:
                    if all(is_const(x) for x in (a, b, c)):
                        continue
                    out.append(['sum3', a, b, c])
    if 'sum4' in ops:
        s = list(pool['sum4']) + vals
        for a in s:
            for b in s:
                for c in s:
                    for e in s:
                        if all(is_const(x) for x in (a, b, c, e)):
                            continue
                        out.append(['sum4', a, b, c, e])
    return out
