"""E3: stateless, deviation-bounded exploration of schedules.

`run(prefix)` executes the driver once under the choice prefix (then default
choices) and returns (points, choices, result); points[i] = (kind, n_options,
preemptive).  A deviation is a non-default choice: at a 'sched' point where
the running thread is still enabled it costs one *preemption*; at a 'late'
point (a timed wait firing) it costs one *lateness*; choosing among threads
when the running thread is blocked is free.  Everything with at most
(max_pre, max_late) deviations is explored; executions always run to
completion."""


def cost_of(points, choices):
    pre = late = 0
    for (kind, n, pflag), c in zip(points, choices):
        if c != 0:
            if kind == 'late':
                late += 1
            elif pflag:
                pre += 1
    return pre, late


def explore(run, max_pre, max_late, on_result, max_exec=None, root=()):
    """Depth-first enumeration of all choice sequences within the bound.
    Returns dict(executions, capped)."""
    stack = [tuple(root)]
    n = 0
    capped = False
    while stack:
        if max_exec is not None and n >= max_exec:
            capped = True
            break
        prefix = stack.pop()
        points, choices, result = run(list(prefix))
        n += 1
        if on_result(choices, points, result) == 'stop':
            return {'executions': n, 'capped': True, 'left': len(stack),
                    'stopped': True}
        pre = late = 0
        before = []
        for (kind, k, pflag), c in zip(points, choices):
            before.append((pre, late))
            if c != 0:
                if kind == 'late':
                    late += 1
                elif pflag:
                    pre += 1
        for i in range(len(points) - 1, len(prefix) - 1, -1):
            kind, k, pflag = points[i]
            p, l = before[i]
            if kind == 'late':
                l += 1
            elif pflag:
                p += 1
            if p > max_pre or l > max_late:
                continue
            for alt in range(k - 1, 0, -1):
                stack.append(tuple(choices[:i]) + (alt,))
    return {'executions': n, 'capped': capped, 'left': len(stack)}
