"""E1: bounded-exhaustive enumeration of programs / inputs.

The check module owns the generator (a deterministic, canonical-order
enumeration of plain-data cases) and splits it into shard jobs; each shard is
executed in a worker by `module.<fname>(job)` which returns a standard result
dict built with `Acc`.  Shards must partition the space (no case in two
shards) so that per-shard distinct counts add up."""

from mc import core


class Acc:
    """Worker-side accumulator producing the standard result dict."""

    def __init__(self, max_samples=3, max_outcomes=5000):
        self.ev = 0
        self.nt = 0
        self.tr = 0
        self.out = set()
        self.samples = []
        self.best = {}
        self.nviol = 0
        self.max_samples = max_samples
        self.max_outcomes = max_outcomes
        self.extra = {}

    def case(self, case, nontrivial, outcome=None, steps=1):
        """Record one executed case. `outcome`: any JSON-able observable
        summary (hashed) used to count distinct observed outcomes."""
        self.ev += 1
        self.tr += steps
        if nontrivial:
            self.nt += 1
            if len(self.samples) < self.max_samples:
                self.samples.append(case)
        if outcome is not None and len(self.out) < self.max_outcomes:
            self.out.add(core.digest(outcome))

    def violation(self, kind, case, expected, observed, detail='', size=None,
                  standalone=None):
        self.nviol += 1
        v = {'kind': kind, 'case': case, 'expected': expected,
             'observed': observed, 'detail': detail,
             'size': size if size is not None else len(core.canon(case))}
        if standalone:
            v['standalone'] = standalone
        b = self.best.get(kind)
        if b is None or (v['size'], core.canon(case)) < \
                (b['size'], core.canon(b['case'])):
            self.best[kind] = v

    def count(self, key, n=1):
        self.extra[key] = self.extra.get(key, 0) + n

    def result(self):
        return {'ev': self.ev, 'st': self.ev, 'tr': self.tr, 'tv': self.ev,
                'nt': self.nt, 'out': sorted(self.out),
                'samples': self.samples, 'viol': list(self.best.values()),
                'nviol': self.nviol, 'extra': self.extra}


def run(ctx, modname, fname, jobs, mode='nrt', bound=None, extra_init=None,
        maxtasks=None):
    """Execute all shard jobs on the pool of `mode`, aggregate into ctx."""
    jobs = list(jobs)
    order = core.shard_order(len(jobs), ctx.seed)
    n = 0
    for res in ctx.map(mode, modname, fname, [jobs[i] for i in order],
                       extra_init=extra_init, maxtasks=maxtasks):
        ctx.violation_count += res.get('nviol', 0) - len(res.get('viol', ()))
        ctx.absorb(res, bound)
        n += 1
    return n


def budget(limit):
    """Deterministic step budget for one case: returns a context manager that
    raises StepBudgetExceeded after `limit` traced line events (so that
    non-termination is detected without wall-clock)."""
    return _Budget(limit)


class StepBudgetExceeded(BaseException):
    pass


class _Budget:
    def __init__(self, limit):
        self.limit = limit
        self.n = 0

    def _trace(self, frame, event, arg):
        self.n += 1
        if self.n > self.limit:
            raise StepBudgetExceeded(self.limit)
        return self._trace

    def __enter__(self):
        import sys
        self._old = sys.gettrace()
        sys.settrace(self._trace)
        return self

    def __exit__(self, *exc):
        import sys
        sys.settrace(self._old)
        return False
