"""E2: explicit-state breadth-first search over operation histories of real
objects.  A state *is* the history reaching it; `System(params)` creates fresh
real objects plus the boring reference model, `apply(op)` performs one step on
both and returns the disagreements, `key()` is the canonical deduplication key.

System protocol (worker side, check module):
    S = module.SYSTEMS[name](params)
    S.ops()      -> list of JSON-able operations enabled now (small finite menu)
    S.apply(op)  -> list of (kind, expected, observed, detail) disagreements
    S.key()      -> JSON-able canonical key (reference + relevant impl state)
    S.nontrivial() -> bool (history so far is non-trivial by the check's rule)
    S.outcome()  -> JSON-able observable summary of the last step (optional)
"""

import importlib

from mc import core


def _build(cls, params, hist):
    s = cls(params)
    for op in hist:
        s.apply(op)
    return s


def expand(job):
    """Worker: expand a batch of frontier histories by one operation."""
    mod = importlib.import_module(job['module'])
    cls = mod.SYSTEMS[job['system']]
    params = job['params']
    out = []
    viol = []
    tr = 0
    outcomes = set()
    for hist in job['hists']:
        s = _build(cls, params, hist)
        ops = s.ops()
        for op in ops:
            t = _build(cls, params, hist)
            h2 = hist + [op]
            try:
                dis = t.apply(op)
            except core.HarnessError:
                raise
            tr += 1
            for kind, exp, obs, detail in dis:
                viol.append({'kind': kind,
                             'case': {'system': job['system'],
                                      'params': params, 'history': h2},
                             'expected': exp, 'observed': obs,
                             'detail': detail, 'size': len(h2) * 1000 +
                             len(core.canon(h2))})
            k = core.digest(t.key())
            o = getattr(t, 'outcome', None)
            if o is not None:
                outcomes.add(core.digest(o()))
            # a state in which the oracle already disagreed is not expanded
            out.append((h2, k, bool(t.nontrivial()), not dis))
    # keep only the smallest violation per kind in this batch
    best = {}
    for v in viol:
        b = best.get(v['kind'])
        if b is None or (v['size'], core.canon(v['case'])) < \
                (b['size'], core.canon(b['case'])):
            best[v['kind']] = v
    return {'children': out, 'viol': list(best.values()), 'tr': tr,
            'nviol': len(viol), 'out': sorted(outcomes)}


def replay(job):
    """Re-run one history without the explorer (used by --replay)."""
    case = job['case']
    mod = importlib.import_module(job.get('module') or case['module'])
    cls = mod.SYSTEMS[case['system']]
    s = cls(case['params'])
    log = []
    hit = False
    for op in case['history']:
        dis = s.apply(op)
        log.append({'op': op, 'disagreements': [
            [k, repr(e), repr(o)] for k, e, o, _ in dis]})
        if any(k == job['kind'] for k, _, _, _ in dis):
            hit = True
    return {'violates': hit, 'log': log}


def run(ctx, module, system, params, depth, mode='nrt', batch=64,
        label=None, max_states=None):
    """Level-synchronous BFS from the empty history up to `depth` operations.
    Returns the number of distinct states found."""
    label = label or f'{system}:{core.canon(params)}'
    seen = set()
    root_key = '<root>'
    seen.add(root_key)
    frontier = [[]]
    states = 1
    per_level = []
    completed = 0
    for level in range(1, depth + 1):
        if not frontier:
            completed = depth  # space exhausted below the bound
            break
        order = core.shard_order(len(frontier), ctx.seed + level)
        frontier = [frontier[i] for i in order]
        jobs = [{'module': module, 'system': system, 'params': params,
                 'hists': frontier[i:i + batch]}
                for i in range(0, len(frontier), batch)]
        nxt = []
        ntr = 0
        for res in ctx.map(mode, 'mc.engines.histbfs', 'expand', jobs):
            ntr += res['tr']
            ctx.violation_count += res['nviol'] - len(res['viol'])
            for v in res['viol']:
                v['case']['module'] = module
                ctx.violation(v)
            for o in res['out']:
                ctx.outcomes.add(o)
            for h2, k, nt, ok in res['children']:
                if k in seen:
                    continue
                seen.add(k)
                states += 1
                if nt:
                    ctx.nontrivial += 1
                if ok:
                    nxt.append(h2)
                if len(ctx.samples) < 4 and nt and level >= min(depth, 3):
                    ctx.samples.append({'system': system, 'params': params,
                                        'history': h2})
        ctx.transitions += ntr
        ctx.evaluations += ntr
        ctx.traces += ntr
        per_level.append({'depth': level, 'frontier_in': len(frontier),
                          'transitions': ntr, 'new_states': len(nxt)})
        # canonical order keeps the first counterexample the shortest
        nxt.sort(key=lambda h: core.canon(h))
        frontier = nxt
        completed = level
        if max_states and states > max_states:
            ctx.caps.append(f'{label}: state cap {max_states} hit at depth '
                            f'{level}')
            break
        if ctx.out_of_time():
            ctx.caps.append(f'{label}: time cap hit after depth {level}')
            break
    ctx.states += states
    ctx.bounds[label] = {'depth_completed': completed, 'states': states,
                         'levels': per_level}
    return states
