"""RT-virtual mode: initialise the real-time side of sc3 (`sc3.init('rt')`) on
top of mc/vthreading.py by rebinding module globals only (DESIGN.md 2.2).

Per execution:
    ex = Execution(prefix)      # fresh scheduler state, fresh clock threads
    ... drive the library from the main VThread ...
    ex.finish()                 # stop clocks with the library's own methods
"""

import sys

from mc import vthreading as vt

_initialised = False
captured = []          # (virtual now, bytes, target) of every datagram sent


class _VTModule:
    """What sc3 modules see as `threading`."""
    Thread = vt.VThread
    Lock = staticmethod(vt.Lock)
    RLock = staticmethod(vt.RLock)
    Condition = vt.VCondition
    Event = vt.VEvent
    current_thread = staticmethod(vt.current_thread)
    main_thread = staticmethod(vt.main_thread)
    get_ident = staticmethod(vt.get_ident)


def init_rt_virtual():
    global _initialised
    if _initialised:
        return
    import sc3
    import sc3.base.main as m
    import sc3.base.clock as clk
    import sc3.base._oscinterface as osci
    import sc3.base._midiinterface as mii
    import sc3.base._taskq as tsq

    vt.SCHED.reset(vt.Chooser())
    clk.threading = _VTModule
    m.threading = _VTModule
    m.time = vt.VTime
    osci.threading = _VTModule

    class CaptureInterface(osci.OscInterface):
        """No socket: outgoing datagrams are recorded with the virtual
        instant at which they were handed to the wire."""

        def __init__(self, port, port_range=1):
            super().__init__(port, port_range)
            self._proto = 'udp'
            self._running = False

        def start(self):
            self._running = True

        def stop(self):
            self._running = False

        def running(self):
            return self._running

        def _send(self, msg, target):
            captured.append((vt.SCHED.now, bytes(msg.dgram), target))

    class StubMidi:
        def start(self):
            pass

        def stop(self):
            pass

    osci.OscUdpInterface = CaptureInterface
    mii.MidiRtInterface = StubMidi

    # monitored task queue: records accesses made without the main lock
    base = tsq.TaskQueue

    class MonTaskQueue(base):
        _monitored = False

        def _mon(self, what):
            if self._monitored and not vt.SCHED.aborting:
                lock = m.RtMain._main_lock
                if not lock._is_owned():
                    lockfree.append((what, vt.SCHED.current.name))

        def add(self, prio, task):
            self._mon('add')
            if on_add is not None and self._monitored:
                on_add(self, prio, task)
            return base.add(self, prio, task)

        def remove(self, task):
            self._mon('remove')
            return base.remove(self, task)

        def pop(self):
            self._mon('pop')
            return base.pop(self)

        def peek(self, smallest=True):
            self._mon('peek')
            return base.peek(self, smallest)

        def clear(self):
            self._mon('clear')
            return base.clear(self)

    tsq.TaskQueue = MonTaskQueue

    _check_mirror(clk)
    m.RtMain._main_lock = vt.RLock()
    m.RtMain._def_build_lock = vt.Lock()
    sc3.init('rt', verbosity='CRITICAL', blocking=True)
    assert m.main is m.RtMain
    # library init started SystemClock/AppClock threads on the bootstrap
    # scheduler; let them park, then stop them: every execution re-creates
    # them from scratch.
    _settle()
    _stop_clocks()
    vt.SCHED.teardown()
    _initialised = True


def _check_mirror(clk):
    """_start_clocks() below mirrors the library's clock init functions.  If
    the library starts to initialise other attributes there, the mirror is out
    of date: fail loudly (harness error) instead of exploring a half
    initialised clock."""
    import inspect
    import re
    want = {
        clk.MetaSystemClock: {'_task_queue', '_sched_cond', '_thread',
                              '_pure_nrt', '_elapsed_osc_offset'},
        clk.MetaAppClock: {'_sched_lock', '_tick_cond', '_scheduler',
                           '_thread', '_pure_nrt'},
    }
    for meta, names in want.items():
        src = inspect.getsource(meta.__init__)
        got = set(re.findall(r'cls\.(\w+)\s*=[^=]', src))
        if got != names:
            raise RuntimeError(
                f'mc/seams.py mirror of {meta.__name__}.init_func is out of '
                f'date: library assigns {sorted(got)}, mirror knows '
                f'{sorted(names)}')


lockfree = []          # (operation, thread) queue accesses without main lock
on_add = None          # callable(queue, prio, task) for monitored queues


def _settle():
    """Run (default choices only) until every other thread is parked."""
    vt.SCHED.idle()


def _stop_clocks():
    import sc3.base.clock as clk
    import sc3.base.main as m
    for tc in list(clk.TempoClock._all):
        if getattr(tc, '_thread', None) is not None:
            try:
                m.RtMain._atexitq.remove(tc._stop)
            except Exception:
                pass
            tc._stop()
    if getattr(clk.AppClock, '_run_sched', False):
        clk.AppClock._stop()
    if getattr(clk.SystemClock, '_run_sched', False):
        clk.SystemClock._sched_stop()


def _start_clocks():
    """Mirror of MetaSystemClock/MetaAppClock init_func (sc3/base/clock.py):
    fresh queue, condition and thread, exactly as library start-up does."""
    import sc3.base.clock as clk
    import sc3.base.main as m
    import sc3.base._taskq as tsq
    sc = clk.SystemClock
    sc._task_queue = tsq.TaskQueue()
    sc._task_queue._monitored = True
    sc._sched_cond = _VTModule.Condition(m.RtMain._main_lock)
    sc._thread = _VTModule.Thread(target=sc._run, name=sc.__name__,
                                  daemon=True)
    sc._thread.start()
    sc._sched_init()
    ac = clk.AppClock
    ac._sched_lock = m.RtMain._main_lock
    ac._tick_cond = _VTModule.Condition()
    if hasattr(ac, '_tick_pending'):
        ac._tick_pending = False
    ac._scheduler = clk.Scheduler(ac, drift=True, recursive=False)
    ac._scheduler.queue._monitored = True
    ac._thread = _VTModule.Thread(target=ac._run, name=ac.__name__,
                                  daemon=True)
    ac._thread.start()


class Execution:
    """One execution of a driver under a fixed choice prefix."""

    def __init__(self, prefix=(), lateness_menu=None, step_budget=20000,
                 start_clocks=True, tempo_clocks=None):
        import sc3.base.main as m
        S = vt.SCHED
        self.chooser = vt.Chooser(())      # set-up phase: default choices
        S.reset(self.chooser, step_budget, lateness_menu=[0.0])
        del captured[:]
        del lockfree[:]
        rt = m.RtMain
        for lk in (rt._main_lock, rt._def_build_lock):
            lk._owner = None
            lk._count = 0
        rt._wait_cond = _VTModule.Condition(rt._main_lock)
        rt._wait_count = 0
        rt._in_awake_call = False
        rt._current_synthdef = None
        rt._init_time = vt.T0
        rt.current_tt = rt.main_tt
        rt.main_tt._m_seconds = 0.0
        self.tempo_clocks = {}
        if start_clocks:
            _start_clocks()
            _settle()
            for cid, tempo in (tempo_clocks or {}).items():
                self.tempo_clocks[cid] = self.new_tempo_clock(tempo)
                self.tempo_clocks[cid]._thread.name = f'TempoClock-{cid}'
                _settle()
        # exploration starts here
        self.chooser = vt.Chooser(prefix)
        S.chooser = self.chooser
        if lateness_menu is not None:
            S.lateness_menu = lateness_menu
        else:
            S.lateness_menu = vt.LATENESS_MENU
        self.S = S

    def new_tempo_clock(self, *a, **kw):
        import sc3.base.clock as clk
        tc = clk.TempoClock(*a, **kw)
        tc._task_queue._monitored = True
        return tc

    def finish(self):
        """Stop everything through the library's own stop methods, with the
        chooser frozen to default choices; returns problems seen."""
        S = self.S
        problems = []
        S.chooser = vt.Chooser(())
        S.lateness_menu = [0.0]
        try:
            _stop_clocks()
        except vt.Deadlock as e:
            problems.append(('deadlock-at-stop', str(e)))
        except Exception as e:
            problems.append(('stop-raises', repr(e)))
        S.teardown()
        return problems
