"""Known findings: /verif/known_findings.json is read, never written.

An entry: {property, id, status: open|fixed, commit?, where, what_fails,
match: {kind: <violation kind>, pred?: <predicate name>, params?: {...}}}.
Only `open` entries suppress; the predicate looks at the failing case, so a
different violation of the same property is still reported."""
import os
import re
import json

from mc import core

PATH = os.path.join(core.VERIF, 'known_findings.json')


def load(prop):
    out = []
    paths = [PATH, os.path.join(core.VERIF, 'known_findings.d',
                                prop + '.json')]
    for p in paths:
        if os.path.exists(p):
            doc = json.load(open(p))
            out += [e for e in doc.get('findings', [])
                    if e['property'] == prop]
    return out


def match(v, entries, module=None):
    preds = dict(PREDICATES)
    preds.update(getattr(module, 'PREDICATES', {}))
    for e in entries:
        if e.get('status') != 'open':
            continue
        m = e['match']
        if 'kind' in m and m['kind'] != v['kind']:
            continue
        if 'kind_re' in m and not re.fullmatch(m['kind_re'], v['kind']):
            continue
        pred = m.get('pred')
        if pred and not preds[pred](v, **m.get('params', {})):
            continue
        return e
    return None


PREDICATES = {}


def predicate(f):
    PREDICATES[f.__name__] = f
    return f
