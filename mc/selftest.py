"""Oracle self-tests (spec examples); run by setup.sh."""
import importlib
import pkgutil
import sys

import mc.oracles


def main():
    n = 0
    for m in pkgutil.iter_modules(mc.oracles.__path__):
        mod = importlib.import_module('mc.oracles.' + m.name)
        st = getattr(mod, 'selftest', None)
        if st:
            st()
            n += 1
            print('selftest ok:', m.name)
    print(f'{n} oracle self-tests passed')


if __name__ == '__main__':
    sys.exit(main())
