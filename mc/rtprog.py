"""Interpreter of small *clock programs* (plain data) against the real library,
in RT-virtual mode (under mc/seams.py + mc/vthreading.py) or in NRT mode.
Shared by C05, C07, C08, C10, C11.

program = {
  'clocks':   {'s': ['system'], 'a': ['app'], 't': ['tempo', 2.0]},
  'routines': {'r0': [stmt, ...]},
  'funcs':    {'f0': {'returns': [0.5, None], 'raises': [1], 'kind': 'func'|'awakeable'}},
  'conds':    ['c0'],
  'actors':   {'main': [op, ...], 'X': [op, ...]},
  'horizon':  6.0,
}
routine stmts: ['yield', d] ['yieldv', value] ['log'] ['send', latency, tag]
  ['sendb', latency, inner_latency, tag] ['play', rid, cid|None] ['pause', rid]
  ['resume', rid] ['stop', rid] ['tempo', cid, v] ['beats', cid, v]
  ['wait', cond] ['set', cond, bool] ['signal', cond] ['unhang', cond]
  ['rand', kind] ['seed', n] ['sched', cid, delta, fid] ['raise']
actor ops:   ['play', rid, cid] ['sched', cid, delta, fid]
  ['sched_abs', cid, t, fid] ['clear', cid] ['sleep', dt] ['tempo', cid, v]
  ['beats', cid, v] ['send', latency, tag] ['stopclock', cid]
  + every routine stmt that makes sense outside a routine.

The trace is a list of JSON-able events; see `Run.ev`."""

TARGET = ('127.0.0.1', 57110)


class _Dur(float):
    pass


class _Count(int):
    pass


class Run:
    def __init__(self, prog, mode, ex=None):
        self.prog = prog
        self.mode = mode          # 'rt' | 'nrt'
        self.ex = ex
        self.trace = []
        self.clocks = {}
        self.routines = {}
        self.funcs = {}
        self.conds = {}
        self.names = {}           # id(task object) -> name
        self.calls = {}
        self.addseq = 0

    # ---- events -----------------------------------------------------------
    def now(self):
        if self.mode == 'rt':
            from mc import vthreading as vt
            return vt.SCHED.now
        return None

    def late(self):
        if self.mode == 'rt':
            from mc import vthreading as vt
            return vt.SCHED.late_total
        return 0.0

    def ev(self, *e):
        self.trace.append(list(e))

    # ---- object construction ------------------------------------------------
    def on_recv(self, msg, time, addr, port):
        from sc3.base.main import main
        self.ev('recv', [x if isinstance(x, (int, float, str)) else repr(x)
                         for x in msg], time, self.now(),
                main.current_tt._seconds, [addr.hostname, addr.port], port)

    def setup(self):
        from sc3.base.stream import Routine, Condition
        from sc3.base import clock as clk
        if self.mode == 'rt' and self.prog.get('recv'):
            from sc3.base.main import main
            main.add_osc_recv_func(self.on_recv)
        for cid, spec in self.prog.get('clocks', {}).items():
            if spec[0] == 'system':
                self.clocks[cid] = clk.SystemClock
            elif spec[0] == 'app':
                self.clocks[cid] = clk.AppClock
            elif spec[0] == 'tempo':
                if self.mode == 'rt':
                    self.clocks[cid] = self.ex.tempo_clocks[cid]
                else:
                    self.clocks[cid] = clk.TempoClock(spec[1])
        for name in self.prog.get('conds', []):
            self.conds[name] = Condition()
        for rid, stmts in self.prog.get('routines', {}).items():
            r = Routine(self._body(rid, stmts))
            self.routines[rid] = r
            self.names[id(r)] = rid
        for fid, spec in self.prog.get('funcs', {}).items():
            f = self._func(fid, spec)
            self.funcs[fid] = f
            self.names[id(f)] = fid

    def clockname(self, clock):
        for cid, c in self.clocks.items():
            if c is clock:
                return cid
        return repr(clock)

    def _func(self, fid, spec):
        run = self
        returns = spec.get('returns', [None])
        raises = set(spec.get('raises', []))

        def call(clock):
            k = run.calls.get(fid, 0)
            run.calls[fid] = k + 1
            run.ev('wake', fid, k, run.now(), clock.seconds, clock.beats,
                   run.late(), run.clockname(clock))
            if k in raises:
                raise ValueError(f'task {fid} call {k}')
            r = returns[k] if k < len(returns) else None
            if spec.get('numtype') and isinstance(r, (int, float)):
                # numeric values that are instances of float / int subclasses
                # (numpy scalars, IntEnum members ...) are numbers too
                r = (_Dur(r) if isinstance(r, float) else _Count(r))
            return r

        if spec.get('kind') == 'awakeable':
            class Awakeable:
                def __awake__(self, clock):
                    return call(clock)
            return Awakeable()

        def f(_, clock):
            return call(clock)
        f.__qualname__ = fid
        return f

    def _body(self, rid, stmts):
        run = self

        def body(inval):
            clock = inval[1] if isinstance(inval, tuple) else None
            k = 0

            def res():
                nonlocal k
                if clock is not None:
                    run.ev('res', rid, k, run.now(), clock.seconds,
                           clock.beats, run.late(), run.clockname(clock))
                else:
                    from sc3.base.main import main
                    run.ev('res', rid, k, run.now(),
                           main.current_tt._seconds, None, run.late(), None)
                k += 1
            res()
            for st in stmts:
                op = st[0]
                if op == 'yield':
                    back = yield st[1]
                    if isinstance(back, tuple):
                        clock = back[1]
                    res()
                elif op == 'yieldv':
                    yield st[1]
                    res()
                elif op == 'wait':
                    yield from run.conds[st[1]].wait()
                    res()
                elif op == 'raise':
                    raise ValueError(f'routine {rid}')
                else:
                    run.do(st, rid, clock)
        body.__qualname__ = rid
        return body

    # ---- statements / operations -------------------------------------------
    def do(self, st, who, clock=None):
        from sc3.base.main import main
        from sc3.base.netaddr import NetAddr
        from sc3.base import builtins as bi
        op = st[0]
        try:
            if op == 'log':
                c = clock
                self.ev('log', who, self.now(), main.current_tt._seconds,
                        None if c is None else c.beats)
            elif op == 'send':
                self.ev('send', who, 'bundle', st[2], self.now(),
                        main.current_tt._seconds)
                self._addr().send_bundle(st[1], ['/t', st[2]])
            elif op == 'sendm':
                self.ev('send', who, 'msg', st[1], self.now(),
                        main.current_tt._seconds)
                self._addr().send_msg('/t', st[1])
            elif op == 'sendb':
                self.ev('send', who, 'nested', st[3], self.now(),
                        main.current_tt._seconds)
                self._addr().send_bundle(
                    st[1], ['/t', st[3]], [st[2], ['/u', st[3]]])
            elif op == 'sendbo':
                # nested bundle kept in ONE list object by the program and
                # sent again and again (the library must not alter it)
                self.ev('send', who, 'nested', st[3], self.now(),
                        main.current_tt._seconds)
                if not hasattr(self, 'shared_nested'):
                    self.shared_nested = [st[2], ['/u', 99]]
                self._addr().send_bundle(st[1], ['/t', st[3]],
                                         self.shared_nested)
                if self.shared_nested != [st[2], ['/u', 99]]:
                    self.ev('raises', who, st, 'ProgramDataAltered',
                            repr(self.shared_nested))
            elif op == 'play':
                c = self.clocks[st[2]] if len(st) > 2 and st[2] else None
                q = st[3] if len(st) > 3 else None
                self.routines[st[1]].play(c, q)
            elif op == 'spawn':
                # create the routine here (inside the caller, so that it
                # inherits the caller's random generator) and play it
                from sc3.base.stream import Routine
                r = Routine(self._body(st[1], self.prog['spawned'][st[1]]))
                self.routines[st[1]] = r
                self.names[id(r)] = st[1]
                c = self.clocks[st[2]] if len(st) > 2 and st[2] else None
                r.play(c, 0)
            elif op == 'pause':
                self.routines[st[1]].pause()
            elif op == 'resume':
                if len(st) > 2:
                    self.routines[st[1]].resume(
                        self.clocks[st[2]], st[3] if len(st) > 3 else None)
                else:
                    self.routines[st[1]].resume()
            elif op == 'stop':
                self.routines[st[1]].stop()
            elif op == 'reset':
                self.routines[st[1]].reset()
            elif op == 'next':
                v = self.routines[st[1]].next()
                self.ev('next', who, st[1], v if isinstance(
                    v, (int, float, str, type(None))) else repr(v))
            elif op in ('tempo', 'beats'):
                # logical instant of the change: a routine's own time, the
                # physical present for calls from plain threads
                if who in self.routines:
                    lt = main.current_tt._m_seconds
                else:
                    lt = self.now()
                self.ev('tempo-set', who, op, st[1], st[2], self.now(), lt)
                if op == 'tempo':
                    self.clocks[st[1]].tempo = st[2]
                else:
                    self.clocks[st[1]].beats = st[2]
            elif op == 'set':
                self.conds[st[1]].test = st[2]
            elif op == 'signal':
                self.conds[st[1]].signal()
            elif op == 'unhang':
                self.conds[st[1]].unhang()
            elif op == 'rand':
                kind = st[1]
                if kind == 'rrand':
                    v = bi.rrand(0, 1000)
                elif kind == 'choice':
                    v = bi.choice([1, 2, 3, 4, 5, 6, 7, 8])
                else:
                    v = bi.rand(1000)
                self.ev('rand', who, v)
            elif op == 'seed':
                main.current_tt.rand_seed = st[1]
            elif op == 'sched':
                t0 = self.now()
                self.ev('sched-call', who, st[1], st[2], st[3], t0)
                self.clocks[st[1]].sched(
                    st[2], self.funcs[st[3]] if st[3] in self.funcs
                    else self.routines[st[3]])
                self.ev('sched-ret', who, st[1], st[3], self.now())
            elif op == 'sched_abs':
                self.ev('sched-call', who, st[1], ['abs', st[2]], st[3],
                        self.now())
                self.clocks[st[1]].sched_abs(st[2], self.funcs[st[3]])
                self.ev('sched-ret', who, st[1], st[3], self.now())
            elif op == 'clear':
                self.ev('clear-begin', who, st[1], self.now())
                self.clocks[st[1]].clear()
                self.ev('clear-end', who, st[1], self.now())
            elif op == 'stopclock':
                self.ev('stop-begin', who, st[1], self.now())
                c = self.clocks[st[1]]
                from sc3.base import clock as clk
                if c is clk.SystemClock:
                    c._sched_stop()
                else:
                    c._stop()
                self.ev('stop-end', who, st[1], self.now())
            elif op in ('sleep', 'block'):
                # 'block' inside a routine body = the body takes physical
                # time (system load) while logical time stands still
                if self.mode == 'rt':
                    from mc import vthreading as vt
                    vt.SCHED.sleep(st[1], exact=True)
            elif op == 'deliver':
                data = bytes.fromhex(st[1])
                main._osc_interface._handle_request(data, ('127.0.0.1', st[2]))
            else:
                raise ValueError(f'unknown op {st}')
        except Exception as e:
            if type(e).__name__ in ('Abort',):
                raise
            self.ev('raises', who, st, type(e).__name__, str(e)[:200])
            if who in self.routines:
                raise

    def _addr(self):
        from sc3.base.netaddr import NetAddr
        return NetAddr(*TARGET)


def _install_add_hook(run):
    """Record every insertion into a monitored clock queue (truth about
    scheduling order, including re-schedules made by the clock threads)."""
    from mc import seams

    def on_add(q, prio, task):
        name = run.names.get(id(task))
        if name is None:
            f = getattr(task, 'func', None)
            name = run.names.get(id(f), repr(task))
        run.ev('add', getattr(q, '_qname', '?'), prio, name, run.addseq,
               run.now())
        run.addseq += 1
    seams.on_add = on_add


def run_rt(prog, prefix, lateness_menu=None, step_budget=4000):
    """One RT-virtual execution. -> (points, choices, result dict)"""
    from mc import seams, vthreading as vt
    tempos = {cid: spec[1] for cid, spec in prog.get('clocks', {}).items()
              if spec[0] == 'tempo'}
    ex = seams.Execution(prefix, lateness_menu=lateness_menu,
                         step_budget=step_budget, tempo_clocks=tempos)
    run = Run(prog, 'rt', ex)
    _install_add_hook(run)
    import sc3.base.clock as clk
    clk.SystemClock._task_queue._qname = 'system'
    clk.AppClock._scheduler.queue._qname = 'app'
    for cid, tc in ex.tempo_clocks.items():
        tc._task_queue._qname = cid
    S = vt.SCHED
    status = 'ok'
    detail = ''
    try:
        run.setup()
        threads = []
        for actor, ops in prog.get('actors', {}).items():
            if actor == 'main':
                continue

            def target(actor=actor, ops=ops):
                for op in ops:
                    run.do(op, actor)
            t = seams._VTModule.Thread(target=target, name=actor, daemon=True)
            threads.append(t)
        for t in threads:
            t.start()
        for op in prog.get('actors', {}).get('main', []):
            run.do(op, 'main')
        S.sleep(max(prog.get('horizon', 4.0) - S.now, 0.0), exact=True)
        run.ev('horizon', S.now)
        alive = {}
        alive['system'] = clk.SystemClock._thread.is_alive()
        alive['app'] = clk.AppClock._thread.is_alive()
        for cid, tc in ex.tempo_clocks.items():
            alive[cid] = tc._thread is not None and tc._thread.is_alive()
        pending = {}
        pending['system'] = _qlist(run, clk.SystemClock._task_queue)
        pending['app'] = _qlist(run, clk.AppClock._scheduler.queue)
        for cid, tc in ex.tempo_clocks.items():
            pending[cid] = _qlist(run, tc._task_queue)
    except vt.Deadlock as e:
        status, detail = 'deadlock', str(e)
        alive, pending = {}, {}
    except vt.Livelock as e:
        status, detail = 'livelock', str(e)
        alive, pending = {}, {}
    except vt.ReplayDivergence as e:
        # the same choice prefix met different choice points: the execution
        # depends on something besides the program and the schedule
        status, detail = 'execution-not-a-function-of-schedule', str(e)
        alive, pending = {}, {}
    finally:
        seams.on_add = None
        if prog.get('recv'):
            from sc3.base.main import main
            main.remove_osc_recv_func(run.on_recv)
    problems = ex.finish() if status == 'ok' else _force_finish(ex)
    result = {
        'status': status, 'detail': detail, 'trace': run.trace,
        'sent': [[t, d.hex()] for t, d, _ in seams.captured],
        'lockfree': [list(x) for x in seams.lockfree],
        'dead': [list(x) for x in S.dead], 'alive': alive,
        'pending': pending, 'finish_problems': problems,
        'late_total': S.late_total, 'steps': S.steps,
        'fingerprints': len(S.fingerprints),
    }
    return ex.chooser.points, ex.chooser.choices, result


def _qlist(run, q):
    out = []
    for prio, task in q:
        name = run.names.get(id(task))
        if name is None:
            name = run.names.get(id(getattr(task, 'func', None)), repr(task))
        out.append([prio, name])
    return out


def _force_finish(ex):
    from mc import vthreading as vt
    vt.SCHED.deadlock = None
    vt.SCHED.livelock = None
    try:
        vt.SCHED.teardown()
    except Exception as e:
        return [('teardown', repr(e))]
    return []


def run_nrt(prog, tail=0.0):
    """The same program in NRT mode (only the 'main' actor). -> result dict"""
    from sc3.base.main import main
    main.reset()
    run = Run(prog, 'nrt')
    run.setup()
    for op in prog.get('actors', {}).get('main', []):
        if op[0] == 'sleep':
            continue
        run.do(op, 'main')
    score = main.process(tail)
    lst = score.list
    return {'status': 'ok', 'trace': run.trace,
            'score': [_plain(b) for b in lst],
            'raw': bytes(score.raw).hex(),
            'elapsed': main.elapsed_time()}


def _plain(x):
    if isinstance(x, (list, tuple)):
        return [_plain(i) for i in x]
    if isinstance(x, (bytes, bytearray, memoryview)):
        return {'bytes': bytes(x).hex()}
    return x
