"""Runner core: worker pools, result aggregation, violations, known findings,
evidence.  The parent process never initialises sc3; workers do (one mode per
process, see DESIGN.md 2.3)."""

import os
import sys
import json
import time
import hashlib
import subprocess
import multiprocessing as mp
import traceback

VERIF = os.path.dirname(os.path.dirname(os.path.abspath(__file__)))
REPO = os.environ.get('SC3_REPO', '/repo')
NWORKERS = int(os.environ.get('VERIF_WORKERS', '16'))
EVIDENCE_SCHEMA = '/root/.vp/EVIDENCE.schema.json'

_worker_mode = None


def canon(obj):
    """Canonical JSON text of a plain-data object."""
    return json.dumps(obj, sort_keys=True, separators=(',', ':'), default=repr)


def digest(obj):
    return hashlib.sha1(canon(obj).encode()).hexdigest()[:16]


def _worker_init(mode, repo, extra_init):
    """Runs in every pool process before any job."""
    global _worker_mode
    _worker_mode = mode
    import faulthandler
    faulthandler.enable()
    if repo not in sys.path:
        sys.path.insert(0, repo)
    if mode == 'nrt':
        import sc3
        sc3.init('nrt', verbosity='CRITICAL')
    elif mode == 'rt':
        from mc import seams
        seams.init_rt_virtual()
    elif mode == 'import':
        import sc3  # noqa: F401  (library importable, not initialised)
    elif mode is None:
        pass
    else:
        raise ValueError(mode)
    import sc3 as _sc3
    assert os.path.realpath(_sc3.__file__).startswith(
        os.path.realpath(repo)), (_sc3.__file__, repo)
    if extra_init:
        modname, fname = extra_init
        import importlib
        getattr(importlib.import_module(modname), fname)()


def _call(args):
    """Pool entry point: (module, function, job) -> result dict."""
    modname, fname, job = args
    import importlib
    try:
        mod = importlib.import_module(modname)
        return getattr(mod, fname)(job)
    except BaseException as e:  # harness error inside a worker
        return {'harness_error': ''.join(
            traceback.format_exception(type(e), e, e.__traceback__))[-4000:],
            'job': job if len(repr(job)) < 2000 else repr(job)[:2000]}


class HarnessError(Exception):
    pass


class Ctx:
    def __init__(self, prop, tier, seed):
        self.prop = prop
        self.tier = tier
        self.seed = seed
        self.t0 = time.time()
        self.evaluations = 0
        self.states = 0
        self.transitions = 0
        self.traces = 0
        self.nontrivial = 0
        self.outcomes = set()
        self.samples = []
        self.violations = {}      # kind -> smallest violation
        self.alternatives = {}    # kind -> a few other cases of the kind
        self.violation_count = 0
        self.extra = {}           # additional coverage keys
        self.bounds = {}          # per-bound breakdown
        self.assumptions = []
        self.caps = []
        self.rule = ''
        self.exhaustive = True
        self._pools = {}
        self.deadline = None

    # ---- pools -----------------------------------------------------------
    def pool(self, mode, extra_init=None, hashseed='0', maxtasks=None):
        key = (mode, extra_init, hashseed, maxtasks)
        if key not in self._pools:
            os.environ['PYTHONHASHSEED'] = hashseed
            os.environ.setdefault('PYTHONDONTWRITEBYTECODE', '1')
            ctx = mp.get_context('spawn')
            self._pools[key] = ctx.Pool(
                NWORKERS, _worker_init, (mode, REPO, extra_init),
                maxtasksperchild=maxtasks)
        return self._pools[key]

    def map(self, mode, modname, fname, jobs, extra_init=None, ordered=False,
            chunksize=1, maxtasks=None):
        p = self.pool(mode, extra_init, maxtasks=maxtasks)
        args = [(modname, fname, j) for j in jobs]
        it = p.imap(_call, args, chunksize) if ordered \
            else p.imap_unordered(_call, args, chunksize)
        for res in it:
            if isinstance(res, dict) and 'harness_error' in res:
                raise HarnessError(res['harness_error'] + '\njob: ' +
                                   str(res.get('job')))
            yield res

    def close(self):
        for p in self._pools.values():
            p.terminate()
            p.join()
        self._pools = {}

    # ---- aggregation -----------------------------------------------------
    def absorb(self, res, bound=None):
        """Merge a standard result dict produced by a worker shard."""
        self.evaluations += res.get('ev', 0)
        self.states += res.get('st', 0)
        self.transitions += res.get('tr', 0)
        self.traces += res.get('tv', 0)
        self.nontrivial += res.get('nt', 0)
        for o in res.get('out', ()):
            if len(self.outcomes) < 200000:
                self.outcomes.add(o)
        for s in res.get('samples', ()):
            if len(self.samples) < 12:
                self.samples.append(s)
        for v in res.get('viol', ()):
            self.violation(v)
        if bound is not None:
            b = self.bounds.setdefault(str(bound), {'evaluations': 0})
            b['evaluations'] += res.get('ev', 0)
        for k, v in res.get('extra', {}).items():
            if isinstance(v, (int, float)):
                self.extra[k] = self.extra.get(k, 0) + v
            elif isinstance(v, list):
                cur = self.extra.setdefault(k, [])
                for x in v:
                    if x not in cur and len(cur) < 400:
                        cur.append(x)

    def violation(self, v):
        """v: dict(kind, case, expected, observed, detail?, size?)"""
        self.violation_count += 1
        kind = v['kind']
        size = v.get('size', len(canon(v['case'])))
        v['size'] = size
        cur = self.violations.get(kind)
        if cur is None or (size, canon(v['case'])) < \
                (cur['size'], canon(cur['case'])):
            self.violations[kind] = v
            if cur is not None:
                v = cur
            else:
                return
        # other cases of the kind (a few small and the largest ones) are kept
        # as fall-backs: if the smallest does not reproduce in a fresh process
        # (it needed state left by an earlier case) a larger, self-contained
        # one may
        alt = self.alternatives.setdefault(kind, [])
        if all(canon(a['case']) != canon(v['case']) for a in alt):
            alt.append(v)
            alt.sort(key=lambda a: (a['size'], canon(a['case'])))
            if len(alt) > 6:
                del alt[3:-3]

    def out_of_time(self):
        return self.deadline is not None and time.time() > self.deadline

    # ---- finishing -------------------------------------------------------
    def finish(self, module):
        from mc import known
        entries = known.load(self.prop)
        reported = []
        known_hits = []
        unconfirmed = []
        self.close()
        for kind in sorted(self.violations):
            v = self.violations[kind]
            v['property'] = self.prop
            entry = known.match(v, entries, module)
            conf = confirm(module, v)
            if conf in ('diverged', 'gone'):
                for alt in self.alternatives.get(kind, []):
                    alt['property'] = self.prop
                    if confirm(module, alt) == 'ok':
                        v, conf = alt, 'ok'
                        entry = known.match(v, entries, module)
                        break
            if conf in ('diverged', 'gone'):
                # never reported as a VIOLATION; the run ends with exit 2
                # unless another kind of this run is confirmed
                unconfirmed.append((kind, 'replay is not deterministic'
                                    if conf == 'diverged' else
                                    'violation does not reproduce in a '
                                    'fresh worker'))
                continue
            path = write_replay(self.prop, v)
            if entry is not None:
                known_hits.append((entry, v, path))
            else:
                reported.append((v, path))
        seen_entries = set()
        for entry, v, path in known_hits:
            if entry['id'] in seen_entries:
                continue
            seen_entries.add(entry['id'])
            print(f"KNOWN-FINDING: property={self.prop} {entry['what_fails']}"
                  f" [{entry['id']}; replay={path}]", flush=True)
        for entry in entries:
            if entry.get('status') == 'open' and \
                    entry['id'] not in seen_entries and \
                    entry.get('tiers', [self.tier]).count(self.tier):
                print(f"NOTE stale-finding property={self.prop} "
                      f"{entry['id']} did not reproduce in this run",
                      flush=True)
        if unconfirmed and not reported:
            for kind, why in unconfirmed:
                print(f'HARNESS-ERROR property={self.prop} kind={kind}: {why}',
                      flush=True)
            self.write_evidence(error='unconfirmed violation: ' +
                                unconfirmed[0][1])
            return 2
        for kind, why in unconfirmed:
            print(f'NOTE unconfirmed property={self.prop} kind={kind}: {why} '
                  f'(not reported; other kinds of this run are confirmed)',
                  flush=True)
        for v, path in reported:
            print(f'VIOLATION property={self.prop} replay={path}', flush=True)
            print(f"  kind={v['kind']}\n  case={canon(v['case'])[:600]}\n"
                  f"  expected={str(v.get('expected'))[:400]}\n"
                  f"  observed={str(v.get('observed'))[:400]}\n"
                  f"  {str(v.get('detail', ''))[:600]}", flush=True)
        self.extra['known_findings_reproduced'] = sorted(seen_entries)
        self.write_evidence(nviol=len(reported))
        return 1 if reported else 0

    def write_evidence(self, nviol=0, error=None):
        cov = {
            'states': self.states,
            'transitions': self.transitions,
            'traces_validated_against_impl': self.traces,
            'evaluations': self.evaluations,
            'distinct_nontrivial': self.nontrivial,
            'rule': self.rule,
            'samples': self.samples[:12],
            'exhaustive': bool(self.exhaustive and not self.caps),
            'distinct_observed_outcomes': len(self.outcomes),
            'bounds': self.bounds,
            'caps_hit': self.caps,
            'violation_instances_seen': self.violation_count,
            'exhaustive_means': (
                'every bound listed under `bounds` was enumerated completely '
                'by this run, except entries whose label says "slice" / "not '
                'exhaustive": those are seed-selected parts of the next bound '
                'explored in addition to the completed ones'),
        }
        if len(self.outcomes) <= 1 and self.evaluations > 1:
            cov['warning'] = ('single observed outcome: nothing collided; '
                              'treat as vacuous')
        cov.update(self.extra)
        if error:
            cov['harness_error'] = error
        ev = {
            'property_id': self.prop,
            'tier': self.tier,
            'seed': self.seed,
            'level': 'model_checking',
            'coverage': cov,
            'assumptions': self.assumptions,
            'wall_s': round(time.time() - self.t0, 2),
            'violations': nviol,
        }
        evdir = 'evidence-mutant' if os.environ.get('VERIF_NO_EVIDENCE') \
            else 'evidence'
        path = os.path.join(VERIF, evdir, f'{self.prop}.json')
        os.makedirs(os.path.dirname(path), exist_ok=True)
        tmp = path + '.tmp'
        with open(tmp, 'w') as f:
            json.dump(ev, f, indent=1, sort_keys=True, default=repr)
            f.write('\n')
        os.replace(tmp, path)
        validate_evidence(path)
        return path


def validate_evidence(path):
    if not os.path.exists(EVIDENCE_SCHEMA):
        return
    code = ('import json,sys,jsonschema;'
            'jsonschema.validate(json.load(open(sys.argv[1])),'
            'json.load(open(sys.argv[2])))')
    try:
        r = subprocess.run(['python3-vt', '-c', code, path, EVIDENCE_SCHEMA],
                           capture_output=True, text=True, timeout=60)
    except FileNotFoundError:
        return
    if r.returncode != 0:
        raise HarnessError('evidence does not validate: ' + r.stderr[-2000:])


def write_replay(prop, v):
    d = os.path.join(VERIF, 'replays', prop)
    os.makedirs(d, exist_ok=True)
    fp = digest([v['kind'], v['case']])
    path = os.path.join(d, fp + '.json')
    doc = {'property': prop, 'kind': v['kind'], 'case': v['case'],
           'expected': v.get('expected'), 'observed': v.get('observed'),
           'detail': v.get('detail'), 'fingerprint': fp,
           'standalone': v.get('standalone'),
           'replay_times': v.get('replay_times', 1),
           'how': f'./check {prop} --replay {path}'}
    with open(path, 'w') as f:
        json.dump(doc, f, indent=1, sort_keys=True, default=repr)
        f.write('\n')
    return path


def _replay_once(module, v, times=1):
    """Run module.replay(case-doc) in a brand new process of the right mode.
    times=2: the case is run twice in that one process and the SECOND result
    counts (a violation that needs the state an identical earlier run of the
    same case left behind in the process)."""
    mode = getattr(module, 'REPLAY_MODE', getattr(module, 'MODE', 'nrt'))
    if callable(mode):
        mode = mode(v)
    os.environ['PYTHONHASHSEED'] = '0'
    ctx = mp.get_context('spawn')
    extra = getattr(module, 'EXTRA_INIT', None)
    with ctx.Pool(1, _worker_init, (mode, REPO, extra)) as p:
        for _ in range(times):
            res = p.apply(_call, ((module.__name__, 'replay',
                                   {'kind': v['kind'], 'case': v['case']}),))
            if isinstance(res, dict) and 'harness_error' in res:
                raise HarnessError(res['harness_error'])
    return res


def confirm(module, v):
    """Replay a violation twice in fresh workers; both must reproduce it with
    identical observations."""
    a = _replay_once(module, v)
    b = _replay_once(module, v)
    same = getattr(module, 'replay_equal', None)
    if same is not None and same(v, a, b):
        pass
    elif canon(a) != canon(b):
        sys.stderr.write(f'replay A: {canon(a)[:1500]}\n'
                         f'replay B: {canon(b)[:1500]}\n')
        return 'diverged'
    if not a.get('violates'):
        # history dependent?  the same case twice in one fresh process
        try:
            a2 = _replay_once(module, v, times=2)
            b2 = _replay_once(module, v, times=2)
        except HarnessError:
            a2 = b2 = {}
        if a2.get('violates') and b2.get('violates') and \
                (canon(a2) == canon(b2) or
                 (same is not None and same(v, a2, b2))):
            v['replay_times'] = 2
            v['detail'] = (str(v.get('detail') or '') + ' [history dependent: '
                           'does not show in a first run of this case in a '
                           'fresh process, shows when the same case is run '
                           'a second time in that process]')
            return 'ok'
        sys.stderr.write(f'replay: {canon(a)[:1500]}\n')
        return 'gone'
    return 'ok'


def pick_slice(seed, k):
    """Which 1/k slice of the next bound the quick tier adds for this seed."""
    return seed % k


def shard_order(n, seed):
    """Deterministic permutation of range(n) from the seed."""
    import random
    idx = list(range(n))
    random.Random(seed).shuffle(idx)
    return idx
