"""Entry point: python -m mc.run <ID> [--tier T] [--replay PATH]"""
import os
import sys
import json
import argparse
import importlib
import traceback

from mc import core


def main():
    ap = argparse.ArgumentParser()
    ap.add_argument('prop')
    ap.add_argument('--tier', default=os.environ.get('VERIF_TIER', 'quick'),
                    choices=['quick', 'thorough'])
    ap.add_argument('--replay')
    a = ap.parse_args()
    try:
        seed = int(os.environ.get('VERIF_SEED', '0'))
    except ValueError:
        seed = 0
    prop = a.prop.upper()
    module = importlib.import_module(f'mc.checks.{prop.lower()}')
    if a.replay:
        doc = json.load(open(a.replay))
        v = {'kind': doc['kind'], 'case': doc['case']}
        times = int(doc.get('replay_times', 1))
        r1 = core._replay_once(module, v, times)
        r2 = core._replay_once(module, v, times)
        print(json.dumps(r1, indent=1, sort_keys=True, default=repr))
        if core.canon(r1) != core.canon(r2):
            print('replay diverged between two fresh workers')
            return 2
        if r1.get('violates'):
            print(f'VIOLATION property={prop} replay={a.replay}')
            return 1
        print('violation does not reproduce on this tree')
        return 0
    ctx = core.Ctx(prop, a.tier, seed)
    try:
        module.main(ctx)
        rc = ctx.finish(module)
    except core.HarnessError as e:
        ctx.close()
        print(f'HARNESS-ERROR property={prop}: {e}', flush=True)
        try:
            ctx.write_evidence(error=str(e)[:2000])
        except Exception:
            pass
        return 2
    except BaseException:
        ctx.close()
        traceback.print_exc()
        return 2
    c = ctx
    print(f'{prop} tier={a.tier} seed={seed} evaluations={c.evaluations} '
          f'states={c.states} transitions={c.transitions} '
          f'nontrivial={c.nontrivial} outcomes={len(c.outcomes)} '
          f'violation_instances={c.violation_count} '
          f'wall={core.time.time() - c.t0:.1f}s rc={rc}', flush=True)
    return rc


if __name__ == '__main__':
    sys.exit(main())
